"""
Process-wide library state that is held in plain class attributes (booleans, numbers, None), found generically: the
checks must not depend on the private NAME of such a switch (e.g. the matrix negative-power flag), only on the fact that
class-level scalars of the library's classes are process-wide state.
"""
import sys

_SCALARS = (bool, int, float, complex, str, bytes, type(None))


def library_classes():
    out, seen = [], set()
    for name, mod in list(sys.modules.items()):
        if mod is None or not (name == 'mitxgraders' or name.startswith('mitxgraders.')):
            continue
        for val in list(vars(mod).values()):
            if isinstance(val, type) and val.__module__.startswith('mitxgraders') and id(val) not in seen:
                seen.add(id(val))
                out.append(val)
    return sorted(out, key=lambda c: (c.__module__, c.__qualname__))


def class_scalars(classes=None):
    """{'module.Class.attr': value} for every scalar class attribute defined directly on a library class"""
    snap = {}
    for c in (classes if classes is not None else library_classes()):
        for k, v in list(vars(c).items()):
            if k.startswith('__') or not isinstance(v, _SCALARS):
                continue
            snap['%s.%s.%s' % (c.__module__, c.__qualname__, k)] = v
    return snap


def restore_class_scalars(snap, classes=None):
    """puts back every scalar class attribute recorded in snap (attributes created since are removed)"""
    by_name = {'%s.%s' % (c.__module__, c.__qualname__): c for c in (classes if classes is not None else library_classes())}
    now = class_scalars(list(by_name.values()))
    for key, v in snap.items():
        cname, attr = key.rsplit('.', 1)
        c = by_name.get(cname)
        if c is not None and now.get(key, _MISSING) != v:
            setattr(c, attr, v)
    for key in now:
        if key not in snap:
            cname, attr = key.rsplit('.', 1)
            c = by_name.get(cname)
            if c is not None:
                try:
                    delattr(c, attr)
                except Exception:
                    pass


_MISSING = object()
