"""
Process-wide library state that is held in plain class attributes (booleans, numbers, None), found generically: the
checks must not depend on the private NAME of such a switch (e.g. the matrix negative-power flag), only on the fact that
class-level scalars of the library's classes are process-wide state.
"""
import copy
import sys

_SCALARS = (bool, int, float, complex, str, bytes, type(None))


def library_classes():
    out, seen = [], set()
    for name, mod in list(sys.modules.items()):
        if mod is None or not (name == 'mitxgraders' or name.startswith('mitxgraders.')):
            continue
        for val in list(vars(mod).values()):
            if isinstance(val, type) and val.__module__.startswith('mitxgraders') and id(val) not in seen:
                seen.add(id(val))
                out.append(val)
    return sorted(out, key=lambda c: (c.__module__, c.__qualname__))


def class_scalars(classes=None):
    """{'module.Class.attr': value} for every scalar class attribute defined directly on a library class"""
    snap = {}
    for c in (classes if classes is not None else library_classes()):
        for k, v in list(vars(c).items()):
            if k.startswith('__') or not isinstance(v, _SCALARS):
                continue
            snap['%s.%s.%s' % (c.__module__, c.__qualname__, k)] = v
    return snap


def restore_class_scalars(snap, classes=None):
    """puts back every scalar class attribute recorded in snap (attributes created since are removed)"""
    by_name = {'%s.%s' % (c.__module__, c.__qualname__): c for c in (classes if classes is not None else library_classes())}
    now = class_scalars(list(by_name.values()))
    for key, v in snap.items():
        cname, attr = key.rsplit('.', 1)
        c = by_name.get(cname)
        if c is not None and now.get(key, _MISSING) != v:
            setattr(c, attr, v)
    for key in now:
        if key not in snap:
            cname, attr = key.rsplit('.', 1)
            c = by_name.get(cname)
            if c is not None:
                try:
                    delattr(c, attr)
                except Exception:
                    pass


_MISSING = object()


# ---------------------------------------------------------------- module-level / class-level containers

def library_containers():
    """
    Every mutable container (dict / list / set) held at module level or as a class attribute anywhere in the library
    (found by scanning the imported modules of the tree under test, so containers introduced by an edit are included).
    """
    import sys
    import types
    found = []
    seen = set()
    for name, mod in list(sys.modules.items()):
        if mod is None or not (name == 'mitxgraders' or name.startswith('mitxgraders.')):
            continue
        for attr, val in list(vars(mod).items()):
            if isinstance(val, (dict, list, set)) and id(val) not in seen and not attr.startswith('__'):
                seen.add(id(val))
                found.append(('%s.%s' % (name, attr), val))
            if isinstance(val, type) and val.__module__.startswith('mitxgraders'):
                for cattr, cval in list(vars(val).items()):
                    if isinstance(cval, (dict, list, set)) and id(cval) not in seen and not cattr.startswith('__'):
                        seen.add(id(cval))
                        found.append(('%s.%s.%s' % (name, val.__name__, cattr), cval))
    return found


LIB_STATE = None


NUMPY_ERR = None


def snapshot_library_state():
    global LIB_STATE, NUMPY_ERR
    import numpy as np
    NUMPY_ERR = (dict(np.geterr()), np.geterrcall())       # the library installs its own floating-point error handling
    LIB_STATE = []
    for name, obj in library_containers():
        try:
            LIB_STATE.append((name, obj, copy.deepcopy(obj)))
        except Exception:
            pass


def ensure_snapshot():
    """pristine snapshot, taken once per process (call before the first history is run)"""
    if LIB_STATE is None:
        snapshot_library_state()


def clear_function_caches():
    """functools caches held by module-level functions or class attributes of the library"""
    for name, mod in list(sys.modules.items()):
        if mod is None or not (name == 'mitxgraders' or name.startswith('mitxgraders.')):
            continue
        for val in list(vars(mod).values()):
            cands = [val]
            if isinstance(val, type) and getattr(val, '__module__', '').startswith('mitxgraders'):
                cands += [getattr(v, '__func__', v) for v in vars(val).values()]
            for c in cands:
                cc = getattr(c, 'cache_clear', None)
                if callable(cc) and not isinstance(c, type):
                    try:
                        cc()
                    except Exception:
                        pass


def restore_library_state():
    """puts every library-level container back to its pristine content, in place (identity preserved)"""
    clear_function_caches()
    if NUMPY_ERR is not None:
        import numpy as np
        if dict(np.geterr()) != NUMPY_ERR[0]:
            np.seterr(**NUMPY_ERR[0])
        if np.geterrcall() is not NUMPY_ERR[1]:
            np.seterrcall(NUMPY_ERR[1])
    for name, obj, saved in LIB_STATE:
        try:
            if obj == saved:
                continue
        except Exception:
            pass
        fresh = copy.deepcopy(saved)
        if isinstance(obj, dict):
            obj.clear()
            obj.update(fresh)
        elif isinstance(obj, list):
            obj[:] = fresh
        else:
            obj.clear()
            obj.update(fresh)


class pristine_library(object):
    """context: run something in the pristine library-level state, then put the current state back"""
    def __enter__(self):
        import numpy as np
        self.np_cur = (dict(np.geterr()), np.geterrcall())
        self.cur = []
        for name, obj, saved in LIB_STATE:
            try:
                self.cur.append((obj, copy.deepcopy(obj)))
            except Exception:
                pass
        restore_library_state()

    def __exit__(self, *exc):
        import numpy as np
        np.seterr(**self.np_cur[0])
        np.seterrcall(self.np_cur[1])
        for obj, cur in self.cur:
            if isinstance(obj, list):
                obj[:] = cur
            else:
                obj.clear()
                obj.update(cur)
        return False




def library_state_diff(canon):
    """
    canonical description of every tracked library-level container whose content differs from the pristine snapshot, plus
    the fill level of function caches: part of a search state, so that hidden process-wide memory distinguishes states
    """
    out = []
    if NUMPY_ERR is not None:
        import numpy as np
        if dict(np.geterr()) != NUMPY_ERR[0] or np.geterrcall() is not NUMPY_ERR[1]:
            out.append(('numpy.errstate', tuple(sorted(np.geterr().items())), getattr(np.geterrcall(), '__qualname__', repr(np.geterrcall()))))
    for name, obj, saved in (LIB_STATE or []):
        try:
            same = (obj == saved)
        except Exception:
            same = False
        if not same:
            try:
                out.append((name, canon(obj)))
            except Exception:
                out.append((name, repr(obj)[:500]))
    for name, mod in list(sys.modules.items()):
        if mod is None or not (name == 'mitxgraders' or name.startswith('mitxgraders.')):
            continue
        for attr, val in list(vars(mod).items()):
            ci = getattr(val, 'cache_info', None)
            if callable(ci) and not isinstance(val, type):
                try:
                    n = ci().currsize
                except Exception:
                    continue
                if n:
                    out.append(('%s.%s#cache' % (name, attr), n))
    return tuple(sorted(out, key=repr))
