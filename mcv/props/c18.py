"""
C18 -- StringGrader matches exactly the inputs equal after the configured cleaning;
accept_any / accept_nonempty minimums; validation patterns must match the whole
cleaned submission.

Families added by the gap review (second half of the file): validation patterns under EVERY cleaning-flag set
and a second pattern pool (empty pattern, lazy quantifiers, back-reference, inline flag ...); validation together
with min_length / min_words; every option omitted (documented defaults); runs and strings far beyond the
exhaustive length bound; 2-4 digit minimums; several expected answers (first vs later); all ASCII punctuation and
a wide Unicode unit alphabet; the expect argument with falsy values; the grader inside a ListGrader.

ENUM only.  Every case builds (or reuses, for cases with the same configuration) a real
StringGrader, calls it as edX would -- grader(None, submission) -- and compares the
verdict / message / error with the reference model in mcv/refs/c18_ref.py, which is
written from the property statement and docs/string_grader.md and never calls the
library.
"""
import itertools
import re
from ..core import Family, Result, viol, HarnessError
from ..refs import c18_ref as ref

PROPERTY = 'C18'
RULE = ('pairs (expected, submission) over small alphabets x all 16 cleaning-flag sets, single edits of '
        'realistic expected strings, accept_any/accept_nonempty minimum grids and validation-pattern pools are '
        'enumerated completely; a matching case is non-trivial when the two raw strings differ but become equal '
        'under the most permissive cleaning (so the verdict depends on the flags); an accept-any case when the '
        'cleaned submission is within one character / one word of a minimum; a validation case when the '
        'submission contains a member of the pattern language as a proper part or is a member.  Further families '
        'widen one dimension each over a small fixed pool: validation x all 16 flag sets and a second pattern pool, '
        'validation x minimums, options omitted, white-space runs of up to 129 units and strings of up to 1099 '
        'characters, minimums of 10/100/1000, two expected answers in every order and credit form, 85 punctuation / '
        'Unicode units pairwise, empty expect arguments, the StringGrader as a ListGrader subgrader')
EXPLANATION = ('states = distinct (configuration, expected, submission) cases; transitions = calls of the real '
               'StringGrader.__call__; every call runs the implementation, so traces_validated_against_impl = calls')
ASSUMPTIONS = [
    'reference normaliser: tab -> space; line-break unit (CRLF, LFCR, CR, LF) -> one space; explicit case table; '
    'strip removes spaces at the ends; strip_all deletes spaces; clean_spaces collapses runs of spaces',
    'CR/LF runs that are neither n copies of one character nor exactly CRLF/LFCR have an open number of line '
    'breaks; Unicode white space other than space/tab/CR/LF at the two ends may or may not be stripped: the '
    'oracle demands a verdict only where every reading agrees',
    'cased non-ASCII letters limited to E-acute, N-tilde and Cyrillic De (simple one-to-one case pairs)',
    'pattern languages are hand-written predicates, cross-checked at start-up against re.fullmatch on the pool',
    'with case_sensitive off the validation pattern sees the LOWER-cased submission (the cleaned form); an '
    'implementation folding to upper case would be flagged by the validation families',
    'graders are reused across cases with the same configuration, as edX reuses one grader object (history '
    'independence itself is property C11)',
    'wording of the minimum messages is only required to contain "<have>/<required>" and the unit (word/character)',
    'when a submission fails validation and the minimums, either prescribed refusal is accepted',
    'that a non-conforming expected answer is a ConfigError is taken from docs/string_grader.md (family '
    'validation_expect_conformance), not from the property statement',
    'defaults of omitted options (flags, min_length 0, min_words 0, explain_* "err", the invalid_msg text) are taken '
    'from docs/string_grader.md',
    'zero-width space and BOM (ZERO WIDTH NO-BREAK SPACE) at an end under strip are left open like Unicode white '
    'space; inside a string they must be kept like any other character; zero-width joiners, soft hyphen, NUL, DEL '
    'are ordinary characters everywhere',
    'cased letters added for the unit alphabet: U-umlaut, Greek lambda, fullwidth A (simple one-to-one pairs); '
    'letters whose case mapping changes length or is context dependent (sharp s, dotted I, final sigma) and '
    'canonically equivalent spellings are only used where the statement decides: precomposed and decomposed '
    'e-acute are DIFFERENT strings (no character is altered)',
    'with several expected answers the result is the best credit among the matching ones (docs/item_grader.md); '
    'ties between equal credits do not occur in the enumerated forms',
    'validation_all_flags, quick tier: explain_validation takes one of its three values per configuration, fixed by '
    '(pattern index + flag set + mode index) mod 3 -- a deterministic covering, all three values occur for every '
    'pattern and every mode; the thorough tier enumerates the full product',
]

CORRECT = {'ok': True, 'grade_decimal': 1, 'msg': ''}
WRONG = {'ok': False, 'grade_decimal': 0, 'msg': ''}
ALL_ON = 0b1110            # case folded, strip, clean_spaces, strip_all: the most permissive cleaning
DEFAULT_BITS = 0b0111      # documented defaults: case_sensitive, strip, clean_spaces, not strip_all


def strings_upto(alphabet, maxlen, minlen=0):
    for n in range(minlen, maxlen + 1):
        for t in itertools.product(alphabet, repeat=n):
            yield ''.join(t)


def run(grader, expect, sub):
    try:
        return ('ok', grader(expect, sub))
    except Exception as e:          # noqa -- the harness judges everything that escapes
        return ('err', e)


def is_result(res, want):
    return (isinstance(res, dict) and set(res) == set(want) and res['ok'] is want['ok']
            and not isinstance(res['grade_decimal'], bool) and res['grade_decimal'] == want['grade_decimal']
            and res['msg'] == want['msg'])


def show(out):
    if out[0] == 'ok':
        return out[1]
    return '%s: %s' % (type(out[1]).__name__, out[1])


def exc_names(e):
    return [c.__name__ for c in type(e).__mro__]


def diff_kinds(a, b):
    """coarse, stable classification of how two raw strings differ (for violation signatures)"""
    kinds = set()
    both = a + b
    if '\t' in both:
        kinds.add('tab')
    if '\r' in both:
        kinds.add('cr')
    if '\n' in both:
        kinds.add('lf')
    if any(c in ref.EXOTIC_WS for c in both):
        kinds.add('exotic-ws')
    sa = [c for c in a if c not in ' \t\r\n']
    sb = [c for c in b if c not in ' \t\r\n']
    if sa != sb:
        try:
            fa = [ref.fold_char(c) for c in sa]
            fb = [ref.fold_char(c) for c in sb]
        except ref.RefError:
            fa, fb = sa, None
        kinds.add('case' if fa == fb else 'chars')
    if ' ' in both and a != b:
        kinds.add('spaces')
    return '+'.join(sorted(kinds)) or 'identical'


def judge_match(out, expected, submission, bits, nontrivial=None):
    """oracle for compare mode without validation pattern"""
    verdict = ref.match_verdict(expected, submission, bits)
    if nontrivial is None:
        nontrivial = (expected != submission
                      and ref.match_verdict(expected, submission, ALL_ON) is not False)
    if out[0] == 'err':
        return Result('raised', nontrivial,
                      viol('compare:raises:%s' % type(out[1]).__name__,
                           'plain comparison raised instead of grading', 'a grade', show(out)))
    res = out[1]
    if is_result(res, CORRECT):
        got = True
    elif is_result(res, WRONG):
        got = False
    else:
        return Result('malformed', nontrivial,
                      viol('compare:result-form', 'result is neither the full-credit nor the zero result',
                           [CORRECT, WRONG], res))
    if verdict is None:
        return Result('open:%s' % ('match' if got else 'nomatch'), nontrivial)
    if got == verdict:
        return Result('match' if got else 'nomatch', nontrivial)
    kind = 'should-accept' if verdict else 'should-reject'
    return Result('WRONG:' + kind, nontrivial,
                  viol('match:%s:%s' % (kind, diff_kinds(expected, submission)),
                       '%s: expected %r, submission %r; reference normal forms %r vs %r'
                       % (ref.flag_name(bits), expected, submission,
                          sorted(ref.normal_forms(expected, bits)), sorted(ref.normal_forms(submission, bits))),
                       verdict, res))


class GraderCache(object):
    """the big families reuse one grader for all cases with the same configuration (as edX does)"""
    def __init__(self, cap=64):
        self.cap = cap
        self.d = {}

    def get(self, key, build):
        g = self.d.get(key)
        if g is None:
            if len(self.d) >= self.cap:
                self.d.clear()
            g = self.d[key] = build()
        return g


def chunked(keys, subs, width=16):
    """(key, submission) for every key and submission; keys vary fastest inside groups of `width`, so that with
    `width` worker processes taking every width-th case each process builds only its share of the graders"""
    for i in range(0, len(keys), width):
        chunk = keys[i:i + width]
        for sub in subs:
            for k in chunk:
                yield k, sub


# ------------------------------------------------------------------------------ pair families

class PairFamily(Family):
    """all (expected, submission) pairs from two string lists x a list of flag sets"""
    timeout = 5.0
    flagsets = list(range(16))

    def setup(self, tier):
        from mitxgraders import StringGrader
        self.SG = StringGrader
        self.cache = GraderCache()

    def lists(self, tier):
        """-> list of (expected_list, submission_list) blocks"""
        raise NotImplementedError

    def cases(self, tier):
        for exps, subs in self.lists(tier):
            keys = [(bits, e) for e in exps for bits in self.flagsets]
            for (bits, e), s in chunked(keys, subs):
                yield (bits, e, s)

    def describe(self, case):
        bits, e, s = case
        return {'flags': ref.flag_name(bits), 'expected': repr(e), 'submission': repr(s)}

    def check(self, case):
        bits, e, s = case
        g = self.cache.get((bits, e), lambda: self.SG(answers=e, **ref.flag_kwargs(bits)))
        return judge_match(run(g, None, s), e, s, bits)


class PairsLetters(PairFamily):
    name = 'pairs_aA_space_tab'
    rule = ('every pair of strings of length <= L over {a, A, space, tab} (L=3 quick, 4 thorough) x all 16 flag '
            'sets; grader(None, submission) with answers=expected must give full credit iff the reference normal '
            'forms are equal; non-trivial = raw strings differ but agree under the most permissive cleaning')

    def lists(self, tier):
        L = 3 if tier == 'quick' else 4
        ss = list(strings_upto('aA \t', L))
        return [(ss, ss)]


class PairsBreaks(PairFamily):
    name = 'pairs_linebreaks'
    rule = ('every pair of strings of length <= L over {a, space, tab, CR, LF} (L=2 quick, 3 thorough; so CRLF, '
            'LFCR, CRCR, LFLF and ambiguous runs such as CR LF CR all occur) x the 8 flag sets with '
            'case_sensitive on; runs with an open line-break count only constrain the verdict where every '
            'reading agrees')
    flagsets = [b for b in range(16) if b & 1]

    def lists(self, tier):
        L = 2 if tier == 'quick' else 3
        ss = list(strings_upto('a \t\r\n', L))
        return [(ss, ss)]


WIDE = ['a', 'A', 'b', '1', '.', '-', ' ', '\t', '\r', '\n', u'\xe9', u'\xc9', u'\u0414', u'\u0434',
        ref.NBSP, u'\x0b', u'\u2003']


WIDE_QUICK = [c for c in WIDE if c not in ('b', '-', u'\u0414', u'\u0434', u'\u2003')]


class PairsWide(PairFamily):
    name = 'pairs_wide_alphabet'
    rule = ('pairs of strings of length <= 2 over {a, A, b, 1, ., -, space, tab, CR, LF, e-acute, E-acute, '
            'Cyrillic De/de, NBSP, VT, EM SPACE} x all 16 flag sets (quick: 12 of the 17 characters and total length <= 3, thorough: all '
            'pairs): no character other than space/tab/CR/LF may be ignored or altered, case folding pairs '
            'exactly the two cases of a letter; NBSP/VT/EM SPACE at an end under strip are left open')

    def lists(self, tier):
        alpha = WIDE_QUICK if tier == 'quick' else WIDE
        s0 = ['']
        s1 = list(alpha)
        s2 = [a + b for a in alpha for b in alpha]
        if tier == 'quick':
            return [(s0 + s1, s0 + s1 + s2), (s2, s0 + s1)]
        allp = s0 + s1 + s2
        return [(allp, allp)]


# ------------------------------------------------------------------------------ edits of expected strings

BASES = ['cat', 'Two  Words', ' lead', 'a\tb', u'\xc9a', 'x.y', 'trail ', 'a b c']
WS_UNITS = [' ', '  ', '\t', '\r', '\n', '\r\n', '\n\r', ref.NBSP]
SWAPCASE = dict(ref.FOLD)
SWAPCASE.update({v: k for k, v in ref.FOLD.items()})


def edits(base):
    out = [base]
    n = len(base)
    for i in range(n + 1):                       # insert a white-space unit
        for u in WS_UNITS:
            out.append(base[:i] + u + base[i:])
    for i in range(n):                           # delete one space / swap space <-> tab
        if base[i] == ' ':
            out.append(base[:i] + base[i + 1:])
            out.append(base[:i] + '\t' + base[i + 1:])
            out.append(base[:i] + '\n' + base[i + 1:])
        if base[i] == '\t':
            out.append(base[:i] + ' ' + base[i + 1:])
            out.append(base[:i] + base[i + 1:])
    for i in range(n):                           # flip the case of one letter
        if base[i] in SWAPCASE:
            out.append(base[:i] + SWAPCASE[base[i]] + base[i + 1:])
    out.append(''.join(SWAPCASE.get(c, c) for c in base))                         # swap all
    out.append(''.join(ref.FOLD.get(c, c) for c in base))                         # all lower
    out.append(''.join(SWAPCASE[c] if c in ref.FOLD.values() else c for c in base))   # all upper
    for i in range(n):                           # substitute / delete one non-space character
        if base[i] not in ' \t':
            for r in ('z', '.', '1'):
                if r != base[i]:
                    out.append(base[:i] + r + base[i + 1:])
            out.append(base[:i] + base[i + 1:])
    for i in range(n + 1):                       # insert one non-space character
        out.append(base[:i] + 'z' + base[i:])
        out.append(base[:i] + '.' + base[i:])
    seen = set()
    uniq = []
    for s in out:
        if s not in seen:
            seen.add(s)
            uniq.append(s)
    return uniq


class Edits(Family):
    name = 'edits_of_expected'
    timeout = 5.0
    rule = ('for each base in %r: the base and every single edit (insert one of space, 2 spaces, tab, CR, LF, '
            'CRLF, LFCR, NBSP at every position; delete a space; space<->tab/LF; flip case of one/all letters; '
            'substitute, delete or insert one non-space character) x {base is the answer, edit is the answer} x '
            'all 16 flag sets and the no-flags (documented defaults) configuration x {answer in the configuration, '
            'answer inferred from the expect argument} x {no extras, min_length/min_words/explain_minimums set '
            '(documented as ignored without accept_any)}; one grader per configuration, called repeatedly as edX does '
            '(the expect route re-infers the answer on every call)' % (BASES,))

    def setup(self, tier):
        from mitxgraders import StringGrader
        self.SG = StringGrader
        self.cache = GraderCache()

    def cases(self, tier):
        routes = ['config', 'expect']
        for bi, base in enumerate(BASES):
            eds = edits(base)
            for route in routes:
                if tier == 'quick' and route == 'expect' and bi >= 3:
                    continue
                for extras in (0, 1):
                    if extras and route == 'expect':
                        continue
                    for bits in list(range(16)) + [-1]:
                        for ed in eds:
                            yield (bits, base, ed, route, extras)
                        for ed in eds[1:]:
                            yield (bits, ed, base, route, extras)

    def describe(self, case):
        bits, e, s, route, extras = case
        return {'flags': 'defaults (no flags given)' if bits < 0 else ref.flag_name(bits),
                'expected': repr(e), 'submission': repr(s), 'route': route,
                'extras': 'min_length=5,min_words=3,explain_minimums=err' if extras else None}

    def check(self, case):
        bits, e, s, route, extras = case
        kw = {} if bits < 0 else ref.flag_kwargs(bits)
        if extras:
            kw.update(min_length=5, min_words=3, explain_minimums='err')
        if route == 'config':
            g = self.cache.get((bits, extras, e), lambda: self.SG(answers=e, **kw))
            out = run(g, None, s)
        else:
            g = self.cache.get((bits, extras, None), lambda: self.SG(**kw))
            out = run(g, e, s)
        return judge_match(out, e, s, DEFAULT_BITS if bits < 0 else bits)


# ------------------------------------------------------------------------------ accept_any / accept_nonempty

MODES = {'any': {'accept_any': True}, 'nonempty': {'accept_nonempty': True},
         'both': {'accept_any': True, 'accept_nonempty': True}}
EXPLAINS = ['err', 'msg', None]
ANSWER_VARIANTS = ['none', 'expect-arg', 'dict']
RECORDED = {'expect': '', 'grade_decimal': 0.5, 'msg': 'Your answer has been recorded.'}


def judge_refusal_min(out, explain, failing):
    """failing: list of (have, need, unit).  Returns None when the refusal has the prescribed form."""
    def mentions(msg):
        return any(('%d/%d' % (h, n)) in msg and unit in msg for h, n, unit in failing)
    if explain == 'err':
        if out[0] != 'err':
            return 'expected an InvalidInput error'
        if 'InvalidInput' not in exc_names(out[1]):
            return 'expected an InvalidInput error, got %s' % type(out[1]).__name__
        if not mentions(str(out[1])):
            return 'error message does not state <have>/<required> for a failing minimum'
        return None
    if out[0] != 'ok':
        return 'expected to be graded incorrect, got an error'
    res = out[1]
    if not (isinstance(res, dict) and set(res) == {'ok', 'grade_decimal', 'msg'} and res['ok'] is False
            and res['grade_decimal'] == 0):
        return 'expected ok=False, grade_decimal=0'
    if explain == 'msg':
        if not mentions(res['msg']):
            return 'message does not state <have>/<required> for a failing minimum'
    elif res['msg'] != '':
        return 'expected no message'
    return None


class AcceptAny(Family):
    name = 'accept_any_minimums'
    timeout = 5.0
    rule = ('{accept_any, accept_nonempty, both} x min_length {0,1,3} x min_words {0,1,2} x explain_minimums '
            '{err,msg,None} x 8 sets of (strip, clean_spaces, strip_all) x {no answers, no answers but an expect '
            'argument, documented answers dict with grade 0.5 and a message} x every string of length <= 3 over '
            '{a, space, .} and of length 4 over {a, space} (thorough: length <= 4 over {a, space, ., tab}, length <= 6 '
            'over {a, space}, and five longer examples with line breaks); accepted iff cleaned length >= '
            'max(min_length, 1 if accept_nonempty) and words >= min_words; non-trivial = cleaned length or word '
            'count within 1 of a positive requirement')

    def setup(self, tier):
        from mitxgraders import StringGrader
        self.SG = StringGrader
        self.cache = GraderCache()

    def subs(self, tier):
        if tier == 'quick':
            return list(strings_upto('a .', 3)) + list(strings_upto('a ', 4, 4))
        ss = list(strings_upto('a .\t', 4))
        seen = set(ss)
        for s in strings_upto('a ', 6, 5):
            if s not in seen:
                ss.append(s)
        ss += ['a\nb', 'a\r\nb c', 'a b\n', "isn't word-counting fun?", '  a  b  c  d  ']
        return ss

    def cases(self, tier):
        subs = self.subs(tier)
        keys = [(mode, ml, mw, ex, fl, av) for mode in ('any', 'nonempty', 'both') for ml in (0, 1, 3)
                for mw in (0, 1, 2) for ex in (0, 1, 2) for fl in range(8) for av in (0, 1, 2)]
        for key, s in chunked(keys, subs):
            yield key + (s,)

    def describe(self, case):
        mode, ml, mw, ex, fl, av, s = case
        return {'mode': mode, 'min_length': ml, 'min_words': mw, 'explain_minimums': EXPLAINS[ex],
                'flags': ref.flag_name(1 | (fl << 1)), 'answers': ANSWER_VARIANTS[av], 'submission': repr(s)}

    def check(self, case):
        mode, ml, mw, ex, fl, av, s = case
        bits = 1 | (fl << 1)
        explain = EXPLAINS[ex]

        def build():
            kw = dict(MODES[mode])
            kw.update(ref.flag_kwargs(bits))
            kw.update(min_length=ml, min_words=mw, explain_minimums=explain)
            if av == 2:
                kw['answers'] = dict(RECORDED)
            return self.SG(**kw)
        g = self.cache.get((mode, ml, mw, ex, fl, av), build)
        out = run(g, 'zzz' if av == 1 else None, s)

        cleaned = ref.normal_form(s, bits)
        chars = len(cleaned)
        words = ref.count_words(cleaned)
        need = max(ml, 1) if mode in ('nonempty', 'both') else ml
        failing = []
        if chars < need:
            failing.append((chars, need, 'character'))
        if words < mw:
            failing.append((words, mw, 'word'))
        nontrivial = (need > 0 and abs(chars - need) <= 1) or (mw > 0 and abs(words - mw) <= 1)
        accepted_form = ({'ok': 'partial', 'grade_decimal': 0.5, 'msg': RECORDED['msg']} if av == 2 else CORRECT)
        if not failing:
            if out[0] == 'ok' and isinstance(out[1], dict) and set(out[1]) == set(accepted_form) \
                    and out[1]['ok'] == accepted_form['ok'] and type(out[1]['ok']) is type(accepted_form['ok']) \
                    and out[1]['grade_decimal'] == accepted_form['grade_decimal'] \
                    and out[1]['msg'] == accepted_form['msg']:
                return Result('accepted', nontrivial)
            if out[0] == 'ok' and isinstance(out[1], dict) and out[1].get('grade_decimal', 0) > 0:
                return Result('WRONG:accepted-altered', nontrivial,
                              viol('minimums:accepted-result-altered',
                                   'submission meets the minimums but the result is not the answer\'s credit/message',
                                   accepted_form, show(out)))
            return Result('WRONG:refused', nontrivial,
                          viol('minimums:refused-although-met',
                               'cleaned %r has %d characters (need %d) and %d words (need %d) but was refused'
                               % (cleaned, chars, need, words, mw), accepted_form, show(out)))
        if out[0] == 'ok' and isinstance(out[1], dict) and out[1].get('grade_decimal', 0) > 0:
            which = '+'.join(u for _, _, u in failing)
            return Result('WRONG:accepted', nontrivial,
                          viol('minimums:accepted-below-minimum:%s' % which,
                               'cleaned %r has %d characters (need %d) and %d words (need %d) but earned credit'
                               % (cleaned, chars, need, words, mw), 'refusal (%r)' % explain, show(out)))
        why = judge_refusal_min(out, explain, failing)
        if why:
            return Result('WRONG:refusal-form', nontrivial,
                          viol('minimums:refusal-form:%s' % explain,
                               '%s (cleaned %r: %d characters/need %d, %d words/need %d)'
                               % (why, cleaned, chars, need, words, mw), 'refusal as explain_minimums=%r' % explain,
                               show(out)))
        return Result('refused:%s:%s' % (explain, '+'.join(u for _, _, u in failing)), nontrivial)


# ------------------------------------------------------------------------------ validation patterns

INVALID_MSG = 'Use the requested format!'
HAND_POOL = [
    'dog', 'dogs', 'catfish', 'hotdog', 'catdog', 'dogcat', 'cat dog', 'cat|dog', 'cat|', '|dog', 'dog$',
    'car', 'cart', 'scar', 'carcat', 'c.t', 'cot', 'coot', 'c t', 'c\tt', 'c\nt', 'c\r\nt', 'c  t',
    ' cat', 'cat ', ' cat ', 'cat\n', '\ncat', 'cat\r\n', '\tcat', 'cat\nfish', 'cat\ndog', ' ', '\n',
    'CAT', 'Cat', 'DOG', 'cAt', 'CATFISH', 'catcat', 'cat#animal', 'cat#', 'cat#animal$',
    'a', 'ab', 'abc', 'abcd', 'abca', 'cab', 'cab ', 'bad', 'abd', 'dab', 'ABC', 'a b', 'ac', 'abcabc',
    '1', '12', '007', '12a', 'a12', '1 2', ' 12 ', '1.2', '12\n', '-1',
    'x^', 'x^2', 'ax^', 'x', '^', 'x^x^', 'x^ ', 'X^',
    'NH_3', 'KCl', 'C_2H_6', 'H_', 'N H _ 3', 'CO_2', 'CO_22', 'nh_3', 'NH_3 is ammonia', 'H',
]


def validation_pool():
    pool = list(strings_upto('cat', 4))
    seen = set(pool)
    for s in HAND_POOL:
        if s not in seen:
            seen.add(s)
            pool.append(s)
    return pool


VMODES = ['compare', 'any', 'nonempty']


def selfcheck_patterns(pool):
    """the hand-written languages must agree with Python's own full-match semantics on every cleaned pool string"""
    for name, rx, cls, ans, lang in ref.PATTERNS:
        c = re.compile(rx)
        for s in pool:
            for bits in (0b0001, 0b0011, 0b0000, 0b0010, 0b1011):
                t = ref.normal_form(s, bits)
                if bool(c.fullmatch(t)) != bool(lang(t)):
                    raise HarnessError('reference language of %r disagrees with re.fullmatch on %r' % (rx, t))


def validation_sig(prefix, cls):
    return '%s:%s' % (prefix, cls)


def passes_kind(cleaned, lang):
    """'prefix-match' when a proper prefix of the string is in the pattern language (the string is matched only
    in part, from its start), else 'nonmatching-input'"""
    if lang is not None and any(lang(cleaned[:i]) for i in range(len(cleaned))):
        return 'prefix-match'
    return 'nonmatching-input'


def judge_refusal_validation(out, explain):
    if explain == 'err':
        if out[0] != 'err':
            return 'expected an InvalidInput error'
        if 'InvalidInput' not in exc_names(out[1]):
            return 'expected an InvalidInput error, got %s' % type(out[1]).__name__
        if str(out[1]) != INVALID_MSG:
            return 'error message is not invalid_msg'
        return None
    if out[0] != 'ok':
        return 'expected to be graded incorrect, got an error'
    want = {'ok': False, 'grade_decimal': 0, 'msg': INVALID_MSG if explain == 'msg' else ''}
    if not is_result(out[1], want):
        return 'expected %r' % (want,)
    return None


class Validation(Family):
    timeout = 5.0

    def __init__(self, cls):
        self.cls = cls
        self.name = 'validation_' + cls.replace('-', '_')
        self.patterns = [p for p in ref.PATTERNS if p[2] == cls]
        self.rule = ('patterns of class %s %s x {compare with a conforming answer, accept_any, accept_nonempty} x '
                     'explain_validation {err,msg,None} (explain_minimums set to the next value so the two refusals '
                     'are distinguishable) x strip on/off x case_sensitive on/off x a pool of every string of '
                     'length <= 4 over {c,a,t} plus %d hand-picked members, members with prefixes/suffixes/white '
                     'space, and near misses; the cleaned submission must be in the hand-written full-match '
                     'language, else refusal as explain_validation prescribes; non-trivial = the cleaned '
                     'submission is a member or properly contains a member'
                     % (cls, [p[1] for p in self.patterns], len(HAND_POOL)))

    def setup(self, tier):
        from mitxgraders import StringGrader
        self.SG = StringGrader
        self.cache = GraderCache()
        self.pool = validation_pool()
        selfcheck_patterns(self.pool)

    def cases(self, tier):
        pool = validation_pool()
        keys = [(p[0], vm, ex, strip, cs) for p in self.patterns for vm in VMODES for ex in (0, 1, 2)
                for strip in (1, 0) for cs in (1, 0)]
        for key, s in chunked(keys, pool):
            yield key + (s,)

    def describe(self, case):
        name, vm, ex, strip, cs, s = case
        p = ref.PATTERN_BY_NAME[name]
        return {'validation_pattern': p[1], 'mode': vm, 'explain_validation': EXPLAINS[ex],
                'explain_minimums': EXPLAINS[(ex + 1) % 3], 'strip': bool(strip), 'case_sensitive': bool(cs),
                'answers': p[3] if vm == 'compare' else None, 'submission': repr(s)}

    def check(self, case):
        name, vm, ex, strip, cs, s = case
        _, rx, cls, ans, lang = ref.PATTERN_BY_NAME[name]
        explain = EXPLAINS[ex]
        explain_min = EXPLAINS[(ex + 1) % 3]
        bits = (1 if cs else 0) | (2 if strip else 0) | 4

        def build():
            kw = dict(validation_pattern=rx, explain_validation=explain, explain_minimums=explain_min,
                      invalid_msg=INVALID_MSG, strip=bool(strip), case_sensitive=bool(cs))
            if vm == 'compare':
                kw['answers'] = ans
            elif vm == 'any':
                kw['accept_any'] = True
            else:
                kw['accept_nonempty'] = True
            return self.SG(**kw)
        g = self.cache.get((name, vm, ex, strip, cs), build)
        out = run(g, None, s)

        cleaned = ref.normal_form(s, bits)
        valid = bool(lang(cleaned))
        contains_member = valid or any(lang(cleaned[i:j]) for i in range(len(cleaned))
                                       for j in range(i + 1, len(cleaned) + 1))
        nontrivial = contains_member

        if vm == 'compare':
            cans = ref.normal_form(ans, bits)
            if not lang(cans):
                # docs: an expected answer that does not conform to the pattern is a configuration error
                if out[0] == 'err' and 'ConfigError' in exc_names(out[1]):
                    return Result('config-error:answer-nonconforming', nontrivial)
                return Result('WRONG:no-config-error', nontrivial,
                              viol(validation_sig('validation:expect-%s-passes' % passes_kind(cans, lang), cls),
                                   'cleaned answer %r is not in the language of %r but no ConfigError' % (cans, rx),
                                   'ConfigError', show(out)))
            if not valid:
                why = judge_refusal_validation(out, explain)
                if why is None:
                    return Result('refused-validation:%s' % explain, nontrivial)
                return self.bad_refusal(out, why, cleaned, rx, cls, explain, nontrivial, lang)
            want = CORRECT if cleaned == cans else WRONG
            if out[0] == 'ok' and is_result(out[1], want):
                return Result('valid:' + ('correct' if want is CORRECT else 'incorrect'), nontrivial)
            return Result('WRONG:valid-misgraded', nontrivial,
                          viol('validation:matching-input-misgraded',
                               'cleaned %r is in the language of %r; expected plain comparison with %r'
                               % (cleaned, rx, cans), want, show(out)))

        need = 1 if vm == 'nonempty' else 0
        meets = len(cleaned) >= need
        failing = [] if meets else [(len(cleaned), need, 'character')]
        if valid and meets:
            if out[0] == 'ok' and is_result(out[1], CORRECT):
                return Result('valid:accepted', nontrivial)
            return Result('WRONG:valid-refused', nontrivial,
                          viol('validation:matching-input-refused',
                               'cleaned %r is in the language of %r and meets the minimums' % (cleaned, rx),
                               CORRECT, show(out)))
        if valid and not meets:
            why = judge_refusal_min(out, explain_min, failing)
            if why is None:
                return Result('valid:refused-minimums:%s' % explain_min, nontrivial)
            return Result('WRONG:minimums-form', nontrivial,
                          viol('minimums:refusal-form:%s' % explain_min, why, 'refusal as explain_minimums', show(out)))
        why = judge_refusal_validation(out, explain)
        if why is None:
            return Result('refused-validation:%s' % explain, nontrivial)
        if not meets and judge_refusal_min(out, explain_min, failing) is None:
            return Result('refused-minimums-first:%s' % explain_min, nontrivial)
        return self.bad_refusal(out, why, cleaned, rx, cls, explain, nontrivial, lang)

    @staticmethod
    def bad_refusal(out, why, cleaned, rx, cls, explain, nontrivial, lang=None):
        passed = out[0] == 'ok' and (is_result(out[1], CORRECT) or is_result(out[1], WRONG))
        if passed:
            kind = passes_kind(cleaned, lang)
            return Result('WRONG:invalid-passes', nontrivial,
                          viol(validation_sig('validation:%s-passes' % kind, cls),
                               'cleaned submission %r is not matched entirely by %r but was graded as if valid '
                               '(explain_validation=%r)' % (cleaned, rx, explain),
                               'refusal as explain_validation=%r' % explain, show(out)))
        return Result('WRONG:refusal-form', nontrivial,
                      viol('validation:refusal-form:%s' % explain, '%s (cleaned %r, pattern %r)' % (why, cleaned, rx),
                           'refusal as explain_validation=%r' % explain, show(out)))


NONCONFORMING = {
    'alt': ['catfish', 'hotdog', 'cat|dog'], 'dot': ['coat', 'ct', 'c.tt'], 'class+': ['abcd', 'dabc', ''],
    'lit': ['cats', 'a cat', 'ca'], 'anchored': ['cats', 'scat'], 'group-alt': ['cart', 'cat|car', 'ca'],
    'optional': ['catcat', 'cats'], 'digits': ['12a', 'a12', '1 2'], 'alt-anchored': ['catfish', 'hotdog'],
    'alt3': ['ad', 'abd', 'abcd'], 'caret-end': ['x^2', 'x'], 'verbose': ['catfish', 'cat#animal'],
    'chem': ['KCl', 'NH_3!', 'H_'],
}


class ExpectConformance(Family):
    name = 'validation_expect_conformance'
    timeout = 5.0
    rule = ('docs: "Expected answers are also checked against the pattern; if a possible answer does not conform '
            'to the pattern, then a configuration error results": each pattern x 2-3 answers outside its language '
            '(member+suffix, prefix+member, near miss) x explain_validation x submissions {the answer itself, a '
            'member, a non-member}: a ConfigError is required; conforming answers (control) must grade normally')

    def setup(self, tier):
        from mitxgraders import StringGrader
        self.SG = StringGrader

    def cases(self, tier):
        for name, rx, cls, ans, lang in ref.PATTERNS:
            for bad in NONCONFORMING[name] + [ans]:
                for ex in (0, 1, 2):
                    for s in (bad, ans, 'zzz'):
                        yield (name, bad, ex, s)

    def describe(self, case):
        name, bad, ex, s = case
        return {'validation_pattern': ref.PATTERN_BY_NAME[name][1], 'answers': repr(bad),
                'explain_validation': EXPLAINS[ex], 'submission': repr(s)}

    def check(self, case):
        name, bad, ex, s = case
        _, rx, cls, ans, lang = ref.PATTERN_BY_NAME[name]
        if bool(re.compile(rx).fullmatch(ref.normal_form(bad, DEFAULT_BITS))) != bool(lang(ref.normal_form(bad, DEFAULT_BITS))):
            raise HarnessError('reference language of %r disagrees with re.fullmatch on %r' % (rx, bad))
        g = self.SG(answers=bad, validation_pattern=rx, explain_validation=EXPLAINS[ex], invalid_msg=INVALID_MSG)
        out = run(g, None, s)
        conforming = bool(lang(ref.normal_form(bad, DEFAULT_BITS)))
        if conforming:
            if out[0] == 'err' and 'ConfigError' in exc_names(out[1]):
                return Result('WRONG:config-error', True,
                              viol('validation:conforming-answer-rejected', 'answer %r conforms to %r' % (bad, rx),
                                   'normal grading', show(out)))
            return Result('control:graded', False)
        if out[0] == 'err' and 'ConfigError' in exc_names(out[1]):
            return Result('config-error', True)
        return Result('WRONG:no-config-error', True,
                      viol(validation_sig('validation:expect-%s-passes'
                                          % passes_kind(ref.normal_form(bad, DEFAULT_BITS), lang), cls),
                           'answer %r is not matched entirely by %r but no ConfigError was raised' % (bad, rx),
                           'ConfigError', show(out)))


# ------------------------------------------------------------------------------ validation x every flag set

WS_POOL = ['', ' ', 'cat', 'Cat', 'CAT', ' cat', 'cat ', ' cat ', '  cat  ', '\tcat\n', 'c at', 'cat dog', 'cat  dog',
           'cat\tdog', 'cat\r\ndog', ' cat dog ', 'catdog', 'CAT DOG', 'Cat Dog', 'cat dog fish', 'a b', 'a  b',
           'a   b', 'a\t b', 'a \nb', 'A  B', 'ab', ' a  b', 'NH_3', 'N H _ 3', 'nh_3', 'NH_3 ', ' N H_3', 'KCl',
           'H_', 'CO_2', 'C O', 'H  2']
OTHER_POOL = ['', ' ', 'a', 'aa', 'aaa', 'a a', 'aA', 'AA', 'bb', 'ab', 'ba', 'aab', ' aa', 'aa ', 'ac', 'abc',
              'abcd', 'abbcd', 'abcc', 'abcdx', 'xabc', 'ABC', 'ct', 'c t', 'cat', 'catt', 'cat t', 'tcat', 'cab',
              'Cat', 'CAT', 'cAt', 'cats', '$12', '$', '$1a', '12', '$ 12', ' $12', '$12$', '$12\n']
VMODES2 = ['compare', 'compare-expect', 'any', 'nonempty', 'both']
ACCEPT_KW = {'any': {'accept_any': True}, 'nonempty': {'accept_nonempty': True},
             'both': {'accept_any': True, 'accept_nonempty': True}}


def contains_member(cleaned, lang):
    return bool(lang(cleaned)) or any(lang(cleaned[i:j]) for i in range(len(cleaned))
                                      for j in range(i + 1, len(cleaned) + 1))


def judge_validated(out, rx, cls, lang, ans, bits, vm, explain, explain_min, s, ml=0, mw=0,
                    invalid_msg=INVALID_MSG):
    """oracle for a grader with a validation pattern, any flag set, any mode, any minimums.
    vm: 'compare' / 'compare-expect' (answer `ans` must conform, docs) or 'any' / 'nonempty' / 'both'."""
    cleaned = ref.normal_form(s, bits)
    valid = bool(lang(cleaned))
    nontrivial = contains_member(cleaned, lang) or cleaned != s

    def refusal_validation():
        if invalid_msg == INVALID_MSG:
            return judge_refusal_validation(out, explain)
        # another invalid_msg (the documented default text): same three forms
        if explain == 'err':
            if out[0] != 'err' or 'InvalidInput' not in exc_names(out[1]):
                return 'expected an InvalidInput error'
            return None if str(out[1]) == invalid_msg else 'error message is not the documented default invalid_msg'
        if out[0] != 'ok':
            return 'expected to be graded incorrect, got an error'
        want = {'ok': False, 'grade_decimal': 0, 'msg': invalid_msg if explain == 'msg' else ''}
        return None if is_result(out[1], want) else 'expected %r' % (want,)

    def bad_refusal(why):
        passed = out[0] == 'ok' and isinstance(out[1], dict) and (
            is_result(out[1], CORRECT) or is_result(out[1], WRONG))
        if passed:
            return Result('WRONG:invalid-passes', nontrivial,
                          viol(validation_sig('validation:%s-passes' % passes_kind(cleaned, lang), cls),
                               '%s: cleaned submission %r is not matched entirely by %r but was graded as if '
                               'valid (explain_validation=%r)' % (ref.flag_name(bits), cleaned, rx, explain),
                               'refusal as explain_validation=%r' % explain, show(out)))
        return Result('WRONG:refusal-form', nontrivial,
                      viol('validation:refusal-form:%s' % explain,
                           '%s (%s, cleaned %r, pattern %r)' % (why, ref.flag_name(bits), cleaned, rx),
                           'refusal as explain_validation=%r' % explain, show(out)))

    if vm in ('compare', 'compare-expect'):
        cans = ref.normal_form(ans, bits)
        if not lang(cans):
            if out[0] == 'err' and 'ConfigError' in exc_names(out[1]):
                return Result('config-error:answer-nonconforming', nontrivial)
            return Result('WRONG:no-config-error', nontrivial,
                          viol(validation_sig('validation:expect-%s-passes' % passes_kind(cans, lang), cls),
                               '%s: cleaned answer %r is not in the language of %r but no ConfigError'
                               % (ref.flag_name(bits), cans, rx), 'ConfigError', show(out)))
        if not valid:
            why = refusal_validation()
            if why is None:
                return Result('refused-validation:%s' % explain, nontrivial)
            return bad_refusal(why)
        want = CORRECT if cleaned == cans else WRONG
        if out[0] == 'ok' and is_result(out[1], want):
            return Result('valid:' + ('correct' if want is CORRECT else 'incorrect'), nontrivial)
        return Result('WRONG:valid-misgraded', nontrivial,
                      viol('validation:matching-input-misgraded',
                           '%s: cleaned %r is in the language of %r; expected plain comparison with %r'
                           % (ref.flag_name(bits), cleaned, rx, cans), want, show(out)))

    need = max(ml, 1) if vm in ('nonempty', 'both') else ml
    chars = len(cleaned)
    words = ref.count_words(cleaned)
    failing = []
    if chars < need:
        failing.append((chars, need, 'character'))
    if words < mw:
        failing.append((words, mw, 'word'))
    if valid and not failing:
        if out[0] == 'ok' and is_result(out[1], CORRECT):
            return Result('valid:accepted', nontrivial)
        return Result('WRONG:valid-refused', nontrivial,
                      viol('validation:matching-input-refused',
                           '%s: cleaned %r is in the language of %r and meets the minimums (%d/%d characters, '
                           '%d/%d words)' % (ref.flag_name(bits), cleaned, rx, chars, need, words, mw),
                           CORRECT, show(out)))
    if out[0] == 'ok' and isinstance(out[1], dict) and out[1].get('grade_decimal', 0) > 0 and valid:
        return Result('WRONG:accepted', nontrivial,
                      viol('minimums:accepted-below-minimum:%s' % '+'.join(u for _, _, u in failing),
                           '%s: cleaned %r matches %r but has %d/%d characters, %d/%d words'
                           % (ref.flag_name(bits), cleaned, rx, chars, need, words, mw),
                           'refusal (%r)' % explain_min, show(out)))
    if valid:
        why = judge_refusal_min(out, explain_min, failing)
        if why is None:
            return Result('valid:refused-minimums:%s' % explain_min, nontrivial)
        return Result('WRONG:minimums-form', nontrivial,
                      viol('minimums:refusal-form:%s' % explain_min,
                           '%s (cleaned %r: %d/%d characters, %d/%d words)' % (why, cleaned, chars, need, words, mw),
                           'refusal as explain_minimums=%r' % explain_min, show(out)))
    why = refusal_validation()
    if why is None:
        return Result('refused-validation:%s' % explain, nontrivial)
    if failing and judge_refusal_min(out, explain_min, failing) is None:
        return Result('refused-minimums-first:%s' % explain_min, nontrivial)
    return bad_refusal(why)


def selfcheck_patterns2(pools):
    for name, rx, wsens, ans, lang in ref.PATTERNS2:
        c = re.compile(rx)
        for s in pools:
            for bits in range(16):
                t = ref.normal_form(s, bits)
                if bool(c.fullmatch(t)) != bool(lang(t)):
                    raise HarnessError('reference language of %r disagrees with re.fullmatch on %r' % (rx, t))


class ValidationAllFlags(Family):
    name = 'validation_all_flags'
    timeout = 5.0
    rule = ('second pattern pool %r: the white-space sensitive ones x all 16 cleaning-flag sets, the others '
            '(empty pattern, lazy quantifiers, back-reference, escaped dollar, inline flag, nested alternation) x '
            '{documented defaults, every flag off} (thorough: all 16) x {compare with the answer in the '
            'configuration, compare with the answer inferred from the expect argument, accept_any, accept_nonempty; '
            'thorough adds accept_any+accept_nonempty} x explain_validation (quick: one value per configuration, '
            'fixed by (pattern index + flag set + mode index) mod 3; thorough: all three) x a pool of %d / %d '
            'submissions (members, members with white space or case the cleaning may or may not remove, near '
            'misses): the pattern must be tested against the submission cleaned with EVERY configured step; an '
            'answer that does not conform after cleaning is a ConfigError (docs); non-trivial = cleaning changes '
            'the submission or the cleaned submission contains a member'
            % ([p[1] for p in ref.PATTERNS2], len(WS_POOL), len(OTHER_POOL)))

    def setup(self, tier):
        from mitxgraders import StringGrader
        self.SG = StringGrader
        self.cache = GraderCache()
        selfcheck_patterns2(WS_POOL + OTHER_POOL)

    def cases(self, tier):
        modes = VMODES2 if tier != 'quick' else VMODES2[:4]
        for wsens, pool in ((True, WS_POOL), (False, OTHER_POOL)):
            keys = []
            for pi, p in enumerate(ref.PATTERNS2):
                if p[2] != wsens:
                    continue
                flagsets = list(range(16)) if (wsens or tier != 'quick') else [DEFAULT_BITS, 0]
                for mi, vm in enumerate(modes):
                    for bits in flagsets:
                        exs = [(pi + bits + mi) % 3] if tier == 'quick' else [0, 1, 2]
                        for ex in exs:
                            keys.append((p[0], vm, ex, bits))
            for key, s in chunked(keys, pool):
                yield key + (s,)

    def describe(self, case):
        name, vm, ex, bits, s = case
        p = ref.PATTERN2_BY_NAME[name]
        return {'validation_pattern': p[1], 'mode': vm, 'explain_validation': EXPLAINS[ex],
                'explain_minimums': EXPLAINS[(ex + 1) % 3], 'flags': ref.flag_name(bits),
                'answer': repr(p[3]) if vm.startswith('compare') else None, 'submission': repr(s)}

    def check(self, case):
        name, vm, ex, bits, s = case
        _, rx, wsens, ans, lang = ref.PATTERN2_BY_NAME[name]
        explain = EXPLAINS[ex]
        explain_min = EXPLAINS[(ex + 1) % 3]

        def build():
            kw = dict(validation_pattern=rx, explain_validation=explain, explain_minimums=explain_min,
                      invalid_msg=INVALID_MSG)
            kw.update(ref.flag_kwargs(bits))
            if vm == 'compare':
                kw['answers'] = ans
            elif vm != 'compare-expect':
                kw.update(ACCEPT_KW[vm])
            return self.SG(**kw)
        try:
            g = self.cache.get((name, vm, ex, bits), build)
        except Exception as e:      # noqa -- a ConfigError at construction is judged like one at the call
            out = ('err', e)
        else:
            out = run(g, ans if vm == 'compare-expect' else None, s)
        return judge_validated(out, rx, 'flags:' + name, lang, ans, bits, vm, explain, explain_min, s)


INTERPLAY_PATTERNS = {
    'abc-space': (r'[a-c ]*', lambda t: all(c in 'abc ' for c in t)),
    'words': (r'\S+( \S+)*', ref.PATTERN2_BY_NAME['words'][4]),
}
INTERPLAY_SUBS = ['', ' ', 'a', 'ab', 'abc', 'a b', 'a  b', ' a ', 'a b c', 'ab c', 'd', 'a d', 'abd', 'a b d',
                  'a\tb', 'A', 'a.b', 'aa bb', '   ', 'abcd']
INTERPLAY_MINS = [(0, 0), (2, 0), (0, 2), (3, 2)]


class ValidationWithMinimums(Family):
    name = 'validation_with_minimums'
    timeout = 5.0
    rule = ('patterns %r x {accept_any, accept_nonempty, both} x (min_length, min_words) in %r x explain_validation '
            '{err,msg,None} x explain_minimums {err,msg,None} (all 9 combinations, so equal settings occur) x '
            '{documented default flags; thorough adds strip/clean_spaces off and strip_all} x %d submissions: a '
            'submission is accepted iff the cleaned form is in the pattern language AND meets both minimums; a '
            'valid but short one is refused as explain_minimums prescribes, an invalid but long enough one as '
            'explain_validation prescribes, an invalid short one in either way'
            % ([v[0] for v in INTERPLAY_PATTERNS.values()], INTERPLAY_MINS, len(INTERPLAY_SUBS)))

    def setup(self, tier):
        from mitxgraders import StringGrader
        self.SG = StringGrader
        self.cache = GraderCache()
        for rx, lang in INTERPLAY_PATTERNS.values():
            c = re.compile(rx)
            for s in INTERPLAY_SUBS:
                for bits in range(16):
                    t = ref.normal_form(s, bits)
                    if bool(c.fullmatch(t)) != bool(lang(t)):
                        raise HarnessError('reference language of %r disagrees with re.fullmatch on %r' % (rx, t))

    def cases(self, tier):
        flagsets = [DEFAULT_BITS] if tier == 'quick' else [DEFAULT_BITS, 0b0001, 0b1001]
        keys = [(pn, vm, mi, exv, exm, bits) for pn in sorted(INTERPLAY_PATTERNS) for vm in ('any', 'nonempty', 'both')
                for mi in range(len(INTERPLAY_MINS)) for exv in (0, 1, 2) for exm in (0, 1, 2) for bits in flagsets]
        for key, s in chunked(keys, INTERPLAY_SUBS):
            yield key + (s,)

    def describe(self, case):
        pn, vm, mi, exv, exm, bits, s = case
        ml, mw = INTERPLAY_MINS[mi]
        return {'validation_pattern': INTERPLAY_PATTERNS[pn][0], 'mode': vm, 'min_length': ml, 'min_words': mw,
                'explain_validation': EXPLAINS[exv], 'explain_minimums': EXPLAINS[exm],
                'flags': ref.flag_name(bits), 'submission': repr(s)}

    def check(self, case):
        pn, vm, mi, exv, exm, bits, s = case
        rx, lang = INTERPLAY_PATTERNS[pn]
        ml, mw = INTERPLAY_MINS[mi]

        def build():
            kw = dict(validation_pattern=rx, explain_validation=EXPLAINS[exv], explain_minimums=EXPLAINS[exm],
                      invalid_msg=INVALID_MSG, min_length=ml, min_words=mw)
            kw.update(ref.flag_kwargs(bits))
            kw.update(ACCEPT_KW[vm])
            return self.SG(**kw)
        g = self.cache.get((pn, vm, mi, exv, exm, bits), build)
        out = run(g, None, s)
        return judge_validated(out, rx, 'minimums:' + pn, lang, None, bits, vm, EXPLAINS[exv], EXPLAINS[exm], s,
                               ml=ml, mw=mw)


# ------------------------------------------------------------------------------ options left at their default

FLAG_NAMES = ['case_sensitive', 'strip', 'clean_spaces', 'strip_all']
DEF_STRS = ['', 'a', 'A', ' a', 'a ', 'a a', 'a  a', 'aa', 'a\ta', 'A a', ' ', 'a A']
DEFAULT_INVALID_MSG = 'Your input is not in the expected format'      # docs/string_grader.md
MIN_OMITS = [('explain_minimums',), ('min_length',), ('min_words',), ('explain_minimums', 'min_length', 'min_words')]
VAL_OMITS = [('explain_validation',), ('invalid_msg',), ('explain_validation', 'invalid_msg')]
DEF_MIN_SUBS = ['', ' ', 'a', 'aa', ' a', 'a a', 'a  a', 'aaa', 'a.a', 'a a a', '\ta\n', 'a  ']
DEF_VAL_SUBS = ['cat', 'dog', '', 'cat ', 'catfish', 'Cat']


class Defaults(Family):
    name = 'options_left_at_default'
    timeout = 5.0
    rule = ('every option of the statement OMITTED from the configuration instead of passed: (flag) each of the four '
            'cleaning flags omitted x all 8 explicit settings of the other three x every pair from %r (thorough: '
            'also with the configuration given as one positional dictionary); (min) explain_minimums / min_length / '
            'min_words / all three omitted x {accept_any, accept_nonempty, both} x the others in min_length {0,2}, '
            'min_words {0,2}, explain_minimums {msg,None} x %d submissions; (val) explain_validation / invalid_msg / '
            'both omitted x explain_validation {err,msg,None} where given x {compare, accept_any, accept_nonempty} '
            'x pattern "cat" x %r.  Documented defaults: case_sensitive, strip, clean_spaces on, strip_all off, '
            'min_length 0, min_words 0, explain_minimums "err", explain_validation "err", invalid_msg %r'
            % (DEF_STRS, len(DEF_MIN_SUBS), DEF_VAL_SUBS, DEFAULT_INVALID_MSG))

    def setup(self, tier):
        from mitxgraders import StringGrader
        self.SG = StringGrader
        self.cache = GraderCache()

    def cases(self, tier):
        routes = [0] if tier == 'quick' else [0, 1]
        keys = [(which, other, route, e) for which in range(4) for other in range(8) for route in routes
                for e in DEF_STRS]
        for (which, other, route, e), s in chunked(keys, DEF_STRS):
            yield ('flag', which, other, route, e, s)
        keys = [(mode, oi, ml, mw, exi) for mode in ('any', 'nonempty', 'both') for oi in range(len(MIN_OMITS))
                for ml in (0, 2) for mw in (0, 2) for exi in (1, 2)]
        for key, s in chunked(keys, DEF_MIN_SUBS):
            yield ('min',) + key + (s,)
        keys = [(oi, exi, vm) for oi in range(len(VAL_OMITS)) for exi in (0, 1, 2)
                for vm in ('compare', 'any', 'nonempty')]
        for key, s in chunked(keys, DEF_VAL_SUBS):
            yield ('val',) + key + (s,)

    def describe(self, case):
        kind = case[0]
        if kind == 'flag':
            _, which, other, route, e, s = case
            kw, bits = self.flag_config(which, other)
            return {'kind': 'cleaning flag omitted', 'omitted': FLAG_NAMES[which], 'given': kw,
                    'configuration as': 'positional dict' if route else 'keywords',
                    'expected': repr(e), 'submission': repr(s)}
        if kind == 'min':
            _, mode, oi, ml, mw, exi, s = case
            return {'kind': 'minimum options omitted', 'omitted': MIN_OMITS[oi], 'mode': mode, 'min_length': ml,
                    'min_words': mw, 'explain_minimums': EXPLAINS[exi], 'submission': repr(s)}
        _, oi, exi, vm, s = case
        return {'kind': 'validation options omitted', 'omitted': VAL_OMITS[oi], 'explain_validation': EXPLAINS[exi],
                'mode': vm, 'validation_pattern': 'cat', 'submission': repr(s)}

    @staticmethod
    def flag_config(which, other):
        """-> (kwargs without FLAG_NAMES[which], effective bits)"""
        defaults = ref.flag_tuple(DEFAULT_BITS)
        vals = []
        k = 0
        for i in range(4):
            if i == which:
                vals.append(defaults[i])
            else:
                vals.append(bool(other >> k & 1))
                k += 1
        kw = {FLAG_NAMES[i]: vals[i] for i in range(4) if i != which}
        bits = sum(1 << i for i in range(4) if vals[i])
        return kw, bits

    def check(self, case):
        kind = case[0]
        if kind == 'flag':
            _, which, other, route, e, s = case
            kw, bits = self.flag_config(which, other)

            def build():
                cfg = dict(kw, answers=e)
                return self.SG(cfg) if route else self.SG(**cfg)
            g = self.cache.get(('flag', which, other, route, e), build)
            return judge_match(run(g, None, s), e, s, bits)
        if kind == 'min':
            _, mode, oi, ml, mw, exi, s = case
            omitted = MIN_OMITS[oi]
            given = {'min_length': ml, 'min_words': mw, 'explain_minimums': EXPLAINS[exi]}
            eff = {'min_length': 0, 'min_words': 0, 'explain_minimums': 'err'}
            kw = dict(ACCEPT_KW[mode])
            for k, v in given.items():
                if k not in omitted:
                    kw[k] = v
                    eff[k] = v
            g = self.cache.get(('min', mode, oi, ml, mw, exi), lambda: self.SG(**kw))
            out = run(g, None, s)
            return judge_validated(out, None, 'defaults', lambda t: True, None, DEFAULT_BITS, mode, 'err',
                                   eff['explain_minimums'], s, ml=eff['min_length'], mw=eff['min_words'])
        _, oi, exi, vm, s = case
        omitted = VAL_OMITS[oi]
        kw = {'validation_pattern': 'cat', 'explain_minimums': EXPLAINS[(exi + 1) % 3] if 'explain_validation'
              not in omitted else None}
        explain = 'err'
        msg = DEFAULT_INVALID_MSG
        if 'explain_validation' not in omitted:
            kw['explain_validation'] = explain = EXPLAINS[exi]
        if 'invalid_msg' not in omitted:
            kw['invalid_msg'] = msg = INVALID_MSG
        if vm == 'compare':
            kw['answers'] = 'cat'
        else:
            kw.update(ACCEPT_KW[vm])
        g = self.cache.get(('val', oi, exi, vm), lambda: self.SG(**kw))
        out = run(g, None, s)
        return judge_validated(out, 'cat', 'defaults', lambda t: t == 'cat', 'cat', DEFAULT_BITS, vm, explain,
                               kw['explain_minimums'], s, invalid_msg=msg)


# ------------------------------------------------------------------------------ sizes beyond the exhaustive bound

RUN_EXPECTED = ['ab', 'a b', 'a  b', ' ab', 'ab ']
RUN_POSITIONS = ['mid', 'lead', 'trail']
PANGRAM = 'The quick brown fox jumps over the lazy dog'


def run_string(pos, unit, k):
    w = unit * k
    return 'a' + w + 'b' if pos == 'mid' else (w + 'ab' if pos == 'lead' else 'ab' + w)


def long_base(n):
    return ' '.join([PANGRAM] * n)


def long_edits(b):
    m = len(b) // 2
    while b[m] == ' ':
        m += 1
    first_sp = b.index(' ')
    last_sp = b.rindex(' ')
    out = [b, b[:-1], b + 's', b[:-1] + 'G', b[:-1] + 'h', 't' + b[1:], 'X' + b[1:], b[:m] + '#' + b[m + 1:],
           b[:first_sp] + '  ' + b[first_sp + 1:], b[:last_sp] + '  ' + b[last_sp + 1:],
           b[:last_sp] + '\t' + b[last_sp + 1:], b[:last_sp] + '\r\n' + b[last_sp + 1:],
           b[:last_sp] + b[last_sp + 1:], b + ' ', ' ' + b, b + '\n', b.replace(' ', ''),
           b.replace(' ', '   '), ''.join(SWAPCASE.get(c, c) for c in b)]
    seen, uniq = set(), []
    for s in out:
        if s not in seen:
            seen.add(s)
            uniq.append(s)
    return uniq


class LongRuns(Family):
    name = 'long_runs_and_long_strings'
    timeout = 10.0
    rule = ('(run) k copies of one white-space unit {space, tab, LF; thorough: + CR, CRLF, space-tab-LF} between, '
            'before or after "ab", k in {0..6, 8, 9, 17, 33} (thorough: 0..12, 16, 17, 32, 33, 64, 65, 129) against '
            'each of %r, in both roles (expected / submission) x the 8 flag sets with case_sensitive on: a run of '
            'ANY length collapses to one space (clean_spaces), is removed at the ends (strip) or everywhere '
            '(strip_all), and is kept character for character otherwise; (long) a pangram repeated 1, 5 and 25 '
            'times (43 / 219 / 1099 characters) against 18 single edits of itself (last / first / middle character '
            'changed, dropped or added, a space doubled / tabbed / removed near either end, all spaces removed or '
            'tripled, all cases swapped) in both roles x all 16 flag sets' % (RUN_EXPECTED,))

    def setup(self, tier):
        from mitxgraders import StringGrader
        self.SG = StringGrader
        self.cache = GraderCache()

    def run_subs(self, tier):
        if tier == 'quick':
            units, ks = [' ', '\t', '\n'], [0, 1, 2, 3, 4, 5, 6, 8, 9, 17, 33]
        else:
            units = [' ', '\t', '\n', '\r', '\r\n', ' \t\n']
            ks = list(range(13)) + [16, 17, 32, 33, 64, 65, 129]
        seen, out = set(), []
        for pos in RUN_POSITIONS:
            for unit in units:
                for k in ks:
                    s = run_string(pos, unit, k)
                    if s not in seen:
                        seen.add(s)
                        out.append(s)
        return out

    def cases(self, tier):
        subs = self.run_subs(tier)
        flagsets = [b for b in range(16) if b & 1]
        keys = [(bits, e) for e in RUN_EXPECTED for bits in flagsets]
        for (bits, e), s in chunked(keys, subs):
            yield (bits, e, s, 0)
        keys = [(bits, e) for e in subs for bits in flagsets]
        for (bits, e), s in chunked(keys, RUN_EXPECTED):
            yield (bits, e, s, 0)
        for n in (1, 5, 25):
            eds = long_edits(long_base(n))
            for i, ed in enumerate(eds):
                for bits in range(16):
                    yield (bits, n, i, 1)           # the base is the answer
                    if i:
                        yield (bits, n, i, 2)       # the edit is the answer

    def unpack(self, case):
        bits, a, b, kind = case
        if kind == 0:
            return bits, a, b
        base = long_base(a)
        ed = long_edits(base)[b]
        return (bits, base, ed) if kind == 1 else (bits, ed, base)

    def describe(self, case):
        bits, e, s = self.unpack(case)

        def short(t):
            return repr(t) if len(t) <= 60 else '%r...%r (%d characters)' % (t[:25], t[-25:], len(t))
        return {'flags': ref.flag_name(bits), 'expected': short(e), 'submission': short(s)}

    def check(self, case):
        bits, e, s = self.unpack(case)
        g = self.cache.get((bits, e), lambda: self.SG(answers=e, **ref.flag_kwargs(bits)))
        return judge_match(run(g, None, s), e, s, bits)


LARGE_MINS = [(10, 0), (100, 0), (1000, 0), (0, 10), (0, 100), (100, 10)]


def large_subs():
    ns = [9, 10, 11, 99, 100, 101, 999, 1000, 1001]
    ms = [9, 10, 11, 99, 100, 101]
    return (['x' * n for n in ns] + [' ' + 'x' * n + ' ' for n in ns] + [' '.join(['w'] * m) for m in ms]
            + ['  '.join(['w'] * m) + ' ' for m in ms] + ['\t'.join(['wo'] * m) for m in ms])


class LargeMinimums(Family):
    name = 'accept_any_large_minimums'
    timeout = 5.0
    rule = ('{accept_any, accept_nonempty} x (min_length, min_words) in %r x explain_minimums {err,msg,None} x '
            '{default flags, strip and clean_spaces off} x submissions of 9/10/11, 99/100/101, 999/1000/1001 '
            'characters (bare and with one space at each end) and of 9/10/11, 99/100/101 words (joined by one '
            'space, by two spaces plus a trailing space, by tabs): the same closed formulas as accept_any_minimums at '
            'magnitudes where <have>/<required> have 2 to 4 digits; non-trivial = within 1 of a requirement'
            % (LARGE_MINS,))

    def setup(self, tier):
        from mitxgraders import StringGrader
        self.SG = StringGrader
        self.cache = GraderCache()
        self.subs = large_subs()

    def cases(self, tier):
        subs = large_subs()
        keys = [(mode, mi, ex, bits) for mode in ('any', 'nonempty') for mi in range(len(LARGE_MINS))
                for ex in (0, 1, 2) for bits in (DEFAULT_BITS, 0b0001)]
        for key, si in chunked(keys, list(range(len(subs)))):
            yield key + (si,)

    def describe(self, case):
        mode, mi, ex, bits, si = case
        s = large_subs()[si]
        return {'mode': mode, 'min_length': LARGE_MINS[mi][0], 'min_words': LARGE_MINS[mi][1],
                'explain_minimums': EXPLAINS[ex], 'flags': ref.flag_name(bits),
                'submission': '%r... (%d characters)' % (s[:20], len(s))}

    def check(self, case):
        mode, mi, ex, bits, si = case
        s = self.subs[si]
        ml, mw = LARGE_MINS[mi]

        def build():
            kw = dict(ACCEPT_KW[mode])
            kw.update(ref.flag_kwargs(bits))
            kw.update(min_length=ml, min_words=mw, explain_minimums=EXPLAINS[ex])
            return self.SG(**kw)
        g = self.cache.get((mode, mi, ex, bits), build)
        out = run(g, None, s)
        res = judge_validated(out, None, 'large', lambda t: True, None, bits, mode, 'err', EXPLAINS[ex], s,
                              ml=ml, mw=mw)
        cleaned = ref.normal_form(s, bits)
        near = abs(len(cleaned) - max(ml, 1 if mode == 'nonempty' else 0)) <= 1 or \
            (mw > 0 and abs(ref.count_words(cleaned) - mw) <= 1)
        return Result(res.outcome, near, res.violation, res.calls)


# ------------------------------------------------------------------------------ several expected answers

MULTI_STRS = ['', 'a', 'A', ' a', 'a a', 'a  a', 'aa']
MULTI_FORMS = ['tuple', 'credits', 'credits-rev', 'expect-tuple']
HALF = {'ok': 'partial', 'grade_decimal': 0.5, 'msg': 'half'}


class SeveralAnswers(Family):
    name = 'several_expected_answers'
    timeout = 5.0
    rule = ('two different expected strings e1, e2 and a submission, all from %r, x all 16 flag sets x the answers '
            'given as {a tuple (e1, e2); (e1 for full credit, e2 for credit 0.5 with message "half"); (e1 for 0.5 '
            'with "half", e2 for full credit); thorough: one answer whose expect is the tuple (e1, e2)}: EVERY '
            'expected string is cleaned and compared by the same rule, the first as well as a later one; the '
            'result is the best credit among the expected strings the submission matches; non-trivial = the '
            'submission differs from both raw strings but matches at least one under the most permissive cleaning'
            % (MULTI_STRS,))

    def setup(self, tier):
        from mitxgraders import StringGrader
        self.SG = StringGrader
        self.cache = GraderCache()

    def cases(self, tier):
        forms = [0, 1, 2] if tier == 'quick' else [0, 1, 2, 3]
        keys = [(form, bits, e1, e2) for form in forms for e1 in MULTI_STRS for e2 in MULTI_STRS if e1 != e2
                for bits in range(16)]
        for key, s in chunked(keys, MULTI_STRS):
            yield key + (s,)

    def describe(self, case):
        form, bits, e1, e2, s = case
        return {'answers': MULTI_FORMS[form], 'e1': repr(e1), 'e2': repr(e2), 'flags': ref.flag_name(bits),
                'submission': repr(s)}

    def check(self, case):
        form, bits, e1, e2, s = case
        kind = MULTI_FORMS[form]

        def build():
            if kind == 'tuple':
                answers = (e1, e2)
            elif kind == 'expect-tuple':
                answers = {'expect': (e1, e2)}
            elif kind == 'credits':
                answers = ({'expect': e1, 'grade_decimal': 1}, {'expect': e2, 'grade_decimal': 0.5, 'msg': 'half'})
            else:
                answers = ({'expect': e1, 'grade_decimal': 0.5, 'msg': 'half'}, {'expect': e2, 'grade_decimal': 1})
            return self.SG(answers=answers, **ref.flag_kwargs(bits))
        g = self.cache.get((form, bits, e1, e2), build)
        out = run(g, None, s)
        m1 = ref.match_verdict(e1, s, bits)
        m2 = ref.match_verdict(e2, s, bits)
        nontrivial = (s != e1 and s != e2 and (ref.match_verdict(e1, s, ALL_ON) is not False
                                               or ref.match_verdict(e2, s, ALL_ON) is not False))
        if out[0] == 'err':
            return Result('raised', nontrivial,
                          viol('several:raises:%s' % type(out[1]).__name__, 'plain comparison raised', 'a grade',
                               show(out)))
        if m1 is None or m2 is None:
            return Result('open', nontrivial)
        if kind in ('tuple', 'expect-tuple'):
            want = CORRECT if (m1 or m2) else WRONG
        elif kind == 'credits':
            want = CORRECT if m1 else (HALF if m2 else WRONG)
        else:
            want = CORRECT if m2 else (HALF if m1 else WRONG)
        res = out[1]
        ok = (isinstance(res, dict) and set(res) == set(want) and res['ok'] == want['ok']
              and type(res['ok']) is type(want['ok']) and res['grade_decimal'] == want['grade_decimal']
              and res['msg'] == want['msg'])
        label = 'full' if want is CORRECT else ('half' if want is HALF else 'none')
        if ok:
            return Result('credit:' + label, nontrivial)
        which = 'first' if (m1 and not m2) else ('later' if (m2 and not m1) else ('both' if m1 else 'neither'))
        return Result('WRONG:' + label, nontrivial,
                      viol('several:%s-answer-matches:%s' % (which, diff_kinds(e1 if which == 'first' else e2, s)),
                           '%s: answers %s of (%r, %r), submission %r: reference says e1 %s, e2 %s'
                           % (ref.flag_name(bits), kind, e1, e2, s, 'matches' if m1 else 'does not match',
                              'matches' if m2 else 'does not match'), want, res))


# ------------------------------------------------------------------------------ wide punctuation / Unicode alphabet

UNITS = (list(u'!"#$%&\'()*+,-./:;<=>?@[\\]^_`{|}~') + ['0', '9', 'z', 'Z', 'e']
         + [u'\xe9', u'\xc9', u'e\u0301', u'E\u0301', u'\xfc', u'\xdc', u'\u03bb', u'\u039b', u'\uff41', u'\uff21']
         + list(ref.EXOTIC_WS) + list(ref.EXOTIC_CASELESS))
UNIT_FLAGS_QUICK = [ALL_ON, DEFAULT_BITS]
EDGE_FLAGS_QUICK = [ALL_ON, DEFAULT_BITS, 0b0000, 0b0011]


class WideUnits(Family):
    name = 'punctuation_and_unicode_units'
    timeout = 5.0
    rule = ('%d units: all 32 ASCII punctuation characters, digits, z/Z, e, precomposed and decomposed (e + combining '
            'acute) accented letters in both cases, U-umlaut, Greek lambda and fullwidth A in both cases, %d kinds '
            'of Unicode / control white space and zero-width "spaces", NUL, DEL, soft hyphen, zero-width joiners, '
            'typographic quotes and dashes, minus sign, superscript two, one half, Arabic-Indic zero, an astral '
            'emoji.  (pair) "x"+u+"y" expected, "x"+v+"y" submitted for EVERY ordered pair of units (u = v as control) '
            'x {most permissive cleaning, documented defaults} (thorough: all 16): equal only if u = v or u, v are '
            'the two cases of one letter and case is folded; (edge) u inserted in / removed from "xy" at the '
            'start, middle, end, in both roles x {most permissive, defaults, all off, strip only} (thorough: all '
            '16): never ignored, except that units of the white-space kind at an END under strip are left open'
            % (len(UNITS), len(ref.EXOTIC_WS)))

    def setup(self, tier):
        from mitxgraders import StringGrader
        self.SG = StringGrader
        self.cache = GraderCache()

    def cases(self, tier):
        pair_flags = UNIT_FLAGS_QUICK if tier == 'quick' else list(range(16))
        edge_flags = EDGE_FLAGS_QUICK if tier == 'quick' else list(range(16))
        n = len(UNITS)
        keys = [(bits, i) for i in range(n) for bits in pair_flags]
        for (bits, i), j in chunked(keys, list(range(n))):
            yield (bits, 'p', i, j)
        for i in range(n):
            for bits in edge_flags:
                for shape in range(6):
                    yield (bits, 'e', i, shape)

    @staticmethod
    def unpack(case):
        bits, kind, i, j = case
        u = UNITS[i]
        if kind == 'p':
            return bits, 'x' + u + 'y', 'x' + UNITS[j] + 'y'
        with_u = ['x' + u + 'y', u + 'xy', 'xy' + u][j % 3]
        return (bits, with_u, 'xy') if j < 3 else (bits, 'xy', with_u)

    def describe(self, case):
        bits, e, s = self.unpack(case)
        return {'flags': ref.flag_name(bits), 'expected': ascii(e), 'submission': ascii(s)}

    def check(self, case):
        bits, e, s = self.unpack(case)
        g = self.cache.get((bits, e), lambda: self.SG(answers=e, **ref.flag_kwargs(bits)))
        nontrivial = e != s
        return judge_match(run(g, None, s), e, s, bits, nontrivial=nontrivial)


# ------------------------------------------------------------------------------ the expect argument, falsy values

SHORT = list(strings_upto('a ', 2))


class ExpectArgument(Family):
    name = 'expect_argument_short_strings'
    timeout = 5.0
    rule = ('(compare) a grader without answers, called as grader(expected, submission) for every pair of strings of '
            'length <= 2 over {a, space} -- including the EMPTY expected string -- x all 16 flag sets, one grader per '
            'flag set so the answer is re-inferred on every call; (accept) {accept_any, accept_nonempty} x the empty '
            'string supplied as {expect argument "", answers="", answers dict with expect ""} x all 16 flag sets x '
            'the same submissions: accepted iff the cleaned submission meets the (default) minimums; (configured) the '
            'answer in the configuration AND a different, never matching expect argument "zzz" (edX always passes the '
            'displayed answer): graded against the configured answer only')

    def setup(self, tier):
        from mitxgraders import StringGrader
        self.SG = StringGrader
        self.cache = GraderCache()

    def cases(self, tier):
        for e in SHORT:
            for s in SHORT:
                for bits in range(16):
                    yield ('cmp', bits, e, s)
        for mode in ('any', 'nonempty'):
            for supply in (0, 1, 2):
                for s in SHORT:
                    for bits in range(16):
                        yield ('acc', bits, mode, supply, s)
        for e in SHORT:
            for s in SHORT + ['zzz']:
                for bits in range(16):
                    yield ('cfg', bits, e, s)

    def describe(self, case):
        if case[0] == 'cmp':
            _, bits, e, s = case
            return {'flags': ref.flag_name(bits), 'expect argument': repr(e), 'submission': repr(s)}
        if case[0] == 'cfg':
            _, bits, e, s = case
            return {'flags': ref.flag_name(bits), 'answers': repr(e), 'expect argument': "'zzz'",
                    'submission': repr(s)}
        _, bits, mode, supply, s = case
        return {'flags': ref.flag_name(bits), 'mode': mode,
                'empty string supplied as': ['expect argument', 'answers=""', 'answers={"expect": ""}'][supply],
                'submission': repr(s)}

    def check(self, case):
        if case[0] == 'cmp':
            _, bits, e, s = case
            g = self.cache.get(('cmp', bits), lambda: self.SG(**ref.flag_kwargs(bits)))
            return judge_match(run(g, e, s), e, s, bits)
        if case[0] == 'cfg':
            _, bits, e, s = case
            g = self.cache.get(('cfg', bits, e), lambda: self.SG(answers=e, **ref.flag_kwargs(bits)))
            return judge_match(run(g, 'zzz', s), e, s, bits)
        _, bits, mode, supply, s = case

        def build():
            kw = dict(ACCEPT_KW[mode])
            kw.update(ref.flag_kwargs(bits))
            if supply == 1:
                kw['answers'] = ''
            elif supply == 2:
                kw['answers'] = {'expect': ''}
            return self.SG(**kw)
        g = self.cache.get(('acc', bits, mode, supply), build)
        out = run(g, '' if supply == 0 else None, s)
        return judge_validated(out, None, 'expect-arg', lambda t: True, None, bits, mode, 'err', 'err', s)


# ------------------------------------------------------------------------------ StringGrader inside a ListGrader

LIST_STRS = ['a', 'A', ' a', 'a ', 'a a', 'a  a', 'a\ta', 'aa']


class InsideLists(Family):
    name = 'inside_list_grader'
    timeout = 5.0
    rule = ('the same StringGrader configuration used as the subgrader of an ordered two-box ListGrader: every pair '
            '(expected, submission) from %r placed in the FIRST or the SECOND box (the other box holds a fixed '
            'matching pair "k"/"k") x all 16 flag sets: the box is marked correct iff the reference normal forms '
            'are equal, exactly as for the stand-alone grader (the cleaning must not depend on the entry point)'
            % (LIST_STRS,))

    def setup(self, tier):
        from mitxgraders import StringGrader, ListGrader
        self.SG = StringGrader
        self.LG = ListGrader
        self.cache = GraderCache()

    def cases(self, tier):
        keys = [(bits, slot, e) for e in LIST_STRS for slot in (0, 1) for bits in range(16)]
        for key, s in chunked(keys, LIST_STRS):
            yield key + (s,)

    def describe(self, case):
        bits, slot, e, s = case
        return {'flags': ref.flag_name(bits), 'box': slot + 1, 'expected': repr(e), 'submission': repr(s)}

    def check(self, case):
        bits, slot, e, s = case

        def build():
            answers = [e, 'k'] if slot == 0 else ['k', e]
            return self.LG(answers=answers, subgraders=self.SG(**ref.flag_kwargs(bits)), ordered=True)
        g = self.cache.get((bits, slot, e), build)
        out = run(g, None, [s, 'k'] if slot == 0 else ['k', s])
        nontrivial = e != s and ref.match_verdict(e, s, ALL_ON) is not False
        if out[0] == 'err':
            return Result('raised', nontrivial,
                          viol('list:raises:%s' % type(out[1]).__name__, 'ListGrader raised', 'a grade', show(out)))
        res = out[1]
        try:
            box = res['input_list'][slot]
            other = res['input_list'][1 - slot]
        except Exception:       # noqa
            return Result('malformed', nontrivial,
                          viol('list:result-form', 'no input_list with two entries', 'input_list', res))
        if not is_result(other, CORRECT):
            return Result('WRONG:other-box', nontrivial,
                          viol('list:other-box-misgraded', 'the box holding "k" for "k" is not correct', CORRECT, other))
        return judge_match(('ok', box), e, s, bits, nontrivial=nontrivial)


def families(tier):
    return [PairsLetters(), PairsBreaks(), PairsWide(), Edits(), AcceptAny(),
            Validation('plain'), Validation('alternation'), Validation('trailing-caret'),
            Validation('verbose-comment'), ExpectConformance(),
            ValidationAllFlags(), ValidationWithMinimums(), Defaults(), LongRuns(), LargeMinimums(),
            SeveralAnswers(), WideUnits(), ExpectArgument(), InsideLists()]
