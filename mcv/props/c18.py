"""
C18 -- StringGrader matches exactly the inputs equal after the configured cleaning;
accept_any / accept_nonempty minimums; validation patterns must match the whole
cleaned submission.

ENUM only.  Every case builds (or reuses, for cases with the same configuration) a real
StringGrader, calls it as edX would -- grader(None, submission) -- and compares the
verdict / message / error with the reference model in mcv/refs/c18_ref.py, which is
written from the property statement and docs/string_grader.md and never calls the
library.
"""
import itertools
import re
from ..core import Family, Result, viol, HarnessError
from ..refs import c18_ref as ref

PROPERTY = 'C18'
RULE = ('pairs (expected, submission) over small alphabets x all 16 cleaning-flag sets, single edits of '
        'realistic expected strings, accept_any/accept_nonempty minimum grids and validation-pattern pools are '
        'enumerated completely; a matching case is non-trivial when the two raw strings differ but become equal '
        'under the most permissive cleaning (so the verdict depends on the flags); an accept-any case when the '
        'cleaned submission is within one character / one word of a minimum; a validation case when the '
        'submission contains a member of the pattern language as a proper part or is a member')
EXPLANATION = ('states = distinct (configuration, expected, submission) cases; transitions = calls of the real '
               'StringGrader.__call__; every call runs the implementation, so traces_validated_against_impl = calls')
ASSUMPTIONS = [
    'reference normaliser: tab -> space; line-break unit (CRLF, LFCR, CR, LF) -> one space; explicit case table; '
    'strip removes spaces at the ends; strip_all deletes spaces; clean_spaces collapses runs of spaces',
    'CR/LF runs that are neither n copies of one character nor exactly CRLF/LFCR have an open number of line '
    'breaks; Unicode white space other than space/tab/CR/LF at the two ends may or may not be stripped: the '
    'oracle demands a verdict only where every reading agrees',
    'cased non-ASCII letters limited to E-acute, N-tilde and Cyrillic De (simple one-to-one case pairs)',
    'pattern languages are hand-written predicates, cross-checked at start-up against re.fullmatch on the pool',
    'with case_sensitive off the validation pattern sees the LOWER-cased submission (the cleaned form); an '
    'implementation folding to upper case would be flagged by the validation families',
    'graders are reused across cases with the same configuration, as edX reuses one grader object (history '
    'independence itself is property C11)',
    'wording of the minimum messages is only required to contain "<have>/<required>" and the unit (word/character)',
    'when a submission fails validation and the minimums, either prescribed refusal is accepted',
    'that a non-conforming expected answer is a ConfigError is taken from docs/string_grader.md (family '
    'validation_expect_conformance), not from the property statement',
]

CORRECT = {'ok': True, 'grade_decimal': 1, 'msg': ''}
WRONG = {'ok': False, 'grade_decimal': 0, 'msg': ''}
ALL_ON = 0b1110            # case folded, strip, clean_spaces, strip_all: the most permissive cleaning
DEFAULT_BITS = 0b0111      # documented defaults: case_sensitive, strip, clean_spaces, not strip_all


def strings_upto(alphabet, maxlen, minlen=0):
    for n in range(minlen, maxlen + 1):
        for t in itertools.product(alphabet, repeat=n):
            yield ''.join(t)


def run(grader, expect, sub):
    try:
        return ('ok', grader(expect, sub))
    except Exception as e:          # noqa -- the harness judges everything that escapes
        return ('err', e)


def is_result(res, want):
    return (isinstance(res, dict) and set(res) == set(want) and res['ok'] is want['ok']
            and not isinstance(res['grade_decimal'], bool) and res['grade_decimal'] == want['grade_decimal']
            and res['msg'] == want['msg'])


def show(out):
    if out[0] == 'ok':
        return out[1]
    return '%s: %s' % (type(out[1]).__name__, out[1])


def exc_names(e):
    return [c.__name__ for c in type(e).__mro__]


def diff_kinds(a, b):
    """coarse, stable classification of how two raw strings differ (for violation signatures)"""
    kinds = set()
    both = a + b
    if '\t' in both:
        kinds.add('tab')
    if '\r' in both:
        kinds.add('cr')
    if '\n' in both:
        kinds.add('lf')
    if any(c in ref.EXOTIC_WS for c in both):
        kinds.add('exotic-ws')
    sa = [c for c in a if c not in ' \t\r\n']
    sb = [c for c in b if c not in ' \t\r\n']
    if sa != sb:
        try:
            fa = [ref.fold_char(c) for c in sa]
            fb = [ref.fold_char(c) for c in sb]
        except ref.RefError:
            fa, fb = sa, None
        kinds.add('case' if fa == fb else 'chars')
    if ' ' in both and a != b:
        kinds.add('spaces')
    return '+'.join(sorted(kinds)) or 'identical'


def judge_match(out, expected, submission, bits, nontrivial=None):
    """oracle for compare mode without validation pattern"""
    verdict = ref.match_verdict(expected, submission, bits)
    if nontrivial is None:
        nontrivial = (expected != submission
                      and ref.match_verdict(expected, submission, ALL_ON) is not False)
    if out[0] == 'err':
        return Result('raised', nontrivial,
                      viol('compare:raises:%s' % type(out[1]).__name__,
                           'plain comparison raised instead of grading', 'a grade', show(out)))
    res = out[1]
    if is_result(res, CORRECT):
        got = True
    elif is_result(res, WRONG):
        got = False
    else:
        return Result('malformed', nontrivial,
                      viol('compare:result-form', 'result is neither the full-credit nor the zero result',
                           [CORRECT, WRONG], res))
    if verdict is None:
        return Result('open:%s' % ('match' if got else 'nomatch'), nontrivial)
    if got == verdict:
        return Result('match' if got else 'nomatch', nontrivial)
    kind = 'should-accept' if verdict else 'should-reject'
    return Result('WRONG:' + kind, nontrivial,
                  viol('match:%s:%s' % (kind, diff_kinds(expected, submission)),
                       '%s: expected %r, submission %r; reference normal forms %r vs %r'
                       % (ref.flag_name(bits), expected, submission,
                          sorted(ref.normal_forms(expected, bits)), sorted(ref.normal_forms(submission, bits))),
                       verdict, res))


class GraderCache(object):
    """the big families reuse one grader for all cases with the same configuration (as edX does)"""
    def __init__(self, cap=64):
        self.cap = cap
        self.d = {}

    def get(self, key, build):
        g = self.d.get(key)
        if g is None:
            if len(self.d) >= self.cap:
                self.d.clear()
            g = self.d[key] = build()
        return g


def chunked(keys, subs, width=16):
    """(key, submission) for every key and submission; keys vary fastest inside groups of `width`, so that with
    `width` worker processes taking every width-th case each process builds only its share of the graders"""
    for i in range(0, len(keys), width):
        chunk = keys[i:i + width]
        for sub in subs:
            for k in chunk:
                yield k, sub


# ------------------------------------------------------------------------------ pair families

class PairFamily(Family):
    """all (expected, submission) pairs from two string lists x a list of flag sets"""
    timeout = 5.0
    flagsets = list(range(16))

    def setup(self, tier):
        from mitxgraders import StringGrader
        self.SG = StringGrader
        self.cache = GraderCache()

    def lists(self, tier):
        """-> list of (expected_list, submission_list) blocks"""
        raise NotImplementedError

    def cases(self, tier):
        for exps, subs in self.lists(tier):
            keys = [(bits, e) for e in exps for bits in self.flagsets]
            for (bits, e), s in chunked(keys, subs):
                yield (bits, e, s)

    def describe(self, case):
        bits, e, s = case
        return {'flags': ref.flag_name(bits), 'expected': repr(e), 'submission': repr(s)}

    def check(self, case):
        bits, e, s = case
        g = self.cache.get((bits, e), lambda: self.SG(answers=e, **ref.flag_kwargs(bits)))
        return judge_match(run(g, None, s), e, s, bits)


class PairsLetters(PairFamily):
    name = 'pairs_aA_space_tab'
    rule = ('every pair of strings of length <= L over {a, A, space, tab} (L=3 quick, 4 thorough) x all 16 flag '
            'sets; grader(None, submission) with answers=expected must give full credit iff the reference normal '
            'forms are equal; non-trivial = raw strings differ but agree under the most permissive cleaning')

    def lists(self, tier):
        L = 3 if tier == 'quick' else 4
        ss = list(strings_upto('aA \t', L))
        return [(ss, ss)]


class PairsBreaks(PairFamily):
    name = 'pairs_linebreaks'
    rule = ('every pair of strings of length <= L over {a, space, tab, CR, LF} (L=2 quick, 3 thorough; so CRLF, '
            'LFCR, CRCR, LFLF and ambiguous runs such as CR LF CR all occur) x the 8 flag sets with '
            'case_sensitive on; runs with an open line-break count only constrain the verdict where every '
            'reading agrees')
    flagsets = [b for b in range(16) if b & 1]

    def lists(self, tier):
        L = 2 if tier == 'quick' else 3
        ss = list(strings_upto('a \t\r\n', L))
        return [(ss, ss)]


WIDE = ['a', 'A', 'b', '1', '.', '-', ' ', '\t', '\r', '\n', u'\xe9', u'\xc9', u'\u0414', u'\u0434',
        ref.NBSP, u'\x0b', u'\u2003']


WIDE_QUICK = [c for c in WIDE if c not in ('b', '-', u'\u0414', u'\u0434', u'\u2003')]


class PairsWide(PairFamily):
    name = 'pairs_wide_alphabet'
    rule = ('pairs of strings of length <= 2 over {a, A, b, 1, ., -, space, tab, CR, LF, e-acute, E-acute, '
            'Cyrillic De/de, NBSP, VT, EM SPACE} x all 16 flag sets (quick: 12 of the 17 characters and total length <= 3, thorough: all '
            'pairs): no character other than space/tab/CR/LF may be ignored or altered, case folding pairs '
            'exactly the two cases of a letter; NBSP/VT/EM SPACE at an end under strip are left open')

    def lists(self, tier):
        alpha = WIDE_QUICK if tier == 'quick' else WIDE
        s0 = ['']
        s1 = list(alpha)
        s2 = [a + b for a in alpha for b in alpha]
        if tier == 'quick':
            return [(s0 + s1, s0 + s1 + s2), (s2, s0 + s1)]
        allp = s0 + s1 + s2
        return [(allp, allp)]


# ------------------------------------------------------------------------------ edits of expected strings

BASES = ['cat', 'Two  Words', ' lead', 'a\tb', u'\xc9a', 'x.y', 'trail ', 'a b c']
WS_UNITS = [' ', '  ', '\t', '\r', '\n', '\r\n', '\n\r', ref.NBSP]
SWAPCASE = dict(ref.FOLD)
SWAPCASE.update({v: k for k, v in ref.FOLD.items()})


def edits(base):
    out = [base]
    n = len(base)
    for i in range(n + 1):                       # insert a white-space unit
        for u in WS_UNITS:
            out.append(base[:i] + u + base[i:])
    for i in range(n):                           # delete one space / swap space <-> tab
        if base[i] == ' ':
            out.append(base[:i] + base[i + 1:])
            out.append(base[:i] + '\t' + base[i + 1:])
            out.append(base[:i] + '\n' + base[i + 1:])
        if base[i] == '\t':
            out.append(base[:i] + ' ' + base[i + 1:])
            out.append(base[:i] + base[i + 1:])
    for i in range(n):                           # flip the case of one letter
        if base[i] in SWAPCASE:
            out.append(base[:i] + SWAPCASE[base[i]] + base[i + 1:])
    out.append(''.join(SWAPCASE.get(c, c) for c in base))                         # swap all
    out.append(''.join(ref.FOLD.get(c, c) for c in base))                         # all lower
    out.append(''.join(SWAPCASE[c] if c in ref.FOLD.values() else c for c in base))   # all upper
    for i in range(n):                           # substitute / delete one non-space character
        if base[i] not in ' \t':
            for r in ('z', '.', '1'):
                if r != base[i]:
                    out.append(base[:i] + r + base[i + 1:])
            out.append(base[:i] + base[i + 1:])
    for i in range(n + 1):                       # insert one non-space character
        out.append(base[:i] + 'z' + base[i:])
        out.append(base[:i] + '.' + base[i:])
    seen = set()
    uniq = []
    for s in out:
        if s not in seen:
            seen.add(s)
            uniq.append(s)
    return uniq


class Edits(Family):
    name = 'edits_of_expected'
    timeout = 5.0
    rule = ('for each base in %r: the base and every single edit (insert one of space, 2 spaces, tab, CR, LF, '
            'CRLF, LFCR, NBSP at every position; delete a space; space<->tab/LF; flip case of one/all letters; '
            'substitute, delete or insert one non-space character) x {base is the answer, edit is the answer} x '
            'all 16 flag sets and the no-flags (documented defaults) configuration x {answer in the configuration, '
            'answer inferred from the expect argument} x {no extras, min_length/min_words/explain_minimums set '
            '(documented as ignored without accept_any)}; one grader per configuration, called repeatedly as edX does '
            '(the expect route re-infers the answer on every call)' % (BASES,))

    def setup(self, tier):
        from mitxgraders import StringGrader
        self.SG = StringGrader
        self.cache = GraderCache()

    def cases(self, tier):
        routes = ['config', 'expect']
        for bi, base in enumerate(BASES):
            eds = edits(base)
            for route in routes:
                if tier == 'quick' and route == 'expect' and bi >= 3:
                    continue
                for extras in (0, 1):
                    if extras and route == 'expect':
                        continue
                    for bits in list(range(16)) + [-1]:
                        for ed in eds:
                            yield (bits, base, ed, route, extras)
                        for ed in eds[1:]:
                            yield (bits, ed, base, route, extras)

    def describe(self, case):
        bits, e, s, route, extras = case
        return {'flags': 'defaults (no flags given)' if bits < 0 else ref.flag_name(bits),
                'expected': repr(e), 'submission': repr(s), 'route': route,
                'extras': 'min_length=5,min_words=3,explain_minimums=err' if extras else None}

    def check(self, case):
        bits, e, s, route, extras = case
        kw = {} if bits < 0 else ref.flag_kwargs(bits)
        if extras:
            kw.update(min_length=5, min_words=3, explain_minimums='err')
        if route == 'config':
            g = self.cache.get((bits, extras, e), lambda: self.SG(answers=e, **kw))
            out = run(g, None, s)
        else:
            g = self.cache.get((bits, extras, None), lambda: self.SG(**kw))
            out = run(g, e, s)
        return judge_match(out, e, s, DEFAULT_BITS if bits < 0 else bits)


# ------------------------------------------------------------------------------ accept_any / accept_nonempty

MODES = {'any': {'accept_any': True}, 'nonempty': {'accept_nonempty': True},
         'both': {'accept_any': True, 'accept_nonempty': True}}
EXPLAINS = ['err', 'msg', None]
ANSWER_VARIANTS = ['none', 'expect-arg', 'dict']
RECORDED = {'expect': '', 'grade_decimal': 0.5, 'msg': 'Your answer has been recorded.'}


def judge_refusal_min(out, explain, failing):
    """failing: list of (have, need, unit).  Returns None when the refusal has the prescribed form."""
    def mentions(msg):
        return any(('%d/%d' % (h, n)) in msg and unit in msg for h, n, unit in failing)
    if explain == 'err':
        if out[0] != 'err':
            return 'expected an InvalidInput error'
        if 'InvalidInput' not in exc_names(out[1]):
            return 'expected an InvalidInput error, got %s' % type(out[1]).__name__
        if not mentions(str(out[1])):
            return 'error message does not state <have>/<required> for a failing minimum'
        return None
    if out[0] != 'ok':
        return 'expected to be graded incorrect, got an error'
    res = out[1]
    if not (isinstance(res, dict) and set(res) == {'ok', 'grade_decimal', 'msg'} and res['ok'] is False
            and res['grade_decimal'] == 0):
        return 'expected ok=False, grade_decimal=0'
    if explain == 'msg':
        if not mentions(res['msg']):
            return 'message does not state <have>/<required> for a failing minimum'
    elif res['msg'] != '':
        return 'expected no message'
    return None


class AcceptAny(Family):
    name = 'accept_any_minimums'
    timeout = 5.0
    rule = ('{accept_any, accept_nonempty, both} x min_length {0,1,3} x min_words {0,1,2} x explain_minimums '
            '{err,msg,None} x 8 sets of (strip, clean_spaces, strip_all) x {no answers, no answers but an expect '
            'argument, documented answers dict with grade 0.5 and a message} x every string of length <= 3 over '
            '{a, space, .} and of length 4 over {a, space} (thorough: length <= 4 over {a, space, ., tab}, length <= 6 '
            'over {a, space}, and five longer examples with line breaks); accepted iff cleaned length >= '
            'max(min_length, 1 if accept_nonempty) and words >= min_words; non-trivial = cleaned length or word '
            'count within 1 of a positive requirement')

    def setup(self, tier):
        from mitxgraders import StringGrader
        self.SG = StringGrader
        self.cache = GraderCache()

    def subs(self, tier):
        if tier == 'quick':
            return list(strings_upto('a .', 3)) + list(strings_upto('a ', 4, 4))
        ss = list(strings_upto('a .\t', 4))
        seen = set(ss)
        for s in strings_upto('a ', 6, 5):
            if s not in seen:
                ss.append(s)
        ss += ['a\nb', 'a\r\nb c', 'a b\n', "isn't word-counting fun?", '  a  b  c  d  ']
        return ss

    def cases(self, tier):
        subs = self.subs(tier)
        keys = [(mode, ml, mw, ex, fl, av) for mode in ('any', 'nonempty', 'both') for ml in (0, 1, 3)
                for mw in (0, 1, 2) for ex in (0, 1, 2) for fl in range(8) for av in (0, 1, 2)]
        for key, s in chunked(keys, subs):
            yield key + (s,)

    def describe(self, case):
        mode, ml, mw, ex, fl, av, s = case
        return {'mode': mode, 'min_length': ml, 'min_words': mw, 'explain_minimums': EXPLAINS[ex],
                'flags': ref.flag_name(1 | (fl << 1)), 'answers': ANSWER_VARIANTS[av], 'submission': repr(s)}

    def check(self, case):
        mode, ml, mw, ex, fl, av, s = case
        bits = 1 | (fl << 1)
        explain = EXPLAINS[ex]

        def build():
            kw = dict(MODES[mode])
            kw.update(ref.flag_kwargs(bits))
            kw.update(min_length=ml, min_words=mw, explain_minimums=explain)
            if av == 2:
                kw['answers'] = dict(RECORDED)
            return self.SG(**kw)
        g = self.cache.get((mode, ml, mw, ex, fl, av), build)
        out = run(g, 'zzz' if av == 1 else None, s)

        cleaned = ref.normal_form(s, bits)
        chars = len(cleaned)
        words = ref.count_words(cleaned)
        need = max(ml, 1) if mode in ('nonempty', 'both') else ml
        failing = []
        if chars < need:
            failing.append((chars, need, 'character'))
        if words < mw:
            failing.append((words, mw, 'word'))
        nontrivial = (need > 0 and abs(chars - need) <= 1) or (mw > 0 and abs(words - mw) <= 1)
        accepted_form = ({'ok': 'partial', 'grade_decimal': 0.5, 'msg': RECORDED['msg']} if av == 2 else CORRECT)
        if not failing:
            if out[0] == 'ok' and isinstance(out[1], dict) and set(out[1]) == set(accepted_form) \
                    and out[1]['ok'] == accepted_form['ok'] and type(out[1]['ok']) is type(accepted_form['ok']) \
                    and out[1]['grade_decimal'] == accepted_form['grade_decimal'] \
                    and out[1]['msg'] == accepted_form['msg']:
                return Result('accepted', nontrivial)
            if out[0] == 'ok' and isinstance(out[1], dict) and out[1].get('grade_decimal', 0) > 0:
                return Result('WRONG:accepted-altered', nontrivial,
                              viol('minimums:accepted-result-altered',
                                   'submission meets the minimums but the result is not the answer\'s credit/message',
                                   accepted_form, show(out)))
            return Result('WRONG:refused', nontrivial,
                          viol('minimums:refused-although-met',
                               'cleaned %r has %d characters (need %d) and %d words (need %d) but was refused'
                               % (cleaned, chars, need, words, mw), accepted_form, show(out)))
        if out[0] == 'ok' and isinstance(out[1], dict) and out[1].get('grade_decimal', 0) > 0:
            which = '+'.join(u for _, _, u in failing)
            return Result('WRONG:accepted', nontrivial,
                          viol('minimums:accepted-below-minimum:%s' % which,
                               'cleaned %r has %d characters (need %d) and %d words (need %d) but earned credit'
                               % (cleaned, chars, need, words, mw), 'refusal (%r)' % explain, show(out)))
        why = judge_refusal_min(out, explain, failing)
        if why:
            return Result('WRONG:refusal-form', nontrivial,
                          viol('minimums:refusal-form:%s' % explain,
                               '%s (cleaned %r: %d characters/need %d, %d words/need %d)'
                               % (why, cleaned, chars, need, words, mw), 'refusal as explain_minimums=%r' % explain,
                               show(out)))
        return Result('refused:%s:%s' % (explain, '+'.join(u for _, _, u in failing)), nontrivial)


# ------------------------------------------------------------------------------ validation patterns

INVALID_MSG = 'Use the requested format!'
HAND_POOL = [
    'dog', 'dogs', 'catfish', 'hotdog', 'catdog', 'dogcat', 'cat dog', 'cat|dog', 'cat|', '|dog', 'dog$',
    'car', 'cart', 'scar', 'carcat', 'c.t', 'cot', 'coot', 'c t', 'c\tt', 'c\nt', 'c\r\nt', 'c  t',
    ' cat', 'cat ', ' cat ', 'cat\n', '\ncat', 'cat\r\n', '\tcat', 'cat\nfish', 'cat\ndog', ' ', '\n',
    'CAT', 'Cat', 'DOG', 'cAt', 'CATFISH', 'catcat', 'cat#animal', 'cat#', 'cat#animal$',
    'a', 'ab', 'abc', 'abcd', 'abca', 'cab', 'cab ', 'bad', 'abd', 'dab', 'ABC', 'a b', 'ac', 'abcabc',
    '1', '12', '007', '12a', 'a12', '1 2', ' 12 ', '1.2', '12\n', '-1',
    'x^', 'x^2', 'ax^', 'x', '^', 'x^x^', 'x^ ', 'X^',
    'NH_3', 'KCl', 'C_2H_6', 'H_', 'N H _ 3', 'CO_2', 'CO_22', 'nh_3', 'NH_3 is ammonia', 'H',
]


def validation_pool():
    pool = list(strings_upto('cat', 4))
    seen = set(pool)
    for s in HAND_POOL:
        if s not in seen:
            seen.add(s)
            pool.append(s)
    return pool


VMODES = ['compare', 'any', 'nonempty']


def selfcheck_patterns(pool):
    """the hand-written languages must agree with Python's own full-match semantics on every cleaned pool string"""
    for name, rx, cls, ans, lang in ref.PATTERNS:
        c = re.compile(rx)
        for s in pool:
            for bits in (0b0001, 0b0011, 0b0000, 0b0010, 0b1011):
                t = ref.normal_form(s, bits)
                if bool(c.fullmatch(t)) != bool(lang(t)):
                    raise HarnessError('reference language of %r disagrees with re.fullmatch on %r' % (rx, t))


def validation_sig(prefix, cls):
    return '%s:%s' % (prefix, cls)


def passes_kind(cleaned, lang):
    """'prefix-match' when a proper prefix of the string is in the pattern language (the string is matched only
    in part, from its start), else 'nonmatching-input'"""
    if lang is not None and any(lang(cleaned[:i]) for i in range(len(cleaned))):
        return 'prefix-match'
    return 'nonmatching-input'


def judge_refusal_validation(out, explain):
    if explain == 'err':
        if out[0] != 'err':
            return 'expected an InvalidInput error'
        if 'InvalidInput' not in exc_names(out[1]):
            return 'expected an InvalidInput error, got %s' % type(out[1]).__name__
        if str(out[1]) != INVALID_MSG:
            return 'error message is not invalid_msg'
        return None
    if out[0] != 'ok':
        return 'expected to be graded incorrect, got an error'
    want = {'ok': False, 'grade_decimal': 0, 'msg': INVALID_MSG if explain == 'msg' else ''}
    if not is_result(out[1], want):
        return 'expected %r' % (want,)
    return None


class Validation(Family):
    timeout = 5.0

    def __init__(self, cls):
        self.cls = cls
        self.name = 'validation_' + cls.replace('-', '_')
        self.patterns = [p for p in ref.PATTERNS if p[2] == cls]
        self.rule = ('patterns of class %s %s x {compare with a conforming answer, accept_any, accept_nonempty} x '
                     'explain_validation {err,msg,None} (explain_minimums set to the next value so the two refusals '
                     'are distinguishable) x strip on/off x case_sensitive on/off x a pool of every string of '
                     'length <= 4 over {c,a,t} plus %d hand-picked members, members with prefixes/suffixes/white '
                     'space, and near misses; the cleaned submission must be in the hand-written full-match '
                     'language, else refusal as explain_validation prescribes; non-trivial = the cleaned '
                     'submission is a member or properly contains a member'
                     % (cls, [p[1] for p in self.patterns], len(HAND_POOL)))

    def setup(self, tier):
        from mitxgraders import StringGrader
        self.SG = StringGrader
        self.cache = GraderCache()
        self.pool = validation_pool()
        selfcheck_patterns(self.pool)

    def cases(self, tier):
        pool = validation_pool()
        keys = [(p[0], vm, ex, strip, cs) for p in self.patterns for vm in VMODES for ex in (0, 1, 2)
                for strip in (1, 0) for cs in (1, 0)]
        for key, s in chunked(keys, pool):
            yield key + (s,)

    def describe(self, case):
        name, vm, ex, strip, cs, s = case
        p = ref.PATTERN_BY_NAME[name]
        return {'validation_pattern': p[1], 'mode': vm, 'explain_validation': EXPLAINS[ex],
                'explain_minimums': EXPLAINS[(ex + 1) % 3], 'strip': bool(strip), 'case_sensitive': bool(cs),
                'answers': p[3] if vm == 'compare' else None, 'submission': repr(s)}

    def check(self, case):
        name, vm, ex, strip, cs, s = case
        _, rx, cls, ans, lang = ref.PATTERN_BY_NAME[name]
        explain = EXPLAINS[ex]
        explain_min = EXPLAINS[(ex + 1) % 3]
        bits = (1 if cs else 0) | (2 if strip else 0) | 4

        def build():
            kw = dict(validation_pattern=rx, explain_validation=explain, explain_minimums=explain_min,
                      invalid_msg=INVALID_MSG, strip=bool(strip), case_sensitive=bool(cs))
            if vm == 'compare':
                kw['answers'] = ans
            elif vm == 'any':
                kw['accept_any'] = True
            else:
                kw['accept_nonempty'] = True
            return self.SG(**kw)
        g = self.cache.get((name, vm, ex, strip, cs), build)
        out = run(g, None, s)

        cleaned = ref.normal_form(s, bits)
        valid = bool(lang(cleaned))
        contains_member = valid or any(lang(cleaned[i:j]) for i in range(len(cleaned))
                                       for j in range(i + 1, len(cleaned) + 1))
        nontrivial = contains_member

        if vm == 'compare':
            cans = ref.normal_form(ans, bits)
            if not lang(cans):
                # docs: an expected answer that does not conform to the pattern is a configuration error
                if out[0] == 'err' and 'ConfigError' in exc_names(out[1]):
                    return Result('config-error:answer-nonconforming', nontrivial)
                return Result('WRONG:no-config-error', nontrivial,
                              viol(validation_sig('validation:expect-%s-passes' % passes_kind(cans, lang), cls),
                                   'cleaned answer %r is not in the language of %r but no ConfigError' % (cans, rx),
                                   'ConfigError', show(out)))
            if not valid:
                why = judge_refusal_validation(out, explain)
                if why is None:
                    return Result('refused-validation:%s' % explain, nontrivial)
                return self.bad_refusal(out, why, cleaned, rx, cls, explain, nontrivial, lang)
            want = CORRECT if cleaned == cans else WRONG
            if out[0] == 'ok' and is_result(out[1], want):
                return Result('valid:' + ('correct' if want is CORRECT else 'incorrect'), nontrivial)
            return Result('WRONG:valid-misgraded', nontrivial,
                          viol('validation:matching-input-misgraded',
                               'cleaned %r is in the language of %r; expected plain comparison with %r'
                               % (cleaned, rx, cans), want, show(out)))

        need = 1 if vm == 'nonempty' else 0
        meets = len(cleaned) >= need
        failing = [] if meets else [(len(cleaned), need, 'character')]
        if valid and meets:
            if out[0] == 'ok' and is_result(out[1], CORRECT):
                return Result('valid:accepted', nontrivial)
            return Result('WRONG:valid-refused', nontrivial,
                          viol('validation:matching-input-refused',
                               'cleaned %r is in the language of %r and meets the minimums' % (cleaned, rx),
                               CORRECT, show(out)))
        if valid and not meets:
            why = judge_refusal_min(out, explain_min, failing)
            if why is None:
                return Result('valid:refused-minimums:%s' % explain_min, nontrivial)
            return Result('WRONG:minimums-form', nontrivial,
                          viol('minimums:refusal-form:%s' % explain_min, why, 'refusal as explain_minimums', show(out)))
        why = judge_refusal_validation(out, explain)
        if why is None:
            return Result('refused-validation:%s' % explain, nontrivial)
        if not meets and judge_refusal_min(out, explain_min, failing) is None:
            return Result('refused-minimums-first:%s' % explain_min, nontrivial)
        return self.bad_refusal(out, why, cleaned, rx, cls, explain, nontrivial, lang)

    @staticmethod
    def bad_refusal(out, why, cleaned, rx, cls, explain, nontrivial, lang=None):
        passed = out[0] == 'ok' and (is_result(out[1], CORRECT) or is_result(out[1], WRONG))
        if passed:
            kind = passes_kind(cleaned, lang)
            return Result('WRONG:invalid-passes', nontrivial,
                          viol(validation_sig('validation:%s-passes' % kind, cls),
                               'cleaned submission %r is not matched entirely by %r but was graded as if valid '
                               '(explain_validation=%r)' % (cleaned, rx, explain),
                               'refusal as explain_validation=%r' % explain, show(out)))
        return Result('WRONG:refusal-form', nontrivial,
                      viol('validation:refusal-form:%s' % explain, '%s (cleaned %r, pattern %r)' % (why, cleaned, rx),
                           'refusal as explain_validation=%r' % explain, show(out)))


NONCONFORMING = {
    'alt': ['catfish', 'hotdog', 'cat|dog'], 'dot': ['coat', 'ct', 'c.tt'], 'class+': ['abcd', 'dabc', ''],
    'lit': ['cats', 'a cat', 'ca'], 'anchored': ['cats', 'scat'], 'group-alt': ['cart', 'cat|car', 'ca'],
    'optional': ['catcat', 'cats'], 'digits': ['12a', 'a12', '1 2'], 'alt-anchored': ['catfish', 'hotdog'],
    'alt3': ['ad', 'abd', 'abcd'], 'caret-end': ['x^2', 'x'], 'verbose': ['catfish', 'cat#animal'],
    'chem': ['KCl', 'NH_3!', 'H_'],
}


class ExpectConformance(Family):
    name = 'validation_expect_conformance'
    timeout = 5.0
    rule = ('docs: "Expected answers are also checked against the pattern; if a possible answer does not conform '
            'to the pattern, then a configuration error results": each pattern x 2-3 answers outside its language '
            '(member+suffix, prefix+member, near miss) x explain_validation x submissions {the answer itself, a '
            'member, a non-member}: a ConfigError is required; conforming answers (control) must grade normally')

    def setup(self, tier):
        from mitxgraders import StringGrader
        self.SG = StringGrader

    def cases(self, tier):
        for name, rx, cls, ans, lang in ref.PATTERNS:
            for bad in NONCONFORMING[name] + [ans]:
                for ex in (0, 1, 2):
                    for s in (bad, ans, 'zzz'):
                        yield (name, bad, ex, s)

    def describe(self, case):
        name, bad, ex, s = case
        return {'validation_pattern': ref.PATTERN_BY_NAME[name][1], 'answers': repr(bad),
                'explain_validation': EXPLAINS[ex], 'submission': repr(s)}

    def check(self, case):
        name, bad, ex, s = case
        _, rx, cls, ans, lang = ref.PATTERN_BY_NAME[name]
        if bool(re.compile(rx).fullmatch(ref.normal_form(bad, DEFAULT_BITS))) != bool(lang(ref.normal_form(bad, DEFAULT_BITS))):
            raise HarnessError('reference language of %r disagrees with re.fullmatch on %r' % (rx, bad))
        g = self.SG(answers=bad, validation_pattern=rx, explain_validation=EXPLAINS[ex], invalid_msg=INVALID_MSG)
        out = run(g, None, s)
        conforming = bool(lang(ref.normal_form(bad, DEFAULT_BITS)))
        if conforming:
            if out[0] == 'err' and 'ConfigError' in exc_names(out[1]):
                return Result('WRONG:config-error', True,
                              viol('validation:conforming-answer-rejected', 'answer %r conforms to %r' % (bad, rx),
                                   'normal grading', show(out)))
            return Result('control:graded', False)
        if out[0] == 'err' and 'ConfigError' in exc_names(out[1]):
            return Result('config-error', True)
        return Result('WRONG:no-config-error', True,
                      viol(validation_sig('validation:expect-%s-passes'
                                          % passes_kind(ref.normal_form(bad, DEFAULT_BITS), lang), cls),
                           'answer %r is not matched entirely by %r but no ConfigError was raised' % (bad, rx),
                           'ConfigError', show(out)))


def families(tier):
    return [PairsLetters(), PairsBreaks(), PairsWide(), Edits(), AcceptAny(),
            Validation('plain'), Validation('alternation'), Validation('trailing-caret'),
            Validation('verbose-comment'), ExpectConformance()]
