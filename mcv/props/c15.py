"""
C15 -- built-in functions and constants agree with their mathematical definitions.

ENUM: every entry of the default function tables of FormulaGrader / NumericalGrader / MatrixGrader
(taken from grader INSTANCES: `.functions`, `.constants`) is evaluated through the real
`evaluator('f(a, b, ...)', variables, functions)` on every point of fixed finite grids, and compared with
the textbook definition written in mcv/refs/c15_ref.py (cmath/math/itertools only).

Cases are JSON: numbers are ['r', x] (real-typed python float) or ['c', re, im] (complex-typed) or
['n', 'i64', x, 0] (handed to the library as np.int64: arrives at the function as a python int);
arrays are ['A', shape, re_flat, im_flat_or_None] (float / complex dtype), ['I', shape, ints] (integer dtype),
['Z', re, im_or_None] (0-d array).
"""
import math
import itertools
import warnings
import numbers

import numpy as np

from ..core import Family, Result, viol
from ..refs import c15_ref as ref

PROPERTY = 'C15'
RULE = ('every (table, function, argument tuple) of each family is enumerated from fixed grids: reals incl. 0, '
        'tiny, huge, pole and branch-point neighbourhoods, a complex lattice, both sides of every branch cut, '
        'signed zeros; pairs/triples of a 9-value grid for arctan2/kronecker/min/max; all small matrices/vectors '
        'over small palettes; every wrong arity 0..4 and every wrong-shape specimen.  A case is non-trivial when '
        'the oracle pins the outcome down (a definite value / identity, or a mandatory error); cases where the '
        'statement leaves the outcome open (error OR value) count as trivial unless a value was returned and checked.  '
        'Further dimensions, each with a small exhaustive space of its own: the TYPE of a number (python int), the '
        'DTYPE of an array (integer, complex with real entries; the arrays the library ships), extreme magnitudes in '
        'pairs and inside arrays, neighbours of every boundary in the last bit, sizes beyond the enumerated ones, '
        'more than four arguments, the tables of further graders (NumericalGrader, graders with user entries), '
        'arrays typed as literals and graded by a real MatrixGrader')
EXPLANATION = ('states = distinct (table, function, arguments) cases; transitions = executions of the real evaluator '
               '(or of a real NumericalGrader) -- every case runs the implementation')
ASSUMPTIONS = [
    'cmath/math of the interpreter are the trusted base for sin, cos, tan, sinh, cosh, tanh, exp, atan2, floor, ceil',
    'values compared with rtol 1e-9 (+1e-13*min(1,|z|) absolute); inverse functions by the identity f(w)=z with a '
    'tolerance that accounts for the conditioning |f\'(w)|*1e-15*max(1,|w|), closed principal region +-1e-9',
    'where that identity cannot be verified in floating point because the inverse saturates (arctan(1e200) = pi/2 '
    'to the last bit) the value is compared with the principal value of cmath instead, either side of a cut accepted',
    'no branch convention imposed on branch cuts (either limit accepted); arccot: both common conventions accepted',
    'an OverflowError of an intermediate of the textbook composition (sech(1000), arccsch(1e-320)) may surface as a '
    'student-facing error instead of the underflowed/finite value',
    'real argument outside the real domain: complex continuation is demanded only for sqrt, ln, log10, log2 '
    '(as the statement says); for the other inverse functions a student-facing error or the continued value is accepted',
    'floor/ceil/min/max/arctan2 on complex-typed arguments with zero imaginary part: error or the real value',
    'transpose of a vector / of a tensor: error or the unchanged (conjugated) array -- not a textbook notion',
    'a one-element array [x] / [[x]] given to a scalar function: a student-facing error or the NUMBER f(x); a number '
    'given to trans/ctrans/adj: the number (its conjugate) or a student-facing error',
    'numpy scalar types (np.float64) are accepted as numbers; ndarrays (also 0-d) are not',
    'the conditioning allowance of the identity f(w)=z is capped at 1e-3*|z| + 1e-12, so that a w next to a pole of f '
    '(where |f\'| is astronomically large) is not accepted for every z; beyond the cap the cmath comparison decides',
    'the evaluator turns numpy scalars into builtin numbers before a function sees them: the argument types that '
    'exist are python float, complex, int and MathArray',
    'norm / abs of arrays with entries of magnitude 1e+-150 are compared relatively (1e-9); entries whose SQUARE is '
    'not representable (1e+-200, subnormals) are a pending finding and skipped (see ArrayMagnitudes)',
    'fact/factorial excluded (scipy unavailable)',
    'exact exception subclass is left free: any StudentFacingError counts as a student-facing error',
    'a finite grid: nothing is claimed between grid points',
]

PI = math.pi


# ----------------------------------------------------------------------------------------------- encoding

def R(x):
    return ['r', float(x)]


def C(x, y=0.0):
    return ['c', float(x), float(y)]


def enc_num(v):
    if isinstance(v, complex):
        return C(v.real, v.imag)
    return R(v)


def enc_arr(nested):
    fl = ref.flat(nested)
    shape = list(ref.shape_of(nested))
    if any(isinstance(x, complex) for x in fl):
        return ['A', shape, [float(complex(x).real) for x in fl], [float(complex(x).imag) for x in fl]]
    return ['A', shape, [float(x) for x in fl], None]


def _nest(flatvals, shape):
    if not shape:
        return flatvals[0]
    if len(shape) == 1:
        return list(flatvals[:shape[0]])
    step = 1
    for s in shape[1:]:
        step *= s
    return [_nest(flatvals[i * step:(i + 1) * step], shape[1:]) for i in range(shape[0])]


def NP(kind, x, y=0.0):
    """a number handed to the library as a numpy scalar: kind in 'f64' (np.float64), 'i64' (np.int64), 'c128'"""
    return ['n', kind, float(x), float(y)]


def Z0(x):
    """the 0-d array MathArray(x)"""
    x = complex(x)
    return ['Z', x.real, x.imag] if x.imag != 0 else ['Z', x.real, None]


def enc_int_arr(nested):
    """an array handed to the library with an INTEGER dtype (as an author writes MathArray([[1, 2], [3, 4]]))"""
    return ['I', list(ref.shape_of(nested)), [int(x) for x in ref.flat(nested)]]


def dec(e):
    """encoded argument -> python value (float / complex / nested list): the mathematical value of the argument"""
    if e[0] == 'r':
        return float(e[1])
    if e[0] == 'c':
        return complex(e[1], e[2])
    if e[0] == 'n':
        return complex(e[2], e[3]) if e[1] == 'c128' else float(e[2])
    if e[0] == 'Z':
        return float(e[1]) if e[2] is None else complex(e[1], e[2])
    if e[0] == 'I':
        return _nest([int(x) for x in e[2]], list(e[1]))
    _, shape, re_, im_ = e
    vals = [float(x) for x in re_] if im_ is None else [complex(a, b) for a, b in zip(re_, im_)]
    return _nest(vals, list(shape))


def show(e):
    v = dec(e)
    return repr(v)


NAMES = 'abcdfghkmnpq'      # one letter per argument (e, i, j are constants of the library: not used)


class Env(object):
    """per-process handles on the code under test"""
    def __init__(self):
        from mitxgraders import FormulaGrader, NumericalGrader, MatrixGrader
        from mitxgraders.exceptions import StudentFacingError
        from mitxgraders.helpers.calc.expressions import evaluator
        from mitxgraders.helpers.calc.math_array import MathArray
        self.evaluator = evaluator
        self.MathArray = MathArray
        self.SFE = StudentFacingError
        self.NumericalGrader = NumericalGrader
        self.MatrixGrader = MatrixGrader
        self.graders = {'formula': FormulaGrader(answers='1'),
                        'numerical': NumericalGrader(answers='1'),
                        'matrix': MatrixGrader(answers='1'),
                        # the same default tables reached through graders that are configured with options
                        # of their own (the defaults must survive the merge with the author's entries)
                        'formula+user': FormulaGrader(answers='1', variables=['x'],
                                                      user_functions={'usrf': lambda x: x * x},
                                                      user_constants={'usrc': 2.0}),
                        'matrix+user': MatrixGrader(answers='1', max_array_dim=2, variables=['x'],
                                                    user_functions={'usrf': lambda x: x * x},
                                                    user_constants=self.shipped_constants(usrc=2.0))}
        self.functions = {k: g.functions for k, g in self.graders.items()}
        self.constants = {k: g.constants for k, g in self.graders.items()}

    @staticmethod
    def shipped_constants(**more):
        """the constant sets that the library ships for authors: Pauli matrices (integer / complex dtype) and the
        cartesian unit vectors (integer dtype)"""
        from mitxgraders.helpers.calc import mathfuncs
        out = dict(more)
        out.update(mathfuncs.pauli)
        out.update(mathfuncs.cartesian_xyz)
        return out

    def to_lib(self, e):
        v = dec(e)
        if e[0] == 'n':
            return {'f64': np.float64, 'i64': lambda x: np.int64(int(x)), 'c128': np.complex128}[e[1]](v)
        if e[0] == 'Z':
            return self.MathArray(v)            # 0-d array
        if e[0] == 'I':
            return self.MathArray(np.array(v, dtype=np.int64))
        if isinstance(v, list):
            return self.MathArray(v)
        return v

    def call(self, table, fname, args):
        """evaluate fname(args...) through the real evaluator.  -> ('ok', value) | ('err', exc), warnings"""
        variables = {NAMES[i]: self.to_lib(a) for i, a in enumerate(args)}
        formula = '%s(%s)' % (fname, ', '.join(NAMES[:len(args)]))
        return self.run(formula, variables, self.functions[table])

    def run(self, formula, variables, functions):
        with warnings.catch_warnings(record=True) as wl:
            warnings.simplefilter('always')
            try:
                out = ('ok', self.evaluator(formula, variables=variables, functions=functions, suffixes={})[0])
            except Exception as e:      # noqa: everything the library raises is judged
                out = ('err', e)
        bad = [w for w in wl if issubclass(w.category, RuntimeWarning)]
        return out, bad


_ENV = []


def shared_env():
    """one Env per worker process (the handles are read-only: tables of functions and constants, classes)"""
    if not _ENV:
        _ENV.append(Env())
    return _ENV[0]


def errname(e):
    return type(e).__name__


def classify_number(v):
    """-> ('num', python complex) | ('array', shape) | ('other', typename)"""
    if isinstance(v, bool):
        return ('other', 'bool')
    if isinstance(v, np.ndarray):
        return ('array', tuple(v.shape))
    if isinstance(v, (numbers.Number, np.number)):
        return ('num', complex(v))
    return ('other', type(v).__name__)


def judge_common(env, fname, out, bad, tag):
    """
    Checks that hold for every call whatever the expectation: no numpy warning, errors are student-facing.
    Returns a Result for a violation, or None.
    """
    if bad:
        return Result('warning', True, viol('%s:%s:numpy-warning' % (tag, fname),
                                            'a numpy RuntimeWarning was emitted: %s' % bad[0].message,
                                            'no warning', str(bad[0].message)))
    if out[0] == 'err' and not isinstance(out[1], env.SFE):
        return Result('raw-exception', True,
                      viol('%s:%s:raw-%s' % (tag, fname, errname(out[1])),
                           'a non-student-facing %s escaped: %s' % (errname(out[1]), out[1]),
                           'value or StudentFacingError', '%s: %s' % (errname(out[1]), out[1])))
    return None


def site_sig(tag, fname, ztype, failure):
    """
    Stable signature of a violation: where (family tag, function), input class, kind of failure.
    One implementation site gets one signature: the Frobenius-norm based abs/norm of the matrix table squares its
    argument, so numbers below 1e-154 / above 1e154 under/overflow -- whatever the symptom (0 or overflow error).
    """
    if fname in ('abs', 'norm') and ('tiny' in ztype or 'huge' in ztype) and (
            tag.startswith('scalar-like') or tag == 'unary[matrix]'):
        return 'matrix-table:abs-norm:extreme-magnitude-number'
    return '%s:%s:%s:%s' % (tag, fname, ztype, failure)


def judge_scalar(env, fname, out, bad, exp, tag, ztype):
    """compare one evaluation with an Expectation whose value is a NUMBER"""
    r = judge_common(env, fname, out, bad, tag)
    if r is not None:
        return r
    if out[0] == 'err':
        if exp.kind == 'value':
            return Result('error-in-domain', True,
                          viol(site_sig(tag, fname, ztype, 'error-in-domain'),
                               '%s raised for an argument in the domain: %s' % (errname(out[1]), out[1]),
                               'a value', '%s: %s' % (errname(out[1]), out[1])))
        return Result('err:' + errname(out[1]), exp.kind == 'error')
    kind, val = classify_number(out[1])
    if kind == 'array':
        sig = '%s:%s:array-returned-for-number' % (tag, fname)
        if tag == 'one-element-array':
            # one site (SpecifyDomain's wrapper hands the un-coerced array to the function): one signature
            sig = 'one-element-array:scalar-function-returns-array'
        return Result('array-returned', True,
                      viol(sig,
                           'an array of shape %s was returned where a number (or an error) is due' % (val,),
                           'number or StudentFacingError', repr(out[1])))
    if kind == 'other':
        return Result('non-number', True, viol('%s:%s:non-number' % (tag, fname), 'returned a %s' % val,
                                               'number', repr(out[1])))
    if val != val or math.isnan(val.real) or math.isnan(val.imag):
        return Result('nan', True, viol(site_sig(tag, fname, ztype, 'nan-returned'), 'nan returned',
                                        'value or StudentFacingError', repr(out[1])))
    if math.isinf(val.real) or math.isinf(val.imag):
        return Result('inf', True, viol(site_sig(tag, fname, ztype, 'inf-returned'), 'infinity returned',
                                        'value or StudentFacingError', repr(out[1])))
    if exp.kind == 'error':
        return Result('value-at-pole', True,
                      viol(site_sig(tag, fname, ztype, 'value-outside-domain'),
                           'a value was returned where the function is undefined (%s)' % exp.why,
                           'StudentFacingError', repr(out[1])))
    why = exp.accept(val) if exp.accept else None
    if why:
        return Result('wrong-value', True, viol(site_sig(tag, fname, ztype, 'wrong-value'), why,
                                                'textbook value', repr(out[1])))
    return Result('value' if exp.kind == 'value' else 'value(open)', True)


def ztype_of(args):
    """input class used in violation signatures: real/complex typed, and tiny/huge magnitude if so"""
    v = [dec(a) for a in args]
    if any(isinstance(x, list) for x in v):
        return 'array'
    t = 'complex' if any(isinstance(x, complex) for x in v) else 'real'
    mags = [abs(x) for x in v if x != 0]
    if mags and min(mags) < 1e-150:
        return 'tiny'
    if mags and max(mags) > 1e150:
        return 'huge'
    return t


# ----------------------------------------------------------------------------------------------- grids

def real_grid(tier):
    pos = [1e-8, 0.3, 0.5, 1.0, 1.5, 2.0, 10.0, 1e8, PI / 2 - 1e-6, PI / 2 + 1e-6, PI / 2, PI,
           1 - 1e-6, 1 + 1e-6, 709.0, 1000.0, 1e-300, 1e-320, 1e200]
    if tier == 'thorough':
        pos += [k * 0.25 for k in range(1, 41) if k * 0.25 not in pos]
        pos += [1e-150, 1e150, 1e308, 710.0, 1e-6, 1e6, 2 * PI, PI - 1e-6, PI + 1e-6,
                1 - 1e-12, 1 + 1e-12, 0.9999999, 1.0000001]
    out = [0.0, -0.0]
    for p in pos:
        out += [p, -p]
    return out


def complex_points(tier):
    pts = []
    if tier == 'quick':
        lat = [k * 2.0 / 3 for k in range(-3, 4)]
    else:
        lat = [k * 0.5 for k in range(-6, 7)]
    for x in lat:
        for y in lat:
            pts.append((x, y))
    # poles and their neighbourhoods
    d = 1e-6
    for s in (1, -1):
        pts += [(0.0, s * 1.0), (0.0, s * (1 + d)), (0.0, s * (1 - d)), (d, s * 1.0), (-d, s * 1.0),
                (0.0, s * PI / 2), (0.0, s * PI), (d, s * PI / 2), (0.0, s * (PI / 2 + d)), (d, s * PI),
                (s * 1.0, d), (s * 1.0, -d), (s * PI / 2, d), (s * PI, -d), (s * d, d)]
    # both sides of every branch cut (real axis: |x|<1, |x|>1 ; imaginary axis: |y|<1, |y|>1), signed zeros
    e = 1e-9
    for c in (2.0, -2.0, 0.5, -0.5):
        pts += [(c, e), (c, -e), (c, -0.0), (e, c), (-e, c), (-0.0, c)]
    pts += [(0.0, -0.0), (-0.0, 0.0), (-0.0, -0.0), (1.0, -0.0), (-1.0, -0.0), (-0.0, 1.0), (-0.0, -1.0)]
    # large and tiny magnitudes
    pts += [(1e8, 1e8), (0.0, 1e8), (0.0, -1e8), (0.0, 1000.0), (1000.0, 1.0), (-1000.0, 1.0), (0.0, 1e-8),
            (1e-8, 1e-8), (1e-300, 1e-300), (709.0, 1.0), (1.0, 709.0), (1e8, 0.0), (-1e8, 0.0)]
    if tier == 'thorough':
        pts += [(1e-320, 0.0), (0.0, 1e-320), (1e-320, 1e-320), (1e150, 1e150), (1e200, 0.0), (0.0, 1e200),
                (1e308, 1e308), (1e308, 0.0), (0.0, -1e308), (1e-150, 1e-150), (710.0, 0.0), (0.0, 710.0),
                (1e6, 1e-6), (1e-6, 1e6), (-1e150, 1e-150)]
        for s in (1, -1):
            for t in (1, -1):
                pts += [(s * d, t * (1 + d)), (s * (1 + d), t * d), (s * (1 - d), t * d), (s * 1.0, t * 1.0),
                        (s * PI / 2, t * PI / 2)]
    seen = set()
    out = []
    for p in pts:
        k = (repr(float(p[0])), repr(float(p[1])))
        if k not in seen:
            seen.add(k)
            out.append((float(p[0]), float(p[1])))
    return out


def scalar_points(tier):
    """encoded points: every real both real-typed and complex-typed, then the complex points"""
    out = []
    seen = set()
    for x in real_grid(tier):
        out.append(R(x))
        seen.add((repr(x), repr(0.0)))
        out.append(C(x, 0.0))
    for (x, y) in complex_points(tier):
        if (repr(x), repr(y)) in seen:
            continue
        seen.add((repr(x), repr(y)))
        out.append(C(x, y))
    return out


G9 = [-10.0, -2.0, -1.0, -0.3, 0.0, 0.3, 1.0, 2.0, 10.0]
ARCTAN2_EXTREME = [0.0, 1.0, -1.0, 5e-324, -5e-324, 1e-320, -1e-320, 1e-200, 1e200, -1e200, 1e308, -1e308]
UP1 = math.nextafter(1.0, 2.0)
DOWN1 = math.nextafter(1.0, 0.0)
G15 = [-1e8, -10.0, -2.0, -1.0, -0.3, -1e-8, 0.0, 1e-8, 0.3, 1.0, 1.0000001, 2.0, 3.0, 10.0, 1e8]


# ----------------------------------------------------------------------------------------------- families

class C15Family(Family):
    timeout = 20.0

    def setup(self, tier):
        self.env = shared_env()

    def describe(self, case):
        return {'table': case[0], 'call': '%s(%s)' % (case[1], ', '.join(show(a) for a in case[2]))}


class TablesAndConstants(C15Family):
    name = 'tables_and_constants'
    rule = ('for each of the three grader tables: every documented function name is present and callable, the four '
            'constants i, j, e, pi have their standard values, and 58 constant identities (e^(i*pi) = -1, '
            'ln(e) = 1, 4*arctan(1) = pi, arctan2(-1, 0) = pi ..., nested calls f(g(x)) whose inner result is a '
            'numpy scalar or a python int, and -- matrix tables -- 30 identities on arrays typed as literals) '
            'evaluate to their exact textbook value; the tables are those of default graders and of graders '
            'configured with user functions / constants; no table has an entry beyond the documented defaults; '
            'non-trivial = all')
    IDENTITIES = [('i*i', -1), ('j*j', -1), ('i-j', 0), ('e^(i*pi)', -1), ('ln(e)', 1), ('exp(1)-e', 0),
                  ('cos(pi)', -1), ('sin(pi/2)', 1), ('arccos(-1)-pi', 0), ('2*arcsin(1)-pi', 0),
                  ('4*arctan(1)-pi', 0), ('arctan2(-1, 0)-pi', 0), ('arctan2(0, 1)-pi/2', 0), ('log10(1000)', 3),
                  ('log2(8)', 3), ('sqrt(-1)-i', 0), ('abs(i)', 1), ('im(i)', 1), ('re(j)', 0), ('conj(i)+i', 0),
                  ('ln(-1)-i*pi', 0), ('pi', math.pi), ('e', math.e), ('2*pi*i', complex(0, 2 * math.pi)),
                  # nested calls: the inner call hands a numpy scalar (np.float64 / np.complex128) or a python int
                  # (kronecker) to the outer function
                  ('sin(arcsin(0.5))', 0.5), ('exp(ln(2))', 2), ('sqrt(abs(-4))', 2), ('ceil(sqrt(2))', 2),
                  ('arctan2(cos(2), sin(2))', 2), ('arctan2(sin(2), cos(2))', math.pi / 2 - 2),
                  ('kronecker(floor(2.5), 2)', 1), ('kronecker(ceil(2.5), 2)', 0), ('max(kronecker(1, 1), 0.5)', 1),
                  ('min(kronecker(1, 2), 0.5)', 0), ('min(re(2+3*i), im(2+3*i))', 2), ('max(abs(-3), sqrt(4), 1)', 3),
                  ('conj(exp(i*pi/2))+i', 0), ('sqrt(kronecker(1, 1))', 1), ('ln(kronecker(2, 2))', 0),
                  ('arccos(kronecker(1, 2))-pi/2', 0), ('floor(-kronecker(1, 1)/2)', -1), ('sqrt(-kronecker(3, 3))-i', 0),
                  ('arcsec(sec(1))', 1), ('arccsc(csc(1))', 1), ('tan(arccot(2))', 0.5), ('cosh(arccosh(2))', 2),
                  ('sinh(arcsinh(-3))', -3), ('tanh(arctanh(0.5))', 0.5), ('sech(arcsech(0.5))', 0.5),
                  ('csch(arccsch(2))', 2), ('coth(arccoth(2))', 2), ('log2(exp(ln(8)))', 3), ('log10(sqrt(100))', 1),
                  ('abs(conj(3+4*i))', 5), ('re(sqrt(-4))', 0), ('im(sqrt(-4))', 2), ('floor(im(ln(-1)))', 3),
                  ('arctan2(re(-1+0*i), im(-1+0*i))', math.pi)]
    # identities that need the matrix table; arrays typed by the student (evaluated by the parser's array builder)
    MATRIX_IDENTITIES = [('det([[1,2],[3,4]])', -2), ('trace([[1,2],[3,4]])', 5), ('norm([3,4])', 5), ('abs([3,-4])', 5),
                         ('norm([[1,2],[2,4]])', 5), ('abs([3*i,-4])', 5), ('norm(cross([1,0,0],[0,1,0])-[0,0,1])', 0),
                         ('norm(cross([0,1,0],[1,0,0])+[0,0,1])', 0), ('norm(cross([1,2,3],[4,5,6])-[-3,6,-3])', 0),
                         ('norm(trans([[1,2],[3,4]])-[[1,3],[2,4]])', 0),
                         ('norm(trans([[1,2,3],[4,5,6]])-[[1,4],[2,5],[3,6]])', 0),
                         ('norm(ctrans([[i,2],[3,4]])-[[-i,3],[2,4]])', 0), ('norm(adj([[i,2],[3,4]])-[[-i,3],[2,4]])', 0),
                         ('sqrt(det([[4,0],[0,1]]))', 2), ('re(det([[i,0],[0,i]]))', -1), ('det([[i,0],[0,1]])-i', 0),
                         ('trace([[i,0],[0,i]])-2*i', 0), ('norm(re([1+i,2*i])-[1,0])', 0),
                         ('norm(im([1+i,2*i])-[1,2])', 0), ('norm(conj([1+i,2*i])-[1-i,-2*i])', 0),
                         ('det([[2,0,1],[1,3,2],[1,1,1]])', 0), ('det([[2,0,0],[0,3,0],[0,0,4]])', 24),
                         ('trace([[2,0,1],[1,3,2],[1,1,1]])', 6), ('arctan2(trace([[1,0],[0,-2]]), norm([0,1]))', 3 * math.pi / 4),
                         ('kronecker(det([[1,0],[0,1]]), trace([[1,0],[0,0]]))', 1), ('max(norm([3,4]), abs(-6), 2)', 6),
                         ('norm(trans(trans([[1,2],[3,4]]))-[[1,2],[3,4]])', 0), ('det(trans([[1,2],[3,4]]))', -2),
                         ('norm(ctrans([[1,2,3],[4,5,6*i]]))', math.sqrt(91)), ('abs(cross([1,0,0],[0,2,0]))', 2)]
    # the arrays that the library itself ships for authors (integer dtype unit vectors, integer / complex Pauli
    # matrices), as constants of a MatrixGrader
    SHIPPED_IDENTITIES = [('det(sigma_y)', -1), ('det(sigma_x)', -1), ('trace(sigma_z)', 0), ('norm(sigma_x)', math.sqrt(2)),
                          ('norm(sigma_y)', math.sqrt(2)), ('norm(cross(hatx, haty)-hatz)', 0),
                          ('norm(cross(haty, hatx)+hatz)', 0),
                          ('norm(cross(hatx, [0.5, 0.25, 0.125])-[0, -0.125, 0.25])', 0),
                          ('norm(cross([0.5, 0.25, 0.125], hatz)-[0.25, -0.5, 0])', 0),
                          ('norm(cross(hatz, [i, 0.5, 0])-[-0.5, i, 0])', 0),
                          ('norm(ctrans(sigma_y)-sigma_y)', 0), ('norm(trans(sigma_y)+sigma_y)', 0),
                          ('norm(conj(sigma_y)+sigma_y)', 0), ('norm(im(sigma_y)-[[0,-1],[1,0]])', 0),
                          ('norm(re(sigma_y))', 0), ('abs(haty)', 1), ('abs(hatx+2*haty-2*hatz)', 3),
                          ('sqrt(trace(sigma_x*sigma_x))', math.sqrt(2)), ('arcsec(trace(sigma_z*sigma_z))', math.pi / 3),
                          ('arccsc(trace(sigma_z*sigma_z))', math.pi / 6), ('arccot(trace(sigma_x*sigma_x)/2)', math.pi / 4),
                          ('arccoth(trace(sigma_z*sigma_z))', math.atanh(0.5)), ('arcsech(1/trace(sigma_z*sigma_z))', math.acosh(2)),
                          ('arccsch(trace(sigma_z*sigma_z))', math.asinh(0.5)),
                          ('kronecker(trace(sigma_z*sigma_z), 2)', 1), ('max(trace(sigma_z), det(sigma_z), 0.5)', 0.5),
                          ('arctan2(trace(sigma_z*sigma_z), trace(sigma_x*sigma_x))', math.pi / 4)]
    TABLES = ('formula', 'numerical', 'matrix', 'formula+user', 'matrix+user')

    def identity(self, table, k):
        if k < len(self.IDENTITIES):
            return self.IDENTITIES[k]
        k -= len(self.IDENTITIES)
        if k < len(self.MATRIX_IDENTITIES):
            return self.MATRIX_IDENTITIES[k]
        return self.SHIPPED_IDENTITIES[k - len(self.MATRIX_IDENTITIES)]

    def cases(self, tier):
        for table in self.TABLES:
            names = list(ref.DOCUMENTED_FORMULA)
            if table.startswith('matrix'):
                names += [n for n in ref.DOCUMENTED_MATRIX_EXTRA if n not in names]
            for n in names:
                yield ('has', table, n)
            for c in sorted(ref.DOCUMENTED_CONSTANTS):
                yield ('const', table, c)
                if table in ('formula', 'numerical', 'matrix'):
                    yield ('const-graded', table, c)        # the constant as a student's whole answer, graded
            nid = len(self.IDENTITIES) + (len(self.MATRIX_IDENTITIES) if table.startswith('matrix') else 0)
            if table == 'matrix+user':
                nid += len(self.SHIPPED_IDENTITIES)
            for k in range(nid):
                yield ('ident', table, k)
            # every ENTRY of the table is a documented one (an entry without a definition has no oracle)
            yield ('extra-functions', table, '')
            yield ('extra-constants', table, '')

    def describe(self, case):
        if case[0] == 'ident':
            f, want = self.identity(case[1], case[2])
            return {'table': case[1], 'formula': f, 'expected': want}
        return case

    def check(self, case):
        kind, table, x = case
        env = self.env
        if kind == 'has':
            f = env.functions[table].get(x)
            if f is None or not callable(f):
                return Result('missing', True, viol('table:%s:missing-function' % x,
                                                    'documented function %s is not in the %s table' % (x, table),
                                                    'callable', repr(f)))
            return Result('present', True, None, 0)
        if kind == 'const':
            want = ref.DOCUMENTED_CONSTANTS[x]
            got = env.constants[table].get(x)
            ok = isinstance(got, numbers.Number) and abs(complex(got) - complex(want)) <= 1e-15
            if not ok:
                return Result('bad-constant', True, viol('constant:%s:wrong-value' % x,
                                                         'constant %s of the %s grader is %r' % (x, table, got),
                                                         want, got))
            return Result('const-ok', True, None, 0)
        if kind == 'const-graded':
            want = complex(ref.DOCUMENTED_CONSTANTS[x])
            cls = type(env.graders[table])
            verdicts = []
            for answer in (want, want * 1.0001):
                try:
                    g = cls(answers=lit_num(answer), tolerance=1e-12)
                    verdicts.append(g(None, x)['ok'])
                except Exception as e:      # noqa
                    verdicts.append('%s: %s' % (errname(e), e))
            if verdicts != [True, False]:
                return Result('constant-misgraded', True,
                              viol('constant:%s:graded-wrongly' % x,
                                   'a %s with answer = the standard value of %s / that value moved by 0.01%% grades the '
                                   'input %r as %r' % (cls.__name__, x, x, verdicts), [True, False], verdicts), 2)
            return Result('const-graded', True, None, 2)
        if kind in ('extra-functions', 'extra-constants'):
            if kind == 'extra-functions':
                documented = set(ref.DOCUMENTED_FORMULA) | {'usrf'}
                if table.startswith('matrix'):
                    documented |= set(ref.DOCUMENTED_MATRIX_EXTRA)
                have = set(env.functions[table])
            else:
                documented = set(ref.DOCUMENTED_CONSTANTS) | {'usrc'}
                if table == 'matrix+user':
                    documented |= set(env.shipped_constants())
                have = set(env.constants[table])
            extra = sorted(have - documented)
            if extra:
                return Result('undocumented-entry', True,
                              viol('table:%s:%s' % (kind, ','.join(extra)),
                                   'the %s table has entries %r that are not documented defaults: no textbook '
                                   'definition to check them against' % (table, extra), sorted(documented), extra), 0)
            return Result('no-extra-entries', True, None, 0)
        formula, want = self.identity(table, x)
        out, bad = env.run(formula, env.constants[table], env.functions[table])
        exp = ref.Expectation('value', lambda v: None if abs(complex(v) - complex(want)) <= 1e-12 else
                              '%s evaluates to %r, not %r' % (formula, v, want))
        res = judge_scalar(env, 'ident[%s]' % formula.replace(' ', ''), out, bad, exp, 'identity', 'const')
        return res


class UnaryGrid(C15Family):
    """every unary scalar function x every grid point, through one grader table"""
    def __init__(self, table):
        self.table = table
        self.name = 'unary_%s_table' % table
        self.rule = ('every unary scalar function of the %s table (35 names) x every point of the scalar grid '
                     '(reals real-typed AND complex-typed, complex lattice, pole/branch-point neighbourhoods, both '
                     'sides of each cut, signed zeros, huge/tiny); non-trivial = the oracle demands a definite value '
                     '(identity f(w)=z + closed principal region, or the direct textbook value) or demands an error; '
                     'error-or-value cases are non-trivial only when a value came back and was checked' % table)

    def cases(self, tier):
        pts = scalar_points(tier)
        for fname in ref.UNARY_SCALAR:
            for p in pts:
                yield (self.table, fname, [p])

    def check(self, case):
        table, fname, args = case
        z = dec(args[0])
        exp = ref.expect_scalar(fname, z)
        out, bad = self.env.call(table, fname, args)
        res = judge_scalar(self.env, fname, out, bad, exp, 'unary[%s]' % table, ztype_of(args))
        if res.violation is None and fname == 'arccot' and ref.is_real_typed(z) and out[0] == 'ok':
            w = complex(out[1])
            cands = ref.arccot_real_candidates(z)
            if not any(abs(w - c) <= 1e-12 for c in cands):
                return Result('wrong-value', True,
                              viol('unary:arccot:real:not-a-common-convention',
                                   'arccot(%r) = %r is not the value under either common convention' % (z, out[1]),
                                   cands, repr(out[1])))
        return res


class NumericalGraderEndToEnd(C15Family):
    name = 'numerical_grader_end_to_end'
    rule = ('every unary scalar function x a 17-point literal grid (reals and complex lattice points written as '
            'literals in the student input): NumericalGrader(answers=<value the oracle accepted>)(None, "f(lit)") '
            'must be correct, with the answer moved by 1% it must be incorrect, and where the oracle demands an '
            'error the grader must raise a StudentFacingError; non-trivial = value or mandatory error')
    LITS = [0.0, 0.3, -0.3, 0.5, 1.0, -1.0, 1.5, -2.0, 10.0, (0.0, 1.0), (0.0, -1.0), (2.0 / 3, 2.0 / 3),
            (-4.0 / 3, 2.0), (2.0, -2.0 / 3), (0.0, 0.5), (-2.0, 0.0), (1e-8, 0.0)]

    @staticmethod
    def lit(p):
        if isinstance(p, (tuple, list)):
            return '(%r+(%r)*i)' % (float(p[0]), float(p[1]))
        return '(%r)' % float(p)

    def cases(self, tier):
        for fname in ref.UNARY_SCALAR:
            for k in range(len(self.LITS)):
                yield ('numerical', fname, k)

    def describe(self, case):
        return {'input': '%s%s' % (case[1], self.lit(self.LITS[case[2]]))}

    def check(self, case):
        _, fname, k = case
        p = self.LITS[k]
        z = complex(p[0], p[1]) if isinstance(p, (tuple, list)) else float(p)
        text = '%s%s' % (fname, self.lit(p))
        env = self.env
        exp = ref.expect_scalar(fname, z)
        out, bad = env.run(text, env.constants['numerical'], env.functions['numerical'])
        res = judge_scalar(env, fname, out, bad, exp, 'literal', 'complex' if isinstance(z, complex) else 'real')
        if res.violation is not None:
            return res
        calls = 1
        if out[0] == 'err':
            try:
                got = env.NumericalGrader(answers='1')(None, text)
                return Result('grader-no-error', True,
                              viol('grader:%s:graded-where-evaluator-raises' % fname,
                                   'NumericalGrader graded %r although evaluating it raises' % text,
                                   'StudentFacingError', got), 2)
            except env.SFE:
                return Result(res.outcome + '/grader-raises', res.nontrivial, None, 2)
            except Exception as e:
                return Result('grader-raw', True, viol('grader:%s:raw-%s' % (fname, errname(e)),
                                                       'NumericalGrader raised a non-student-facing error', None,
                                                       '%s: %s' % (errname(e), e)), 2)
        v = complex(out[1])

        def ans(c):
            return '%r+(%r)*i' % (c.real, c.imag) if c.imag != 0 else repr(c.real)
        verdicts = []
        for answer in (v, v + 0.01 * max(1.0, abs(v))):
            try:
                g = env.NumericalGrader(answers=ans(answer), tolerance=1e-9 * max(1.0, abs(v)))
                verdicts.append(g(None, text)['ok'])
            except Exception as e:
                verdicts.append('%s: %s' % (errname(e), e))
            calls += 1
        if verdicts != [True, False]:
            return Result('grader-disagrees', True,
                          viol('grader:%s:verdict-disagrees-with-evaluator' % fname,
                               'NumericalGrader verdicts for answer = value / value moved by 0.1%% are %r' % verdicts,
                               [True, False], verdicts), calls)
        return Result(res.outcome + '/graded', res.nontrivial, None, calls)


class Arctan2Family(C15Family):
    name = 'arctan2_pairs'
    rule = ('arctan2(x, y) on all ordered pairs of the 9-value grid (15-value in thorough) real-typed, plus pairs '
            'with signed zeros, complex-typed pairs and all pairs of a 12-value grid of extreme magnitudes '
            '(0, +-1, +-5e-324, +-1e-320, 1e-200, +-1e200, +-1e308); the documented (x, y) order is separated by every '
            'asymmetric pair; non-trivial = x != y or a mandatory error')

    def cases(self, tier):
        g = G9 if tier == 'quick' else G15
        for table in ('formula', 'matrix'):
            for x in g:
                for y in g:
                    yield (table, 'arctan2', [R(x), R(y)])
            for x, y in ((-1.0, -0.0), (-0.0, 1.0), (-0.0, -1.0), (1.0, -0.0), (-0.0, -0.0), (0.0, -0.0), (-0.0, 0.0)):
                yield (table, 'arctan2', [R(x), R(y)])
            for x, y in ((C(1, 0), R(1)), (R(1), C(-1, 0)), (C(1, 1), R(1)), (R(2), C(0, 1)), (C(0, 0), C(0, 0))):
                yield (table, 'arctan2', [x, y])
            # huge / tiny / subnormal coordinates: the quotient y/x over- or underflows although the angle is ordinary
            for x in ARCTAN2_EXTREME:
                for y in ARCTAN2_EXTREME:
                    if abs(x) in (0.0, 1.0) and abs(y) in (0.0, 1.0):
                        continue
                    yield (table, 'arctan2', [R(x), R(y)])

    def check(self, case):
        table, fname, args = case
        x, y = dec(args[0]), dec(args[1])
        out, bad = self.env.call(table, fname, args)
        cplx = isinstance(x, complex) or isinstance(y, complex)
        signed_zero = any((not isinstance(v, complex)) and v == 0 and math.copysign(1, v) < 0 for v in (x, y))
        if cplx:
            xc, yc = complex(x), complex(y)
            if xc.imag != 0 or yc.imag != 0:
                exp = ref.Expectation('error', why='arctan2 of non-real arguments')
            else:
                want = ref.ref_arctan2(xc.real, yc.real)
                if want is None:
                    exp = ref.Expectation('error', why='arctan2(0, 0)')
                else:
                    exp = ref.Expectation('either', lambda v: None if abs(complex(v) - want) <= 1e-12 else
                                          'arctan2 = %r, expected %r' % (v, want))
        else:
            want = ref.ref_arctan2(x, y)
            if want is None:
                exp = ref.Expectation('error', why='arctan2(0, 0) is undefined')
            else:
                def accept(v, want=want):
                    v = complex(v)
                    if abs(v - want) <= 1e-12:
                        return None
                    if signed_zero and abs(abs(want) - PI) <= 1e-12 and abs(v + want) <= 1e-12:
                        return None     # on the cut with a negative zero: either limit
                    return 'arctan2(x=%r, y=%r) = %r; the angle of the point (x, y) is %r' % (x, y, v, want)
                exp = ref.Expectation('value', accept)
        res = judge_scalar(self.env, fname, out, bad, exp, 'binary', ztype_of(args))
        if res.violation is None and not cplx:
            res.nontrivial = (x != y) or exp.kind == 'error'
        return res


class KroneckerFamily(C15Family):
    name = 'kronecker_pairs'
    rule = ('kronecker(x, y) on all ordered pairs of the 9-value grid extended by complex values, nearly-equal '
            'floats and 0/-0, and on all ordered pairs of a 20-value grid of neighbours (1, 1 +- one ulp, 1+1e-15, '
            '1+1e-13, 0, 5e-324, +-1e-320, 1e300 and its successor, +-1e308, complex huge); 1 exactly when the two '
            'numbers are equal; non-trivial = all')

    def cases(self, tier):
        vals = [R(v) for v in (G9 if tier == 'quick' else G15)] + [R(-0.0), R(1 + 1e-12), R(3.0), C(1, 0), C(0, 1),
                                                                  C(0, -1), C(1, 1), C(1, 1e-12), C(-2, 0)]
        # distinct numbers at every distance down to one unit in the last place, subnormals, huge values whose
        # difference overflows
        fine = [R(1.0), R(UP1), R(DOWN1), R(1 + 1e-15), R(1 + 1e-13), R(0.0), R(5e-324), R(1e-320), R(-1e-320),
                R(1e-300), R(1e300), R(math.nextafter(1e300, math.inf)), R(1e308), R(-1e308), R(100000.0), R(100001.0),
                C(1e308, 1e308), C(1e308, -1e308), C(1.0, 5e-324), C(1.0, 0.0)]
        for table in ('formula', 'matrix'):
            for a in vals:
                for b in vals:
                    yield (table, 'kronecker', [a, b])
            for a in fine:
                for b in fine:
                    yield (table, 'kronecker', [a, b])

    def check(self, case):
        table, fname, args = case
        x, y = dec(args[0]), dec(args[1])
        want = ref.ref_kronecker(x, y)
        out, bad = self.env.call(table, fname, args)
        exp = ref.Expectation('value', lambda v: None if complex(v) == want else
                              'kronecker(%r, %r) = %r, expected %r' % (x, y, v, want))
        return judge_scalar(self.env, fname, out, bad, exp, 'binary', ztype_of(args))


MINMAX_EXTREME = [1e308, -1e308, 1e-320, -1e-320, 0.0, 5e-324, 1.0, UP1]


def _rotations(t):
    return [t[k:] + t[:k] for k in range(len(t))]


# more arguments than the exhaustive bound: the extremum in every position of a 5- and a 6-tuple, ties, 8 and 12 arguments
MINMAX_LONG = (_rotations((1.0, 2.0, 3.0, 4.0, 5.0)) + _rotations((5.0, 4.0, 3.0, 2.0, 1.0)) +
               _rotations((-1.0, 0.3, 2.0, -10.0, 10.0, 0.0)) +
               [(3.0, 1.0, 1.0, 3.0, 2.0), (2.0, 2.0, 2.0, 2.0, 1.0), (2.0, 2.0, 2.0, 2.0, 3.0),
                (8.0, 7.0, 6.0, 5.0, 4.0, 3.0, 2.0, 1.0), (1.0, 2.0, 3.0, 4.0, 5.0, 6.0, 7.0, 8.0),
                tuple(float((7 * k) % 12) for k in range(12))])


class MinMaxFamily(C15Family):
    name = 'min_max_tuples'
    rule = ('min and max on all ordered pairs and triples of the 9-value grid (thorough: 15-value grid, plus all '
            '4-tuples of a 5-value grid), plus tuples containing complex-typed numbers, all pairs of an 8-value grid '
            'of extreme magnitudes, and 22 tuples of 5, 6, 8 and 12 arguments with the extremum in every position; '
            'non-trivial = not all arguments equal')

    def cases(self, tier):
        g = G9 if tier == 'quick' else G15
        for table in ('formula', 'matrix'):
            for fname in ('min', 'max'):
                for n in (2, 3):
                    for t in itertools.product(g, repeat=n):
                        yield (table, fname, [R(v) for v in t])
                if tier == 'thorough':
                    for t in itertools.product([-2.0, -0.3, 0.0, 1.0, 10.0], repeat=4):
                        yield (table, fname, [R(v) for v in t])
                for t in ([R(1), C(2, 0)], [C(1, 0), C(2, 0)], [R(1), C(0, 1)], [C(1, 1), C(1, -1)],
                          [R(3), R(1), C(2, 0)], [R(-0.0), R(0.0)], [R(0.0), R(-0.0)]):
                    yield (table, fname, t)
                for t in itertools.product(MINMAX_EXTREME, repeat=2):
                    yield (table, fname, [R(v) for v in t])
                for t in MINMAX_LONG:
                    yield (table, fname, [R(v) for v in t])

    def check(self, case):
        table, fname, args = case
        vals = [dec(a) for a in args]
        out, bad = self.env.call(table, fname, args)
        f = ref.ref_min if fname == 'min' else ref.ref_max
        if any(isinstance(v, complex) for v in vals):
            if any(complex(v).imag != 0 for v in vals):
                exp = ref.Expectation('error', why='min/max of non-real numbers')
            else:
                want = f([complex(v).real for v in vals])
                exp = ref.Expectation('either', lambda v: None if complex(v) == want else
                                      '%s = %r, expected %r' % (fname, v, want))
        else:
            want = f(vals)
            exp = ref.Expectation('value', lambda v: None if complex(v) == want else
                                  '%s%r = %r, expected %r' % (fname, tuple(vals), v, want))
        res = judge_scalar(self.env, fname, out, bad, exp, 'nary', ztype_of(args))
        if res.violation is None:
            res.nontrivial = len(set(complex(v) for v in vals)) > 1
        return res


# ---- arrays

PAL4 = [0.0, 1.0, -2.0, 1j]
PAL_BIN = [0.0, 1.0]
PAL3R = [-1.0, 0.0, 2.0]
PAL3C = [0.0, 1.0, 1j]


def all_arrays(shape, palette):
    n = 1
    for s in shape:
        n *= s
    for t in itertools.product(palette, repeat=n):
        yield _nest(list(t), list(shape))


def to_nested(v):
    """library array -> nested python list"""
    return np.asarray(v).tolist()


ARRAY_FUNCS = ['norm', 'abs', 'trans', 'ctrans', 'adj', 'det', 'trace', 're', 'im', 'conj']


def expect_array_func(fname, a, table):
    """
    Expectation for an array-accepting function on the python value a (number or nested list).
    -> (kind, ref_value, note) ; kind in 'number' / 'array' / 'error' / 'open-array' (error or this array)
       / 'open-number' / 'open' (anything student-facing)
    """
    shape = ref.shape_of(a)
    nd = len(shape)
    conj = lambda x: complex(x).conjugate()
    if fname == 'norm':
        return ('number', ref.frobenius(a), '')
    if fname == 'abs':
        if table != 'matrix':
            return ('number', ref.frobenius(a), '') if nd == 0 else ('error', None, 'abs of an array in a scalar table')
        if nd <= 1:
            return ('number', ref.frobenius(a), '')
        return ('error', None, 'abs(...) is documented for scalars and vectors only')
    if fname in ('re', 'im', 'conj'):
        f = {'re': lambda x: complex(x).real, 'im': lambda x: complex(x).imag, 'conj': conj}[fname]
        if nd == 0:
            return ('number', f(a), '')
        return ('array', ref.map_nested(f, a), '')
    if fname == 'trans':
        if nd == 2:
            return ('array', ref.transpose(a), '')
        if nd == 0:
            return ('open-number', a, 'transpose of a number')
        if nd == 1:
            return ('open-array', a, 'transpose of a vector')
        return ('open', None, 'transpose of a tensor')
    if fname in ('ctrans', 'adj'):
        if nd == 2:
            return ('array', ref.ctranspose(a), '')
        if nd == 0:
            return ('open-number', conj(a), 'adjoint of a number')
        if nd == 1:
            return ('open-array', ref.map_nested(conj, a), 'adjoint of a vector')
        return ('open', None, 'adjoint of a tensor')
    if fname in ('det', 'trace'):
        if nd == 2 and shape[0] == shape[1]:
            return ('number', (ref.det if fname == 'det' else ref.trace)(a), '')
        return ('error', None, '%s needs a square matrix' % fname)
    raise KeyError(fname)


def judge_array_func(env, fname, out, bad, expectation, tag, shapetag, scalar_input=False):
    kind, want, note = expectation
    r = judge_common(env, fname, out, bad, tag)
    if r is not None:
        return r
    if kind in ('number', 'open-number', 'error'):
        if kind == 'error':
            exp = ref.Expectation('error', why=note)
        else:
            def accept(v, want=want):
                # relative for a number argument; for arrays relative to max(1, |value|) (cancellation in det)
                scale = abs(complex(want)) if scalar_input else max(1.0, abs(complex(want)))
                if abs(complex(v) - complex(want)) <= 1e-9 * scale:
                    return None
                return '%s = %r, textbook value %r' % (fname, v, want)
            exp = ref.Expectation('value' if kind == 'number' else 'either', accept, note)
        return judge_scalar(env, fname, out, bad, exp, tag, shapetag)
    if out[0] == 'err':
        if kind == 'array':
            return Result('error-in-domain', True,
                          viol('%s:%s:%s:error-in-domain' % (tag, fname, shapetag),
                               '%s raised for an argument in the domain: %s' % (errname(out[1]), out[1]),
                               want, '%s: %s' % (errname(out[1]), out[1])))
        return Result('err:' + errname(out[1]), False)
    if kind == 'open':
        return Result('value(open)', False)
    v = out[1]
    if not isinstance(v, np.ndarray):
        return Result('number-for-array', True,
                      viol('%s:%s:%s:number-returned-for-array' % (tag, fname, shapetag),
                           'a %s was returned where an array of shape %s is due' % (type(v).__name__,
                                                                                    ref.shape_of(want)),
                           want, repr(v)))
    got = to_nested(v)
    if any(x != x for x in ref.flat(got)):
        return Result('nan', True, viol('%s:%s:nan-returned' % (tag, fname), 'nan in the result', want, got))
    if tuple(v.shape) != tuple(ref.shape_of(want)):
        return Result('wrong-shape', True,
                      viol('%s:%s:%s:wrong-shape' % (tag, fname, shapetag),
                           'result has shape %s, expected %s' % (tuple(v.shape), ref.shape_of(want)), want, got))
    if not ref.arrays_close(got, want):
        return Result('wrong-value', True, viol('%s:%s:%s:wrong-value' % (tag, fname, shapetag),
                                                '%s differs from its textbook value' % fname, want, got))
    return Result('array-value' if kind == 'array' else 'array-value(open)', True)


def shapetag(shape):
    return {0: 'scalar', 1: 'vector', 2: 'matrix'}.get(len(shape), 'tensor')


class ArrayFuncs(C15Family):
    """all arrays of given shapes over a palette x the array-accepting functions of the matrix table"""
    def __init__(self, name, shapes, palette, tiers=('quick', 'thorough'), funcs=ARRAY_FUNCS, tables=('matrix',)):
        self.name = name
        self.shapes = shapes
        self.palette = palette
        self.tiers = tiers
        self.funcs = funcs
        self.tables = tables
        self.rule = ('every array of shape %s with entries from %r x functions %s of table(s) %s; reference: '
                     'Frobenius norm, transpose, conjugate transpose, Leibniz determinant, trace, elementwise '
                     're/im/conj written on python lists; non-trivial = value (or mandatory error) demanded'
                     % (' / '.join('x'.join(map(str, s)) for s in shapes), palette, funcs, list(tables)))

    def cases(self, tier):
        if tier not in self.tiers:
            return
        for table in self.tables:
            for shape in self.shapes:
                for a in all_arrays(shape, self.palette):
                    e = enc_arr(a)
                    for fname in self.funcs:
                        yield (table, fname, [e])

    def check(self, case):
        table, fname, args = case
        a = dec(args[0])
        out, bad = self.env.call(table, fname, args)
        return judge_array_func(self.env, fname, out, bad, expect_array_func(fname, a, table), 'array',
                                shapetag(ref.shape_of(a)))


class CrossFamily(C15Family):
    def __init__(self, name, palette, tiers):
        self.name = name
        self.palette = palette
        self.tiers = tiers
        self.rule = ('cross(a, b) on every ordered pair of 3-vectors with entries from %r; reference: Levi-Civita '
                     'formula; non-trivial = a x b != 0 (a swapped or sign-flipped product is distinguishable)'
                     % (palette,))

    def cases(self, tier):
        if tier not in self.tiers:
            return
        vecs = [enc_arr(v) for v in all_arrays((3,), self.palette)]
        for a in vecs:
            for b in vecs:
                yield ('matrix', 'cross', [a, b])

    def check(self, case):
        table, fname, args = case
        a, b = dec(args[0]), dec(args[1])
        want = ref.cross(a, b)
        out, bad = self.env.call(table, fname, args)
        res = judge_array_func(self.env, fname, out, bad, ('array', want, ''), 'array', 'vec3xvec3')
        if res.violation is None:
            res.nontrivial = any(complex(x) != 0 for x in want)
        return res


# ---- wrong shapes, arity, scalar-like arrays

SPECIMENS = {
    's': 2.0,
    'c': complex(1, 2),
    'v2': [3.0, -4.0],
    'v3': [1.0, 2.0, 3.0],
    'w3': [1j, 2.0, -1.0],
    'v4': [1.0, 2.0, 3.0, 4.0],
    'm22': [[1.0, 2.0], [3.0, 4.0]],
    'c22': [[1j, 2.0], [3.0, complex(4, -1)]],
    'm23': [[1.0, 2.0, 3.0], [4.0, 5.0, 6.0]],
    'm32': [[1.0, 2.0], [3.0, 4.0], [5.0, 6.0]],
    'm33': [[2.0, 0.0, 1.0], [1.0, 3.0, 2.0], [1.0, 1.0, 1.0]],
    't222': [[[1.0, 2.0], [3.0, 4.0]], [[5.0, 6.0], [7.0, 8.0]]],
    # row and column matrices holding three numbers (NOT 3-vectors), a tensor with a unit axis
    'm13': [[1.0, 2.0, 3.0]],
    'm31': [[1.0], [2.0], [3.0]],
    't123': [[[1.0, 2.0, 3.0], [4.0, 5.0, 6.0]]],
    't131': [[[1.0], [2.0], [3.0]]],
}
ARRAY_SPECIMENS = ['v2', 'v3', 'w3', 'v4', 'm22', 'c22', 'm23', 'm32', 'm33', 't222', 'm13', 'm31', 't123']


def enc_spec(k):
    v = SPECIMENS[k]
    return enc_arr(v) if isinstance(v, list) else enc_num(v)


class WrongShapes(C15Family):
    name = 'wrong_shapes'
    rule = ('both the formula and the matrix table: every unary scalar function x 13 array specimens (vectors of '
            'length 2,3,4, real/complex 2x2, 2x3, 3x2, 3x3, 2x2x2, 1x3, 3x1, 1x2x3) must raise a student-facing error; arctan2, '
            'kronecker, min, max with an array in any position likewise; det/trace x non-square/vector/scalar/tensor, '
            'cross x every pair of specimens that is not (vec3, vec3), abs(matrix) likewise; re/im/conj/norm/trans.. '
            'on every specimen return the elementwise / textbook value; non-trivial = all except the open '
            'vector/tensor transposes')

    def cases(self, tier):
        for table in ('formula', 'matrix'):
            for fname in ref.UNARY_SCALAR:
                if fname in ('re', 'im', 'conj') or (fname == 'abs' and table == 'matrix'):
                    continue
                for k in ARRAY_SPECIMENS:
                    yield (table, fname, [enc_spec(k)], 'error')
            for fname in ('arctan2', 'kronecker', 'min', 'max'):
                for k in ARRAY_SPECIMENS:
                    yield (table, fname, [enc_spec(k), R(1.0)], 'error')
                    yield (table, fname, [R(1.0), enc_spec(k)], 'error')
                    yield (table, fname, [enc_spec(k), enc_spec(k)], 'error')
                if fname in ('min', 'max'):
                    for k in ('v2', 'm22'):
                        yield (table, fname, [R(1.0), R(2.0), enc_spec(k)], 'error')
            funcs = ARRAY_FUNCS if table == 'matrix' else ['re', 'im', 'conj', 'abs']
            for fname in funcs:
                for k in ARRAY_SPECIMENS:
                    yield (table, fname, [enc_spec(k)], 'arrayfunc')
        keys = ['s', 'v2', 'v3', 'w3', 'v4', 'm22', 'm33', 'm32', 'm13', 'm31', 't131']
        for ka in keys:
            for kb in keys:
                yield ('matrix', 'cross', [enc_spec(ka), enc_spec(kb)], 'cross')

    def describe(self, case):
        d = C15Family.describe(self, case)
        d['expect'] = case[3]
        return d

    def check(self, case):
        table, fname, args, mode = case
        env = self.env
        out, bad = env.call(table, fname, args)
        vals = [dec(a) for a in args]
        st = '+'.join(shapetag(ref.shape_of(v)) for v in vals)
        if mode == 'arrayfunc':
            return judge_array_func(env, fname, out, bad, expect_array_func(fname, vals[0], table), 'shape', st)
        if mode == 'cross':
            if all(ref.shape_of(v) == (3,) for v in vals):
                return judge_array_func(env, fname, out, bad, ('array', ref.cross(vals[0], vals[1]), ''), 'shape', st)
            mode = 'error'
        # mode == 'error': a scalar function received an array
        r = judge_common(env, fname, out, bad, 'shape')
        if r is not None:
            return r
        if out[0] == 'ok':
            return Result('value-for-wrong-shape', True,
                          viol('shape:%s:%s:value-for-wrong-shape' % (fname, st),
                               '%s accepted argument(s) of shape %s and returned %r' % (fname, st, out[1]),
                               'StudentFacingError', repr(out[1])))
        return Result('err:' + errname(out[1]), True)


NATURAL = {'det': 'm22', 'trace': 'm22', 'trans': 'm22', 'ctrans': 'm22', 'adj': 'm22', 'norm': 'v3', 'cross': 'v3'}
ARITY_OK = {'arctan2': (2,), 'kronecker': (2,), 'cross': (2,), 'min': (2, 3, 4, 5, 6, 9), 'max': (2, 3, 4, 5, 6, 9)}


class Arity(C15Family):
    name = 'wrong_arity'
    rule = ('every function of the formula and of the matrix table called with 0, 1, 2, 3 and 4 (min, max, arctan2, cross: also 5, 6, 9) arguments (scalars '
            '0.5, or the function\'s natural array argument, or that followed by 2.0s as in norm(v, 2)); with an inadmissible count a student-facing error '
            'must be raised, with an admissible count no argument-count error; non-trivial = inadmissible counts')

    def cases(self, tier):
        for table in ('formula', 'matrix'):
            names = sorted(set(ref.DOCUMENTED_FORMULA) - set(ref.EXCLUDED))
            if table == 'matrix':
                names = sorted(set(names) | set(ref.DOCUMENTED_MATRIX_EXTRA))
            for fname in names:
                for n in (0, 1, 2, 3, 4) + ((5, 6, 9) if fname in ('min', 'max', 'arctan2', 'cross') else ()):
                    yield (table, fname, n, 'scalar')
                    if fname in NATURAL and table == 'matrix' and n > 0:
                        yield (table, fname, n, 'natural')
                        if n > 1:
                            yield (table, fname, n, 'natural-then-2')    # e.g. norm(v, 2), trans(m, 2)

    def describe(self, case):
        return {'table': case[0], 'function': case[1], 'nargs': case[2], 'args': case[3]}

    def check(self, case):
        table, fname, n, how = case
        env = self.env
        arg = enc_spec(NATURAL[fname]) if how != 'scalar' else R(0.5)
        if n == 0:
            out, bad = env.run('%s()' % fname, {}, env.functions[table])
        elif how == 'natural-then-2':
            out, bad = env.call(table, fname, [arg] + [R(2.0)] * (n - 1))
        else:
            out, bad = env.call(table, fname, [arg] * n)
        r = judge_common(env, fname, out, bad, 'arity')
        if r is not None:
            return r
        ok_counts = ARITY_OK.get(fname, (1,))
        if n in ok_counts:
            from mitxgraders.helpers.calc.exceptions import ArgumentError
            if out[0] == 'err' and isinstance(out[1], ArgumentError):
                return Result('arity-error-on-valid-count', True,
                              viol('arity:%s:%d-args-rejected' % (fname, n),
                                   '%s rejects the admissible argument count %d: %s' % (fname, n, out[1]),
                                   'no ArgumentError', str(out[1])))
            return Result('admissible:' + ('err:' + errname(out[1]) if out[0] == 'err' else 'value'), False)
        if out[0] == 'ok':
            return Result('value-for-wrong-count', True,
                          viol('arity:%s:%d-args-accepted' % (fname, n),
                               '%s accepted %d argument(s) and returned %r' % (fname, n, out[1]),
                               'StudentFacingError', repr(out[1])))
        return Result('err:' + errname(out[1]), True)


class OneElementArrays(C15Family):
    name = 'one_element_arrays'
    rule = ('boundary of the shape rules: the one-element arrays [x], [[x]], [[[x]]] and the 0-d array given to every unary scalar function '
            'and to arctan2/kronecker/min/max in both tables -- either a student-facing error (wrong shape) or the '
            'NUMBER f(x) (if the library treats them as numbers), never an array; x from {0.5, -2, 1+2i}; '
            'non-trivial = all')
    XS = [0.5, -2.0, complex(1, 2)]

    def cases(self, tier):
        for table in ('formula', 'matrix'):
            for fname in ref.UNARY_SCALAR:
                if fname in ('re', 'im', 'conj') or (fname == 'abs' and table == 'matrix'):
                    continue
                for x in self.XS:
                    for wrap in (1, 2):
                        yield (table, fname, [enc_arr([x] if wrap == 1 else [[x]])])
                    yield (table, fname, [Z0(x)])                   # the 0-d array MathArray(x)
                    yield (table, fname, [enc_arr([[[x]]])])        # 1x1x1
            for fname in ('arctan2', 'kronecker', 'min', 'max'):
                for x in self.XS[:2]:
                    yield (table, fname, [enc_arr([x]), R(1.0)])
                    yield (table, fname, [R(1.0), enc_arr([[x]])])
                    yield (table, fname, [Z0(x), R(1.0)])
                    yield (table, fname, [enc_arr([[[x]]]), enc_arr([x])])

    def check(self, case):
        table, fname, args = case[:3]
        env = self.env
        out, bad = env.call(table, fname, args)
        vals = [dec(a) for a in args]
        nums = [ref.flat(v)[0] if isinstance(v, list) else v for v in vals]
        if len(nums) == 1:
            inner = ref.expect_scalar(fname, nums[0])
        else:
            x, y = nums[0], nums[1]
            if fname == 'arctan2':
                want = ref.ref_arctan2(x, y)
                inner = ref.Expectation('value', lambda v: None if abs(complex(v) - want) <= 1e-12 else 'wrong angle')
            elif fname == 'kronecker':
                want = ref.ref_kronecker(x, y)
                inner = ref.Expectation('value', lambda v: None if complex(v) == want else 'wrong delta')
            else:
                want = (ref.ref_min if fname == 'min' else ref.ref_max)(nums)
                inner = ref.Expectation('value', lambda v: None if complex(v) == want else 'wrong extremum')
        # a one-element array may be refused (wrong shape) or treated as the number it contains
        exp = ref.Expectation('either' if inner.kind != 'error' else 'error', inner.accept, inner.why)
        res = judge_scalar(env, fname, out, bad, exp, 'one-element-array', 'array')
        res.nontrivial = True
        return res


class ScalarLike(C15Family):
    name = 'numbers_into_matrix_functions'
    rule = ('numbers x (0.5, -2, 1+2i, 1e-300, 1e200) given to the matrix-table functions norm, abs, trans, ctrans, '
            'adj, det, trace, re, im, conj, and the 1x1 matrices [[x]] / length-1 vectors [x] given to them: norm and '
            'abs give |x|, the transposes x (conj x) as a NUMBER for a number, det/trace of [[x]] give x, det/trace '
            'of a number or vector are refused; non-trivial = all')
    XS = [0.5, -2.0, complex(1, 2)]

    def cases(self, tier):
        for fname in ARRAY_FUNCS:
            for x in self.XS + ([1e-300, 1e200] if fname != 'abs' else []):     # abs: see the unary grid
                yield ('matrix', fname, [enc_num(x)], 'number-' + ztype_of([enc_num(x)]))
            for x in self.XS:
                yield ('matrix', fname, [enc_arr([[x]])], '1x1')
                yield ('matrix', fname, [enc_arr([x])], 'len1')

    def describe(self, case):
        d = C15Family.describe(self, case)
        d['kind'] = case[3]
        return d

    def check(self, case):
        table, fname, args, mode = case
        env = self.env
        out, bad = env.call(table, fname, args)
        vals = [dec(a) for a in args]
        return judge_array_func(env, fname, out, bad, expect_array_func(fname, vals[0], table), 'scalar-like', mode,
                                scalar_input=not isinstance(vals[0], list))


# ---- further dimensions: argument TYPE, array DTYPE, magnitudes inside arrays, other tables, call histories,
# ---- the matrix grader end to end

def expect_nary(fname, vals):
    """Expectation for arctan2 / kronecker / min / max on python numbers (the rules of the pair families above)"""
    cplx = any(isinstance(v, complex) for v in vals)
    if fname == 'kronecker':
        want = ref.ref_kronecker(vals[0], vals[1])
        return ref.Expectation('value', lambda v: None if complex(v) == want else
                               'kronecker%r = %r, expected %r' % (tuple(vals), v, want))
    if fname == 'arctan2':
        x, y = vals
        if cplx and (complex(x).imag != 0 or complex(y).imag != 0):
            return ref.Expectation('error', why='arctan2 of non-real arguments')
        want = ref.ref_arctan2(complex(x).real, complex(y).real)
        if want is None:
            return ref.Expectation('error', why='arctan2(0, 0) is undefined')
        return ref.Expectation('either' if cplx else 'value', lambda v: None if abs(complex(v) - want) <= 1e-12 else
                               'arctan2(x=%r, y=%r) = %r; the angle of the point (x, y) is %r' % (x, y, v, want))
    f = ref.ref_min if fname == 'min' else ref.ref_max
    if cplx and any(complex(v).imag != 0 for v in vals):
        return ref.Expectation('error', why='min/max of non-real numbers')
    want = f([complex(v).real for v in vals])
    return ref.Expectation('either' if cplx else 'value', lambda v: None if complex(v) == want else
                           '%s%r = %r, expected %r' % (fname, tuple(vals), v, want))


class TypedArguments(C15Family):
    name = 'integer_typed_arguments'
    rule = ('the TYPE of a number is a dimension of its own.  The evaluator turns every numpy scalar into the builtin '
            'type, so a function receives a python float, a python complex, or a python INT: the value of kronecker, '
            'the trace of an integer matrix, a sampled / author-given np.int64.  Every unary scalar function of the '
            'formula and matrix tables x the integers {0, 1, -1, 2, -3, 10} handed over as np.int64 variables '
            '(arriving as python ints); f(kronecker(a, b)) for the ints 0 and 1; f(trace(M)) for integer matrices M '
            'with trace 2 and -3; arctan2/kronecker/min/max on all ordered pairs of 4 ints and 3 floats.  The '
            'expectation is that of the same mathematical value; non-trivial as in the unary grid')
    I64 = [0, 1, -1, 2, -3, 10]
    PAIR = [NP('i64', 1), NP('i64', -2), NP('i64', 0), NP('i64', 3), R(1.0), R(-2.0), R(0.5)]
    TRACES = {2: [[1, 5], [7, 1]], -3: [[-1, 2], [0, -2]]}

    def cases(self, tier):
        pts = [NP('i64', x) for x in self.I64]
        for table in ('formula', 'matrix'):
            for fname in ref.UNARY_SCALAR:
                for pt in pts:
                    yield (table, fname, [pt])
                for k in (0, 1):
                    yield (table, fname, [R(1.0), R(float(k))], 'of-kronecker')
                if table == 'matrix':
                    for t in sorted(self.TRACES):
                        yield (table, fname, [enc_int_arr(self.TRACES[t])], 'of-trace')
            for fname in ('arctan2', 'kronecker', 'min', 'max'):
                for a in self.PAIR:
                    for b in self.PAIR:
                        yield (table, fname, [a, b])

    def describe(self, case):
        d = C15Family.describe(self, case)
        d['types'] = [a[1] if a[0] == 'n' else 'python' for a in case[2]]
        if len(case) > 3 and case[3] == 'of-kronecker':
            d['call'] = '%s(kronecker(%s, %s))' % (case[1], show(case[2][0]), show(case[2][1]))
        elif len(case) > 3:
            d['call'] = '%s(trace(%s))  [integer dtype]' % (case[1], show(case[2][0]))
        return d

    def check(self, case):
        table, fname, args = case[:3]
        env = self.env
        if len(case) > 3 and case[3] == 'of-kronecker':
            a, b = dec(args[0]), dec(args[1])
            k = 1.0 if a == b else 0.0
            out, bad = env.run('%s(kronecker(a, b))' % fname, {'a': a, 'b': b}, env.functions[table])
            return judge_scalar(env, fname, out, bad, ref.expect_scalar(fname, k), 'typed[int-of-kronecker]', 'real')
        if len(case) > 3:
            m = dec(args[0])
            out, bad = env.run('%s(trace(a))' % fname, {'a': env.to_lib(args[0])}, env.functions[table])
            return judge_scalar(env, fname, out, bad, ref.expect_scalar(fname, float(ref.trace(m))),
                                'typed[int-of-trace]', 'real')
        vals = [dec(a) for a in args]
        kinds = '+'.join(a[1] if a[0] == 'n' else 'float' for a in args)
        out, bad = env.call(table, fname, args)
        if len(vals) == 1:
            exp = ref.expect_scalar(fname, vals[0])
        else:
            exp = expect_nary(fname, vals)
        return judge_scalar(env, fname, out, bad, exp, 'typed[%s]' % kinds, 'real')


REDUCED_REALS = [0.0, -0.0, 0.5, -0.5, 1.0, -1.0, 2.0, -2.0, 1e-320, 1e200, -1e200, 1000.0, -1000.0, PI / 2]
REDUCED_COMPLEX = [(0.0, 1.0), (0.0, -1.0), (2.0 / 3, 2.0 / 3), (-4.0 / 3, 2.0), (0.0, 0.5), (2.0, 1e-9), (2.0, -1e-9),
                   (-2.0, 0.0), (0.5, -0.0), (1000.0, 1.0), (1e-300, 1e-300), (0.0, PI / 2)]


class OtherTablesGrid(UnaryGrid):
    """the unary grid through the tables of further graders (NumericalGrader, a MatrixGrader with user entries)"""
    def __init__(self, table):
        UnaryGrid.__init__(self, table)
        self.name = 'unary_%s_table' % table.replace('+', '_')
        self.rule = ('every unary scalar function of the table of the %s grader x %d reals (real-typed) and %d complex '
                     'points (poles, both sides of cuts, huge, subnormal), thorough: the full scalar grid; the same '
                     'oracle as the unary grid; arctan2/kronecker/min/max on all pairs of the 9-value grid'
                     % (table, len(REDUCED_REALS), len(REDUCED_COMPLEX)))

    def cases(self, tier):
        if tier == 'thorough':
            pts = scalar_points(tier)
        else:
            pts = [R(x) for x in REDUCED_REALS] + [C(x, y) for x, y in REDUCED_COMPLEX]
        for fname in ref.UNARY_SCALAR:
            for p in pts:
                yield (self.table, fname, [p])
        for fname in ('arctan2', 'kronecker', 'min', 'max'):
            for x in G9:
                for y in G9:
                    yield (self.table, fname, [R(x), R(y)])

    def check(self, case):
        table, fname, args = case
        if len(args) == 1:
            return UnaryGrid.check(self, case)
        out, bad = self.env.call(table, fname, args)
        return judge_scalar(self.env, fname, out, bad, expect_nary(fname, [dec(a) for a in args]),
                            'binary[%s]' % table, ztype_of(args))


def boundary_neighbours():
    """reals within rounding distance of the boundaries that matter to some function: integers (floor, ceil), +-1
    (domains of arcsin..arccoth, poles of arctanh / arccoth), 0, half-integers, the largest non-integers"""
    na = math.nextafter
    inf = math.inf
    pts = []
    for c in (1.0, 2.0, 0.5, 3.0, 1e15):
        pts += [na(c, -inf), na(c, inf), c - abs(c) * 1e-15, c + abs(c) * 1e-15, c - abs(c) * 1e-12, c + abs(c) * 1e-12]
    pts += [5e-324, 2.0 ** 52 + 0.5, 2.0 ** 52 - 0.5, 2.0 ** 53 - 1, na(PI / 2, 0.0), na(PI, 4.0), 0.49999999999999994]
    out = []
    for v in pts:
        out += [v, -v]
    return out


class BoundaryNeighbours(UnaryGrid):
    """the unary grid on reals within rounding distance of a boundary"""
    def __init__(self):
        UnaryGrid.__init__(self, 'formula')
        self.name = 'unary_boundary_neighbours'
        self.rule = ('every unary scalar function (formula table; abs also matrix table) x 74 real-typed points within '
                     'rounding distance of a boundary: the neighbours (one ulp, 1e-15, 1e-12 relative) on both sides of '
                     '+-1, +-2, +-0.5, +-3, +-1e15, the smallest subnormals, 2^52 +- 0.5, 2^53 - 1, the neighbours of '
                     'pi/2 and pi; the same oracle as the unary grid (floor and ceil are exact)')

    def cases(self, tier):
        pts = [R(v) for v in boundary_neighbours()]
        for fname in ref.UNARY_SCALAR:
            for p in pts:
                yield ('formula', fname, [p])
        for p in pts:
            yield ('matrix', 'abs', [p])


class ArrayDtypes(C15Family):
    name = 'array_dtypes'
    rule = ('the DTYPE of an array is a dimension of its own: arrays written by an author (MathArray([[1, 2], [3, 4]]), '
            'the Pauli matrices) have an INTEGER dtype, or a complex dtype with all entries real.  Every integer-dtype '
            'array of shape 2 / 3 / 2x2 over {-2, 0, 1} and every complex-dtype array of shape 2 / 2x2 over {0, 1} x '
            'the ten array functions of the matrix table; cross on every (integer 3-vector over {-2, 0, 1}) x (6 '
            'integer / float / complex vectors) in both orders; same references as the array families; '
            'non-trivial = value (or mandatory error) demanded')
    OTHERS = [('I', [1, 0, 0]), ('I', [1, -2, 3]), ('I', [0, 0, 0]), ('A', [0.5, 1.0, -2.0]), ('A', [1j, 0.0, 2.0]),
              ('A', [0.3, 0.3, 0.3])]

    def cases(self, tier):
        for shape in ((2,), (3,), (2, 2)):
            for a in all_arrays(shape, [-2, 0, 1]):
                e = enc_int_arr(a)
                for fname in ARRAY_FUNCS:
                    yield ('matrix', fname, [e])
        for shape in ((2,), (2, 2)):
            for a in all_arrays(shape, [complex(0, 0), complex(1, 0)]):
                e = enc_arr(a)
                for fname in ARRAY_FUNCS:
                    yield ('matrix', fname, [e])
        for a in all_arrays((3,), [-2, 0, 1]):
            for kind, b in self.OTHERS:
                eb = enc_int_arr(b) if kind == 'I' else enc_arr(b)
                yield ('matrix', 'cross', [enc_int_arr(a), eb])
                yield ('matrix', 'cross', [eb, enc_int_arr(a)])
        # integer arrays into the formula table's re / im / conj / abs
        for a in all_arrays((2,), [-2, 0, 1]):
            for fname in ('re', 'im', 'conj', 'abs'):
                yield ('formula', fname, [enc_int_arr(a)])

    def check(self, case):
        table, fname, args = case
        vals = [dec(a) for a in args]
        out, bad = self.env.call(table, fname, args)
        tag = 'dtype[%s]' % '+'.join('int' if a[0] == 'I' else ('complex' if a[3] is not None else 'float') for a in args)
        if fname == 'cross':
            want = ref.cross(vals[0], vals[1])
            res = judge_array_func(self.env, fname, out, bad, ('array', want, ''), tag, 'vec3xvec3')
            if res.violation is None:
                res.nontrivial = any(complex(x) != 0 for x in want)
            return res
        return judge_array_func(self.env, fname, out, bad, expect_array_func(fname, vals[0], table), tag,
                                shapetag(ref.shape_of(vals[0])))


class ArrayMagnitudes(C15Family):
    name = 'array_magnitudes'
    rule = ('large and tiny magnitudes INSIDE arrays: norm, abs, re, conj on every 2-vector over {m, -m, 0, 1, m*i} and '
            'every 3-vector over {m, 0, -1}; norm, det, trace on every 2x2 matrix over {m, 0, -1}; m in {1e150, 1e-150} '
            '(their squares are representable).  norm and abs are compared RELATIVELY (1e-9 of the Frobenius norm '
            'computed with scaling), so a norm that underflows to 0 is seen; non-trivial = all')
    MAGS = [1e150, 1e-150]
    # These magnitudes found a genuine defect (repaired, see KNOWN_FINDINGS.json): norm / abs of an ARRAY squared the
    # entries (np.linalg.norm): norm([1e-200, 0]) was 0.0, abs([3e-320, 4e-320]) was 0.0, norm([1e200, 1e200]) raised
    # CalcOverflowError although 1.4e200 is representable (ec51f5f had repaired this for NUMBERS only).
    PENDING_MAGS = [1e200, 1e-200, 1e-320]
    INCLUDE_PENDING = True

    def cases(self, tier):
        for m in self.MAGS + (self.PENDING_MAGS if self.INCLUDE_PENDING else []):
            vecs = list(all_arrays((2,), [m, -m, 0.0, 1.0, complex(0, m)])) + list(all_arrays((3,), [m, 0.0, -1.0]))
            for a in vecs:
                for fname in ('norm', 'abs', 're', 'conj'):
                    yield ('matrix', fname, [enc_arr(a)])
            if m in self.PENDING_MAGS:
                continue        # m*m is not representable: det has no finite value
            for a in all_arrays((2, 2), [m, 0.0, -1.0]):
                for fname in ('norm', 'det', 'trace'):
                    yield ('matrix', fname, [enc_arr(a)])

    def check(self, case):
        table, fname, args = case
        a = dec(args[0])
        env = self.env
        out, bad = env.call(table, fname, args)
        st = shapetag(ref.shape_of(a))
        if fname in ('norm', 'abs'):
            want = ref.frobenius(a)
            exp = ref.Expectation('value', lambda v: None if abs(complex(v) - want) <= 1e-9 * want else
                                  '%s = %r, the Frobenius norm is %r' % (fname, v, want))
            res = judge_scalar(env, fname, out, bad, exp, 'magnitude', st)
            if res.violation is not None and res.outcome in ('wrong-value', 'error-in-domain'):
                # one site (the Frobenius norm squares the entries), whatever the symptom: 0 or an overflow error
                res.violation['sig'] = 'matrix-table:abs-norm:extreme-magnitude-array'
            return res
        return judge_array_func(env, fname, out, bad, expect_array_func(fname, a, table), 'magnitude', st)


class CrossSmall(CrossFamily):
    """cross on an explicit list of vectors (complex entries in the quick tier)"""
    VECS = [[1.0, 2.0, 3.0], [0.0, 1j, -2.0], [1j, 1j, 0.0], [complex(1, 2), 0.0, -1.0], [-2.0, 1.0, 1j],
            [0.0, 0.0, 1.0], [complex(0, -1), complex(2, 1), 0.5]]

    def __init__(self):
        self.name = 'cross_complex_small'
        self.tiers = ('quick', 'thorough')
        self.rule = ('cross(a, b) on every ordered pair of 7 vectors with complex entries (no conjugation in the '
                     'textbook product); reference: Levi-Civita formula; non-trivial = a x b != 0')

    def cases(self, tier):
        vecs = [enc_arr(v) for v in self.VECS]
        for a in vecs:
            for b in vecs:
                yield ('matrix', 'cross', [a, b])


def lit_num(x):
    x = complex(x)
    if x.imag != 0:
        return '%r%s%r*i' % (x.real, '-' if x.imag < 0 else '+', abs(x.imag))
    return '%r' % x.real


def lit(v):
    """python number / nested list -> the text a student types"""
    if isinstance(v, list):
        return '[%s]' % ', '.join(lit(x) for x in v)
    return lit_num(v)


class MatrixGraderEndToEnd(C15Family):
    name = 'matrix_grader_end_to_end'
    rule = ('the array functions typed by a student with LITERAL arrays and graded by a real MatrixGrader: 10 array '
            'functions x 9 literals (number, vectors, real/complex 2x2, 2x3, 3x3, one-entry arrays; quick: 5 of them) and cross on 5 '
            'pairs; the evaluated value must be the textbook one, MatrixGrader(answers=<that value>) must grade the '
            'input correct, with the answer moved by 1% incorrect, and where an error is due the grader must raise '
            'a student-facing error; non-trivial = value or mandatory error')
    LITS = [2.0, [3.0, -4.0], [1.0, 2.0, 2.0], [1j, 2.0, -1.0], [[1.0, 2.0], [3.0, 4.0]],
            [[1j, 2.0], [3.0, complex(4, -1)]], [[1.0, 2.0, 3.0], [4.0, 5.0, 6.0]],
            [[2.0, 0.0, 1.0], [1.0, 3.0, 2.0], [1.0, 1.0, 1.5]], [[-0.5]]]
    CROSS = [([1.0, 2.0, 3.0], [4.0, 5.0, 6.0]), ([0.0, 1.0, 0.0], [1.0, 0.0, 0.0]), ([1j, 0.0, 2.0], [1.0, 1j, 0.0]),
             ([1.0, 2.0], [3.0, 4.0]), ([[1.0, 2.0, 3.0]], [4.0, 5.0, 6.0])]

    QUICK_LITS = (1, 3, 5, 6, 7)

    def cases(self, tier):
        for fname in ARRAY_FUNCS:
            for k in range(len(self.LITS)):
                if tier == 'quick' and k not in self.QUICK_LITS:
                    continue
                yield ('matrix', fname, k)
        for k in range(len(self.CROSS)):
            yield ('matrix', 'cross', k)

    def text(self, case):
        _, fname, k = case
        if fname == 'cross':
            return 'cross(%s, %s)' % (lit(self.CROSS[k][0]), lit(self.CROSS[k][1]))
        return '%s(%s)' % (fname, lit(self.LITS[k]))

    def describe(self, case):
        return {'input': self.text(case)}

    def check(self, case):
        _, fname, k = case
        env = self.env
        text = self.text(case)
        out, bad = env.run(text, env.constants['matrix'], env.functions['matrix'])
        if fname == 'cross':
            a, b = self.CROSS[k]
            if ref.shape_of(a) == (3,) and ref.shape_of(b) == (3,):
                expectation = ('array', ref.cross(a, b), '')
            else:
                expectation = ('error', None, 'cross needs two 3-vectors')
            st = 'pair'
        else:
            a = self.LITS[k]
            expectation = expect_array_func(fname, a, 'matrix')
            st = shapetag(ref.shape_of(a))
        res = judge_array_func(env, fname, out, bad, expectation, 'literal', st, scalar_input=not isinstance(a, list))
        if res.violation is not None:
            return res
        if out[0] == 'err':
            try:
                got = env.MatrixGrader(answers='1', max_array_dim=2)(None, text)
                return Result('grader-no-error', True,
                              viol('matrixgrader:%s:graded-where-evaluator-raises' % fname,
                                   'MatrixGrader graded %r although evaluating it raises' % text,
                                   'StudentFacingError', got), 2)
            except env.SFE:
                return Result(res.outcome + '/grader-raises', res.nontrivial, None, 2)
            except Exception as e:
                return Result('grader-raw', True, viol('matrixgrader:%s:raw-%s' % (fname, errname(e)),
                                                       'MatrixGrader raised a non-student-facing error', None,
                                                       '%s: %s' % (errname(e), e)), 2)
        v = out[1]
        if isinstance(v, np.ndarray):
            nested = to_nested(v)
            size = max([abs(complex(x)) for x in ref.flat(nested)] + [1.0])
            moved = _nest([complex(x) + (0.01 * size if n == 0 else 0) for n, x in enumerate(ref.flat(nested))],
                          list(v.shape))
        else:
            nested = complex(v)
            size = max(1.0, abs(nested))
            moved = nested + 0.01 * size
        verdicts = []
        calls = 1
        for answer in (nested, moved):
            try:
                g = env.MatrixGrader(answers=lit(answer), max_array_dim=2, tolerance=1e-9 * size)
                verdicts.append(g(None, text)['ok'])
            except Exception as e:
                verdicts.append('%s: %s' % (errname(e), e))
            calls += 1
        if verdicts != [True, False]:
            return Result('grader-disagrees', True,
                          viol('matrixgrader:%s:verdict-disagrees-with-evaluator' % fname,
                               'MatrixGrader verdicts for answer = value / value moved by 1%% are %r' % verdicts,
                               [True, False], verdicts), calls)
        return Result(res.outcome + '/graded', res.nontrivial, None, calls)


def _larger_specimens():
    """structured arrays just beyond the exhaustively enumerated sizes (4x4 binary in thorough, 3x3 in quick)"""
    out = []
    for n in (4, 5, 6):
        ident = [[1.0 if i == j else 0.0 for j in range(n)] for i in range(n)]
        cyc = [[1.0 if j == (i + 1) % n else 0.0 for j in range(n)] for i in range(n)]       # det = (-1)^(n-1)
        upper = [[float(i + j + 1) if j >= i else 0.0 for j in range(n)] for i in range(n)]
        full = [[float(((3 * i + 5 * j + i * j) % 7) - 3) for j in range(n)] for i in range(n)]
        cplx = [[complex((i + 2 * j) % 3 - 1, (2 * i + j) % 3 - 1) for j in range(n)] for i in range(n)]
        out += [ident, cyc, upper, full, cplx]
    out += [[[float(i * 5 + j) for j in range(5)] for i in range(2)],           # 2x5
            [[complex(i, j) for j in range(2)] for i in range(5)],              # 5x2
            [1.0, -2.0, 2.0, 0.0, 4.0], [float(k % 3 - 1) for k in range(10)], [complex(k, -k) for k in range(7)]]
    return out


class LargerArrays(C15Family):
    name = 'arrays_beyond_the_enumerated_sizes'
    rule = ('sizes just beyond the exhaustive bound: identity, cyclic permutation, upper triangular, a full integer-valued '
            'and a complex matrix of size 4x4, 5x5 and 6x6, a 2x5 and a 5x2 matrix, vectors of length 5, 7 and 10 x '
            'the ten array functions of the matrix table (Leibniz determinant over all n! permutations); '
            'non-trivial = value (or mandatory error) demanded')

    def cases(self, tier):
        for k in range(len(_larger_specimens())):
            for fname in ARRAY_FUNCS:
                yield ('matrix', fname, k)

    def describe(self, case):
        a = _larger_specimens()[case[2]]
        return {'call': '%s(<array of shape %s>)' % (case[1], 'x'.join(map(str, ref.shape_of(a)))), 'array': repr(a)}

    def check(self, case):
        table, fname, k = case
        a = _larger_specimens()[k]
        out, bad = self.env.call(table, fname, [enc_arr(a)])
        return judge_array_func(self.env, fname, out, bad, expect_array_func(fname, a, table), 'larger',
                                shapetag(ref.shape_of(a)))


def families(tier):
    fams = [
        TablesAndConstants(),
        UnaryGrid('formula'),
        UnaryGrid('matrix'),
        NumericalGraderEndToEnd(),
        Arctan2Family(),
        KroneckerFamily(),
        MinMaxFamily(),
        ArrayFuncs('vectors_len2to4_pal4', [(2,), (3,), (4,)], PAL4,
                   funcs=['norm', 'abs', 'trans', 'ctrans', 'adj', 're', 'im', 'conj']),
        ArrayFuncs('matrices_2x2_pal4', [(2, 2)], PAL4),
        ArrayFuncs('matrices_3x3_binary', [(3, 3)], PAL_BIN, funcs=['det', 'trace', 'trans', 'norm']),
        ArrayFuncs('matrices_nonsquare_binary', [(2, 3), (3, 2), (1, 3), (3, 1)], PAL_BIN),
        CrossFamily('cross_real_pal3', PAL3R, ('quick', 'thorough')),
        WrongShapes(),
        Arity(),
        ScalarLike(),
        OneElementArrays(),
        TypedArguments(),
        OtherTablesGrid('numerical'),
        BoundaryNeighbours(),
        ArrayDtypes(),
        ArrayMagnitudes(),
        CrossSmall(),
        LargerArrays(),
        MatrixGraderEndToEnd(),
    ]
    if tier == 'thorough':
        fams += [
            OtherTablesGrid('matrix+user'),
            ArrayFuncs('matrices_3x3_real_pal3', [(3, 3)], PAL3R, tiers=('thorough',),
                       funcs=['det', 'trace', 'trans', 'norm']),
            ArrayFuncs('matrices_3x3_complex_pal3', [(3, 3)], PAL3C, tiers=('thorough',),
                       funcs=['det', 'trace', 'ctrans', 'adj', 'norm']),
            ArrayFuncs('matrices_nonsquare_pal3', [(2, 3), (3, 2)], [0.0, 1j, -2.0], tiers=('thorough',)),
            ArrayFuncs('matrices_4x4_binary', [(4, 4)], PAL_BIN, tiers=('thorough',),
                       funcs=['det', 'trace', 'trans']),
            CrossFamily('cross_complex_pal4', PAL4, ('thorough',)),
        ]
    return fams
