"""
C15 -- built-in functions and constants agree with their mathematical definitions.

ENUM: every entry of the default function tables of FormulaGrader / NumericalGrader / MatrixGrader
(taken from grader INSTANCES: `.functions`, `.constants`) is evaluated through the real
`evaluator('f(a, b, ...)', variables, functions)` on every point of fixed finite grids, and compared with
the textbook definition written in mcv/refs/c15_ref.py (cmath/math/itertools only).

Cases are JSON: numbers are ['r', x] (real-typed python float) or ['c', re, im] (complex-typed);
arrays are ['A', shape, re_flat, im_flat_or_None].
"""
import math
import itertools
import warnings
import numbers

import numpy as np

from ..core import Family, Result, viol
from ..refs import c15_ref as ref

PROPERTY = 'C15'
RULE = ('every (table, function, argument tuple) of each family is enumerated from fixed grids: reals incl. 0, '
        'tiny, huge, pole and branch-point neighbourhoods, a complex lattice, both sides of every branch cut, '
        'signed zeros; pairs/triples of a 9-value grid for arctan2/kronecker/min/max; all small matrices/vectors '
        'over small palettes; every wrong arity 0..4 and every wrong-shape specimen.  A case is non-trivial when '
        'the oracle pins the outcome down (a definite value / identity, or a mandatory error); cases where the '
        'statement leaves the outcome open (error OR value) count as trivial unless a value was returned and checked')
EXPLANATION = ('states = distinct (table, function, arguments) cases; transitions = executions of the real evaluator '
               '(or of a real NumericalGrader) -- every case runs the implementation')
ASSUMPTIONS = [
    'cmath/math of the interpreter are the trusted base for sin, cos, tan, sinh, cosh, tanh, exp, atan2, floor, ceil',
    'values compared with rtol 1e-9 (+1e-13*min(1,|z|) absolute); inverse functions by the identity f(w)=z with a '
    'tolerance that accounts for the conditioning |f\'(w)|*1e-15*max(1,|w|), closed principal region +-1e-9',
    'where that identity cannot be verified in floating point because the inverse saturates (arctan(1e200) = pi/2 '
    'to the last bit) the value is compared with the principal value of cmath instead, either side of a cut accepted',
    'no branch convention imposed on branch cuts (either limit accepted); arccot: both common conventions accepted',
    'an OverflowError of an intermediate of the textbook composition (sech(1000), arccsch(1e-320)) may surface as a '
    'student-facing error instead of the underflowed/finite value',
    'real argument outside the real domain: complex continuation is demanded only for sqrt, ln, log10, log2 '
    '(as the statement says); for the other inverse functions a student-facing error or the continued value is accepted',
    'floor/ceil/min/max/arctan2 on complex-typed arguments with zero imaginary part: error or the real value',
    'transpose of a vector / of a tensor: error or the unchanged (conjugated) array -- not a textbook notion',
    'a one-element array [x] / [[x]] given to a scalar function: a student-facing error or the NUMBER f(x); a number '
    'given to trans/ctrans/adj: the number (its conjugate) or a student-facing error',
    'numpy scalar types (np.float64) are accepted as numbers; ndarrays (also 0-d) are not',
    'fact/factorial excluded (scipy unavailable)',
    'exact exception subclass is left free: any StudentFacingError counts as a student-facing error',
    'a finite grid: nothing is claimed between grid points',
]

PI = math.pi


# ----------------------------------------------------------------------------------------------- encoding

def R(x):
    return ['r', float(x)]


def C(x, y=0.0):
    return ['c', float(x), float(y)]


def enc_num(v):
    if isinstance(v, complex):
        return C(v.real, v.imag)
    return R(v)


def enc_arr(nested):
    fl = ref.flat(nested)
    shape = list(ref.shape_of(nested))
    if any(isinstance(x, complex) for x in fl):
        return ['A', shape, [float(complex(x).real) for x in fl], [float(complex(x).imag) for x in fl]]
    return ['A', shape, [float(x) for x in fl], None]


def _nest(flatvals, shape):
    if not shape:
        return flatvals[0]
    if len(shape) == 1:
        return list(flatvals[:shape[0]])
    step = 1
    for s in shape[1:]:
        step *= s
    return [_nest(flatvals[i * step:(i + 1) * step], shape[1:]) for i in range(shape[0])]


def dec(e):
    """encoded argument -> python value (float / complex / nested list)"""
    if e[0] == 'r':
        return float(e[1])
    if e[0] == 'c':
        return complex(e[1], e[2])
    _, shape, re_, im_ = e
    vals = [float(x) for x in re_] if im_ is None else [complex(a, b) for a, b in zip(re_, im_)]
    return _nest(vals, list(shape))


def show(e):
    v = dec(e)
    return repr(v)


NAMES = 'abcd'


class Env(object):
    """per-process handles on the code under test"""
    def __init__(self):
        from mitxgraders import FormulaGrader, NumericalGrader, MatrixGrader
        from mitxgraders.exceptions import StudentFacingError
        from mitxgraders.helpers.calc.expressions import evaluator
        from mitxgraders.helpers.calc.math_array import MathArray
        self.evaluator = evaluator
        self.MathArray = MathArray
        self.SFE = StudentFacingError
        self.NumericalGrader = NumericalGrader
        self.graders = {'formula': FormulaGrader(answers='1'),
                        'numerical': NumericalGrader(answers='1'),
                        'matrix': MatrixGrader(answers='1')}
        self.functions = {k: g.functions for k, g in self.graders.items()}
        self.constants = {k: g.constants for k, g in self.graders.items()}

    def to_lib(self, e):
        v = dec(e)
        if isinstance(v, list):
            return self.MathArray(v)
        return v

    def call(self, table, fname, args):
        """evaluate fname(args...) through the real evaluator.  -> ('ok', value) | ('err', exc), warnings"""
        variables = {NAMES[i]: self.to_lib(a) for i, a in enumerate(args)}
        formula = '%s(%s)' % (fname, ', '.join(NAMES[:len(args)]))
        return self.run(formula, variables, self.functions[table])

    def run(self, formula, variables, functions):
        with warnings.catch_warnings(record=True) as wl:
            warnings.simplefilter('always')
            try:
                out = ('ok', self.evaluator(formula, variables=variables, functions=functions, suffixes={})[0])
            except Exception as e:      # noqa: everything the library raises is judged
                out = ('err', e)
        bad = [w for w in wl if issubclass(w.category, RuntimeWarning)]
        return out, bad


def errname(e):
    return type(e).__name__


def classify_number(v):
    """-> ('num', python complex) | ('array', shape) | ('other', typename)"""
    if isinstance(v, bool):
        return ('other', 'bool')
    if isinstance(v, np.ndarray):
        return ('array', tuple(v.shape))
    if isinstance(v, (numbers.Number, np.number)):
        return ('num', complex(v))
    return ('other', type(v).__name__)


def judge_common(env, fname, out, bad, tag):
    """
    Checks that hold for every call whatever the expectation: no numpy warning, errors are student-facing.
    Returns a Result for a violation, or None.
    """
    if bad:
        return Result('warning', True, viol('%s:%s:numpy-warning' % (tag, fname),
                                            'a numpy RuntimeWarning was emitted: %s' % bad[0].message,
                                            'no warning', str(bad[0].message)))
    if out[0] == 'err' and not isinstance(out[1], env.SFE):
        return Result('raw-exception', True,
                      viol('%s:%s:raw-%s' % (tag, fname, errname(out[1])),
                           'a non-student-facing %s escaped: %s' % (errname(out[1]), out[1]),
                           'value or StudentFacingError', '%s: %s' % (errname(out[1]), out[1])))
    return None


def site_sig(tag, fname, ztype, failure):
    """
    Stable signature of a violation: where (family tag, function), input class, kind of failure.
    One implementation site gets one signature: the Frobenius-norm based abs/norm of the matrix table squares its
    argument, so numbers below 1e-154 / above 1e154 under/overflow -- whatever the symptom (0 or overflow error).
    """
    if fname in ('abs', 'norm') and ('tiny' in ztype or 'huge' in ztype) and (
            tag.startswith('scalar-like') or tag == 'unary[matrix]'):
        return 'matrix-table:abs-norm:extreme-magnitude-number'
    return '%s:%s:%s:%s' % (tag, fname, ztype, failure)


def judge_scalar(env, fname, out, bad, exp, tag, ztype):
    """compare one evaluation with an Expectation whose value is a NUMBER"""
    r = judge_common(env, fname, out, bad, tag)
    if r is not None:
        return r
    if out[0] == 'err':
        if exp.kind == 'value':
            return Result('error-in-domain', True,
                          viol(site_sig(tag, fname, ztype, 'error-in-domain'),
                               '%s raised for an argument in the domain: %s' % (errname(out[1]), out[1]),
                               'a value', '%s: %s' % (errname(out[1]), out[1])))
        return Result('err:' + errname(out[1]), exp.kind == 'error')
    kind, val = classify_number(out[1])
    if kind == 'array':
        sig = '%s:%s:array-returned-for-number' % (tag, fname)
        if tag == 'one-element-array':
            # one site (SpecifyDomain's wrapper hands the un-coerced array to the function): one signature
            sig = 'one-element-array:scalar-function-returns-array'
        return Result('array-returned', True,
                      viol(sig,
                           'an array of shape %s was returned where a number (or an error) is due' % (val,),
                           'number or StudentFacingError', repr(out[1])))
    if kind == 'other':
        return Result('non-number', True, viol('%s:%s:non-number' % (tag, fname), 'returned a %s' % val,
                                               'number', repr(out[1])))
    if val != val or math.isnan(val.real) or math.isnan(val.imag):
        return Result('nan', True, viol(site_sig(tag, fname, ztype, 'nan-returned'), 'nan returned',
                                        'value or StudentFacingError', repr(out[1])))
    if math.isinf(val.real) or math.isinf(val.imag):
        return Result('inf', True, viol(site_sig(tag, fname, ztype, 'inf-returned'), 'infinity returned',
                                        'value or StudentFacingError', repr(out[1])))
    if exp.kind == 'error':
        return Result('value-at-pole', True,
                      viol(site_sig(tag, fname, ztype, 'value-outside-domain'),
                           'a value was returned where the function is undefined (%s)' % exp.why,
                           'StudentFacingError', repr(out[1])))
    why = exp.accept(val) if exp.accept else None
    if why:
        return Result('wrong-value', True, viol(site_sig(tag, fname, ztype, 'wrong-value'), why,
                                                'textbook value', repr(out[1])))
    return Result('value' if exp.kind == 'value' else 'value(open)', True)


def ztype_of(args):
    """input class used in violation signatures: real/complex typed, and tiny/huge magnitude if so"""
    v = [dec(a) for a in args]
    if any(isinstance(x, list) for x in v):
        return 'array'
    t = 'complex' if any(isinstance(x, complex) for x in v) else 'real'
    mags = [abs(x) for x in v if x != 0]
    if mags and min(mags) < 1e-150:
        return 'tiny'
    if mags and max(mags) > 1e150:
        return 'huge'
    return t


# ----------------------------------------------------------------------------------------------- grids

def real_grid(tier):
    pos = [1e-8, 0.3, 0.5, 1.0, 1.5, 2.0, 10.0, 1e8, PI / 2 - 1e-6, PI / 2 + 1e-6, PI / 2, PI,
           1 - 1e-6, 1 + 1e-6, 709.0, 1000.0, 1e-300, 1e-320, 1e200]
    if tier == 'thorough':
        pos += [k * 0.25 for k in range(1, 41) if k * 0.25 not in pos]
        pos += [1e-150, 1e150, 1e308, 710.0, 1e-6, 1e6, 2 * PI, PI - 1e-6, PI + 1e-6,
                1 - 1e-12, 1 + 1e-12, 0.9999999, 1.0000001]
    out = [0.0, -0.0]
    for p in pos:
        out += [p, -p]
    return out


def complex_points(tier):
    pts = []
    if tier == 'quick':
        lat = [k * 2.0 / 3 for k in range(-3, 4)]
    else:
        lat = [k * 0.5 for k in range(-6, 7)]
    for x in lat:
        for y in lat:
            pts.append((x, y))
    # poles and their neighbourhoods
    d = 1e-6
    for s in (1, -1):
        pts += [(0.0, s * 1.0), (0.0, s * (1 + d)), (0.0, s * (1 - d)), (d, s * 1.0), (-d, s * 1.0),
                (0.0, s * PI / 2), (0.0, s * PI), (d, s * PI / 2), (0.0, s * (PI / 2 + d)), (d, s * PI),
                (s * 1.0, d), (s * 1.0, -d), (s * PI / 2, d), (s * PI, -d), (s * d, d)]
    # both sides of every branch cut (real axis: |x|<1, |x|>1 ; imaginary axis: |y|<1, |y|>1), signed zeros
    e = 1e-9
    for c in (2.0, -2.0, 0.5, -0.5):
        pts += [(c, e), (c, -e), (c, -0.0), (e, c), (-e, c), (-0.0, c)]
    pts += [(0.0, -0.0), (-0.0, 0.0), (-0.0, -0.0), (1.0, -0.0), (-1.0, -0.0), (-0.0, 1.0), (-0.0, -1.0)]
    # large and tiny magnitudes
    pts += [(1e8, 1e8), (0.0, 1e8), (0.0, -1e8), (0.0, 1000.0), (1000.0, 1.0), (-1000.0, 1.0), (0.0, 1e-8),
            (1e-8, 1e-8), (1e-300, 1e-300), (709.0, 1.0), (1.0, 709.0), (1e8, 0.0), (-1e8, 0.0)]
    if tier == 'thorough':
        pts += [(1e-320, 0.0), (0.0, 1e-320), (1e-320, 1e-320), (1e150, 1e150), (1e200, 0.0), (0.0, 1e200),
                (1e308, 1e308), (1e308, 0.0), (0.0, -1e308), (1e-150, 1e-150), (710.0, 0.0), (0.0, 710.0),
                (1e6, 1e-6), (1e-6, 1e6), (-1e150, 1e-150)]
        for s in (1, -1):
            for t in (1, -1):
                pts += [(s * d, t * (1 + d)), (s * (1 + d), t * d), (s * (1 - d), t * d), (s * 1.0, t * 1.0),
                        (s * PI / 2, t * PI / 2)]
    seen = set()
    out = []
    for p in pts:
        k = (repr(float(p[0])), repr(float(p[1])))
        if k not in seen:
            seen.add(k)
            out.append((float(p[0]), float(p[1])))
    return out


def scalar_points(tier):
    """encoded points: every real both real-typed and complex-typed, then the complex points"""
    out = []
    seen = set()
    for x in real_grid(tier):
        out.append(R(x))
        seen.add((repr(x), repr(0.0)))
        out.append(C(x, 0.0))
    for (x, y) in complex_points(tier):
        if (repr(x), repr(y)) in seen:
            continue
        seen.add((repr(x), repr(y)))
        out.append(C(x, y))
    return out


G9 = [-10.0, -2.0, -1.0, -0.3, 0.0, 0.3, 1.0, 2.0, 10.0]
G15 = [-1e8, -10.0, -2.0, -1.0, -0.3, -1e-8, 0.0, 1e-8, 0.3, 1.0, 1.0000001, 2.0, 3.0, 10.0, 1e8]


# ----------------------------------------------------------------------------------------------- families

class C15Family(Family):
    timeout = 20.0

    def setup(self, tier):
        self.env = Env()

    def describe(self, case):
        return {'table': case[0], 'call': '%s(%s)' % (case[1], ', '.join(show(a) for a in case[2]))}


class TablesAndConstants(C15Family):
    name = 'tables_and_constants'
    rule = ('for each of the three grader tables: every documented function name is present and callable, the four '
            'constants i, j, e, pi have their standard values, and 20 constant identities (e^(i*pi) = -1, '
            'ln(e) = 1, 4*arctan(1) = pi, arctan2(-1, 0) = pi ...) evaluate to their exact textbook value; '
            'non-trivial = all')
    IDENTITIES = [('i*i', -1), ('j*j', -1), ('i-j', 0), ('e^(i*pi)', -1), ('ln(e)', 1), ('exp(1)-e', 0),
                  ('cos(pi)', -1), ('sin(pi/2)', 1), ('arccos(-1)-pi', 0), ('2*arcsin(1)-pi', 0),
                  ('4*arctan(1)-pi', 0), ('arctan2(-1, 0)-pi', 0), ('arctan2(0, 1)-pi/2', 0), ('log10(1000)', 3),
                  ('log2(8)', 3), ('sqrt(-1)-i', 0), ('abs(i)', 1), ('im(i)', 1), ('re(j)', 0), ('conj(i)+i', 0),
                  ('ln(-1)-i*pi', 0), ('pi', math.pi), ('e', math.e), ('2*pi*i', complex(0, 2 * math.pi))]

    def cases(self, tier):
        for table in ('formula', 'numerical', 'matrix'):
            names = list(ref.DOCUMENTED_FORMULA)
            if table == 'matrix':
                names += [n for n in ref.DOCUMENTED_MATRIX_EXTRA if n not in names]
            for n in names:
                yield ('has', table, n)
            for c in sorted(ref.DOCUMENTED_CONSTANTS):
                yield ('const', table, c)
            for k in range(len(self.IDENTITIES)):
                yield ('ident', table, k)

    def describe(self, case):
        if case[0] == 'ident':
            return {'table': case[1], 'formula': self.IDENTITIES[case[2]][0], 'expected': self.IDENTITIES[case[2]][1]}
        return case

    def check(self, case):
        kind, table, x = case
        env = self.env
        if kind == 'has':
            f = env.functions[table].get(x)
            if f is None or not callable(f):
                return Result('missing', True, viol('table:%s:missing-function' % x,
                                                    'documented function %s is not in the %s table' % (x, table),
                                                    'callable', repr(f)))
            return Result('present', True, None, 0)
        if kind == 'const':
            want = ref.DOCUMENTED_CONSTANTS[x]
            got = env.constants[table].get(x)
            ok = isinstance(got, numbers.Number) and abs(complex(got) - complex(want)) <= 1e-15
            if not ok:
                return Result('bad-constant', True, viol('constant:%s:wrong-value' % x,
                                                         'constant %s of the %s grader is %r' % (x, table, got),
                                                         want, got))
            return Result('const-ok', True, None, 0)
        formula, want = self.IDENTITIES[x]
        out, bad = env.run(formula, env.constants[table], env.functions[table])
        exp = ref.Expectation('value', lambda v: None if abs(complex(v) - complex(want)) <= 1e-12 else
                              '%s evaluates to %r, not %r' % (formula, v, want))
        res = judge_scalar(env, 'ident[%s]' % formula.replace(' ', ''), out, bad, exp, 'identity', 'const')
        return res


class UnaryGrid(C15Family):
    """every unary scalar function x every grid point, through one grader table"""
    def __init__(self, table):
        self.table = table
        self.name = 'unary_%s_table' % table
        self.rule = ('every unary scalar function of the %s table (35 names) x every point of the scalar grid '
                     '(reals real-typed AND complex-typed, complex lattice, pole/branch-point neighbourhoods, both '
                     'sides of each cut, signed zeros, huge/tiny); non-trivial = the oracle demands a definite value '
                     '(identity f(w)=z + closed principal region, or the direct textbook value) or demands an error; '
                     'error-or-value cases are non-trivial only when a value came back and was checked' % table)

    def cases(self, tier):
        pts = scalar_points(tier)
        for fname in ref.UNARY_SCALAR:
            for p in pts:
                yield (self.table, fname, [p])

    def check(self, case):
        table, fname, args = case
        z = dec(args[0])
        exp = ref.expect_scalar(fname, z)
        out, bad = self.env.call(table, fname, args)
        res = judge_scalar(self.env, fname, out, bad, exp, 'unary[%s]' % table, ztype_of(args))
        if res.violation is None and fname == 'arccot' and ref.is_real_typed(z) and out[0] == 'ok':
            w = complex(out[1])
            cands = ref.arccot_real_candidates(z)
            if not any(abs(w - c) <= 1e-12 for c in cands):
                return Result('wrong-value', True,
                              viol('unary:arccot:real:not-a-common-convention',
                                   'arccot(%r) = %r is not the value under either common convention' % (z, out[1]),
                                   cands, repr(out[1])))
        return res


class NumericalGraderEndToEnd(C15Family):
    name = 'numerical_grader_end_to_end'
    rule = ('every unary scalar function x a 17-point literal grid (reals and complex lattice points written as '
            'literals in the student input): NumericalGrader(answers=<value the oracle accepted>)(None, "f(lit)") '
            'must be correct, with the answer moved by 1% it must be incorrect, and where the oracle demands an '
            'error the grader must raise a StudentFacingError; non-trivial = value or mandatory error')
    LITS = [0.0, 0.3, -0.3, 0.5, 1.0, -1.0, 1.5, -2.0, 10.0, (0.0, 1.0), (0.0, -1.0), (2.0 / 3, 2.0 / 3),
            (-4.0 / 3, 2.0), (2.0, -2.0 / 3), (0.0, 0.5), (-2.0, 0.0), (1e-8, 0.0)]

    @staticmethod
    def lit(p):
        if isinstance(p, (tuple, list)):
            return '(%r+(%r)*i)' % (float(p[0]), float(p[1]))
        return '(%r)' % float(p)

    def cases(self, tier):
        for fname in ref.UNARY_SCALAR:
            for k in range(len(self.LITS)):
                yield ('numerical', fname, k)

    def describe(self, case):
        return {'input': '%s%s' % (case[1], self.lit(self.LITS[case[2]]))}

    def check(self, case):
        _, fname, k = case
        p = self.LITS[k]
        z = complex(p[0], p[1]) if isinstance(p, (tuple, list)) else float(p)
        text = '%s%s' % (fname, self.lit(p))
        env = self.env
        exp = ref.expect_scalar(fname, z)
        out, bad = env.run(text, env.constants['numerical'], env.functions['numerical'])
        res = judge_scalar(env, fname, out, bad, exp, 'literal', 'complex' if isinstance(z, complex) else 'real')
        if res.violation is not None:
            return res
        calls = 1
        if out[0] == 'err':
            try:
                got = env.NumericalGrader(answers='1')(None, text)
                return Result('grader-no-error', True,
                              viol('grader:%s:graded-where-evaluator-raises' % fname,
                                   'NumericalGrader graded %r although evaluating it raises' % text,
                                   'StudentFacingError', got), 2)
            except env.SFE:
                return Result(res.outcome + '/grader-raises', res.nontrivial, None, 2)
            except Exception as e:
                return Result('grader-raw', True, viol('grader:%s:raw-%s' % (fname, errname(e)),
                                                       'NumericalGrader raised a non-student-facing error', None,
                                                       '%s: %s' % (errname(e), e)), 2)
        v = complex(out[1])

        def ans(c):
            return '%r+(%r)*i' % (c.real, c.imag) if c.imag != 0 else repr(c.real)
        verdicts = []
        for answer in (v, v + 0.01 * max(1.0, abs(v))):
            try:
                g = env.NumericalGrader(answers=ans(answer), tolerance=1e-9 * max(1.0, abs(v)))
                verdicts.append(g(None, text)['ok'])
            except Exception as e:
                verdicts.append('%s: %s' % (errname(e), e))
            calls += 1
        if verdicts != [True, False]:
            return Result('grader-disagrees', True,
                          viol('grader:%s:verdict-disagrees-with-evaluator' % fname,
                               'NumericalGrader verdicts for answer = value / value moved by 0.1%% are %r' % verdicts,
                               [True, False], verdicts), calls)
        return Result(res.outcome + '/graded', res.nontrivial, None, calls)


class Arctan2Family(C15Family):
    name = 'arctan2_pairs'
    rule = ('arctan2(x, y) on all ordered pairs of the 9-value grid (15-value in thorough) real-typed, plus pairs '
            'with signed zeros and complex-typed pairs; the documented (x, y) order is separated by every '
            'asymmetric pair; non-trivial = x != y or a mandatory error')

    def cases(self, tier):
        g = G9 if tier == 'quick' else G15
        for table in ('formula', 'matrix'):
            for x in g:
                for y in g:
                    yield (table, 'arctan2', [R(x), R(y)])
            for x, y in ((-1.0, -0.0), (-0.0, 1.0), (-0.0, -1.0), (1.0, -0.0), (-0.0, -0.0), (0.0, -0.0), (-0.0, 0.0)):
                yield (table, 'arctan2', [R(x), R(y)])
            for x, y in ((C(1, 0), R(1)), (R(1), C(-1, 0)), (C(1, 1), R(1)), (R(2), C(0, 1)), (C(0, 0), C(0, 0))):
                yield (table, 'arctan2', [x, y])

    def check(self, case):
        table, fname, args = case
        x, y = dec(args[0]), dec(args[1])
        out, bad = self.env.call(table, fname, args)
        cplx = isinstance(x, complex) or isinstance(y, complex)
        signed_zero = any((not isinstance(v, complex)) and v == 0 and math.copysign(1, v) < 0 for v in (x, y))
        if cplx:
            xc, yc = complex(x), complex(y)
            if xc.imag != 0 or yc.imag != 0:
                exp = ref.Expectation('error', why='arctan2 of non-real arguments')
            else:
                want = ref.ref_arctan2(xc.real, yc.real)
                if want is None:
                    exp = ref.Expectation('error', why='arctan2(0, 0)')
                else:
                    exp = ref.Expectation('either', lambda v: None if abs(complex(v) - want) <= 1e-12 else
                                          'arctan2 = %r, expected %r' % (v, want))
        else:
            want = ref.ref_arctan2(x, y)
            if want is None:
                exp = ref.Expectation('error', why='arctan2(0, 0) is undefined')
            else:
                def accept(v, want=want):
                    v = complex(v)
                    if abs(v - want) <= 1e-12:
                        return None
                    if signed_zero and abs(abs(want) - PI) <= 1e-12 and abs(v + want) <= 1e-12:
                        return None     # on the cut with a negative zero: either limit
                    return 'arctan2(x=%r, y=%r) = %r; the angle of the point (x, y) is %r' % (x, y, v, want)
                exp = ref.Expectation('value', accept)
        res = judge_scalar(self.env, fname, out, bad, exp, 'binary', ztype_of(args))
        if res.violation is None and not cplx:
            res.nontrivial = (x != y) or exp.kind == 'error'
        return res


class KroneckerFamily(C15Family):
    name = 'kronecker_pairs'
    rule = ('kronecker(x, y) on all ordered pairs of the 9-value grid extended by complex values, nearly-equal '
            'floats and 0/-0; 1 exactly when the two numbers are equal; non-trivial = all')

    def cases(self, tier):
        vals = [R(v) for v in (G9 if tier == 'quick' else G15)] + [R(-0.0), R(1 + 1e-12), R(3.0), C(1, 0), C(0, 1),
                                                                  C(0, -1), C(1, 1), C(1, 1e-12), C(-2, 0)]
        for table in ('formula', 'matrix'):
            for a in vals:
                for b in vals:
                    yield (table, 'kronecker', [a, b])

    def check(self, case):
        table, fname, args = case
        x, y = dec(args[0]), dec(args[1])
        want = ref.ref_kronecker(x, y)
        out, bad = self.env.call(table, fname, args)
        exp = ref.Expectation('value', lambda v: None if complex(v) == want else
                              'kronecker(%r, %r) = %r, expected %r' % (x, y, v, want))
        return judge_scalar(self.env, fname, out, bad, exp, 'binary', ztype_of(args))


class MinMaxFamily(C15Family):
    name = 'min_max_tuples'
    rule = ('min and max on all ordered pairs and triples of the 9-value grid (thorough: 15-value grid, plus all '
            '4-tuples of a 5-value grid), plus tuples containing complex-typed numbers; non-trivial = not all '
            'arguments equal')

    def cases(self, tier):
        g = G9 if tier == 'quick' else G15
        for table in ('formula', 'matrix'):
            for fname in ('min', 'max'):
                for n in (2, 3):
                    for t in itertools.product(g, repeat=n):
                        yield (table, fname, [R(v) for v in t])
                if tier == 'thorough':
                    for t in itertools.product([-2.0, -0.3, 0.0, 1.0, 10.0], repeat=4):
                        yield (table, fname, [R(v) for v in t])
                for t in ([R(1), C(2, 0)], [C(1, 0), C(2, 0)], [R(1), C(0, 1)], [C(1, 1), C(1, -1)],
                          [R(3), R(1), C(2, 0)], [R(-0.0), R(0.0)], [R(0.0), R(-0.0)]):
                    yield (table, fname, t)

    def check(self, case):
        table, fname, args = case
        vals = [dec(a) for a in args]
        out, bad = self.env.call(table, fname, args)
        f = ref.ref_min if fname == 'min' else ref.ref_max
        if any(isinstance(v, complex) for v in vals):
            if any(complex(v).imag != 0 for v in vals):
                exp = ref.Expectation('error', why='min/max of non-real numbers')
            else:
                want = f([complex(v).real for v in vals])
                exp = ref.Expectation('either', lambda v: None if complex(v) == want else
                                      '%s = %r, expected %r' % (fname, v, want))
        else:
            want = f(vals)
            exp = ref.Expectation('value', lambda v: None if complex(v) == want else
                                  '%s%r = %r, expected %r' % (fname, tuple(vals), v, want))
        res = judge_scalar(self.env, fname, out, bad, exp, 'nary', ztype_of(args))
        if res.violation is None:
            res.nontrivial = len(set(complex(v) for v in vals)) > 1
        return res


# ---- arrays

PAL4 = [0.0, 1.0, -2.0, 1j]
PAL_BIN = [0.0, 1.0]
PAL3R = [-1.0, 0.0, 2.0]
PAL3C = [0.0, 1.0, 1j]


def all_arrays(shape, palette):
    n = 1
    for s in shape:
        n *= s
    for t in itertools.product(palette, repeat=n):
        yield _nest(list(t), list(shape))


def to_nested(v):
    """library array -> nested python list"""
    return np.asarray(v).tolist()


ARRAY_FUNCS = ['norm', 'abs', 'trans', 'ctrans', 'adj', 'det', 'trace', 're', 'im', 'conj']


def expect_array_func(fname, a, table):
    """
    Expectation for an array-accepting function on the python value a (number or nested list).
    -> (kind, ref_value, note) ; kind in 'number' / 'array' / 'error' / 'open-array' (error or this array)
       / 'open-number' / 'open' (anything student-facing)
    """
    shape = ref.shape_of(a)
    nd = len(shape)
    conj = lambda x: complex(x).conjugate()
    if fname == 'norm':
        return ('number', ref.frobenius(a), '')
    if fname == 'abs':
        if table != 'matrix':
            return ('number', ref.frobenius(a), '') if nd == 0 else ('error', None, 'abs of an array in a scalar table')
        if nd <= 1:
            return ('number', ref.frobenius(a), '')
        return ('error', None, 'abs(...) is documented for scalars and vectors only')
    if fname in ('re', 'im', 'conj'):
        f = {'re': lambda x: complex(x).real, 'im': lambda x: complex(x).imag, 'conj': conj}[fname]
        if nd == 0:
            return ('number', f(a), '')
        return ('array', ref.map_nested(f, a), '')
    if fname == 'trans':
        if nd == 2:
            return ('array', ref.transpose(a), '')
        if nd == 0:
            return ('open-number', a, 'transpose of a number')
        if nd == 1:
            return ('open-array', a, 'transpose of a vector')
        return ('open', None, 'transpose of a tensor')
    if fname in ('ctrans', 'adj'):
        if nd == 2:
            return ('array', ref.ctranspose(a), '')
        if nd == 0:
            return ('open-number', conj(a), 'adjoint of a number')
        if nd == 1:
            return ('open-array', ref.map_nested(conj, a), 'adjoint of a vector')
        return ('open', None, 'adjoint of a tensor')
    if fname in ('det', 'trace'):
        if nd == 2 and shape[0] == shape[1]:
            return ('number', (ref.det if fname == 'det' else ref.trace)(a), '')
        return ('error', None, '%s needs a square matrix' % fname)
    raise KeyError(fname)


def judge_array_func(env, fname, out, bad, expectation, tag, shapetag, scalar_input=False):
    kind, want, note = expectation
    r = judge_common(env, fname, out, bad, tag)
    if r is not None:
        return r
    if kind in ('number', 'open-number', 'error'):
        if kind == 'error':
            exp = ref.Expectation('error', why=note)
        else:
            def accept(v, want=want):
                # relative for a number argument; for arrays relative to max(1, |value|) (cancellation in det)
                scale = abs(complex(want)) if scalar_input else max(1.0, abs(complex(want)))
                if abs(complex(v) - complex(want)) <= 1e-9 * scale:
                    return None
                return '%s = %r, textbook value %r' % (fname, v, want)
            exp = ref.Expectation('value' if kind == 'number' else 'either', accept, note)
        return judge_scalar(env, fname, out, bad, exp, tag, shapetag)
    if out[0] == 'err':
        if kind == 'array':
            return Result('error-in-domain', True,
                          viol('%s:%s:%s:error-in-domain' % (tag, fname, shapetag),
                               '%s raised for an argument in the domain: %s' % (errname(out[1]), out[1]),
                               want, '%s: %s' % (errname(out[1]), out[1])))
        return Result('err:' + errname(out[1]), False)
    if kind == 'open':
        return Result('value(open)', False)
    v = out[1]
    if not isinstance(v, np.ndarray):
        return Result('number-for-array', True,
                      viol('%s:%s:%s:number-returned-for-array' % (tag, fname, shapetag),
                           'a %s was returned where an array of shape %s is due' % (type(v).__name__,
                                                                                    ref.shape_of(want)),
                           want, repr(v)))
    got = to_nested(v)
    if any(x != x for x in ref.flat(got)):
        return Result('nan', True, viol('%s:%s:nan-returned' % (tag, fname), 'nan in the result', want, got))
    if tuple(v.shape) != tuple(ref.shape_of(want)):
        return Result('wrong-shape', True,
                      viol('%s:%s:%s:wrong-shape' % (tag, fname, shapetag),
                           'result has shape %s, expected %s' % (tuple(v.shape), ref.shape_of(want)), want, got))
    if not ref.arrays_close(got, want):
        return Result('wrong-value', True, viol('%s:%s:%s:wrong-value' % (tag, fname, shapetag),
                                                '%s differs from its textbook value' % fname, want, got))
    return Result('array-value' if kind == 'array' else 'array-value(open)', True)


def shapetag(shape):
    return {0: 'scalar', 1: 'vector', 2: 'matrix'}.get(len(shape), 'tensor')


class ArrayFuncs(C15Family):
    """all arrays of given shapes over a palette x the array-accepting functions of the matrix table"""
    def __init__(self, name, shapes, palette, tiers=('quick', 'thorough'), funcs=ARRAY_FUNCS, tables=('matrix',)):
        self.name = name
        self.shapes = shapes
        self.palette = palette
        self.tiers = tiers
        self.funcs = funcs
        self.tables = tables
        self.rule = ('every array of shape %s with entries from %r x functions %s of table(s) %s; reference: '
                     'Frobenius norm, transpose, conjugate transpose, Leibniz determinant, trace, elementwise '
                     're/im/conj written on python lists; non-trivial = value (or mandatory error) demanded'
                     % (' / '.join('x'.join(map(str, s)) for s in shapes), palette, funcs, list(tables)))

    def cases(self, tier):
        if tier not in self.tiers:
            return
        for table in self.tables:
            for shape in self.shapes:
                for a in all_arrays(shape, self.palette):
                    e = enc_arr(a)
                    for fname in self.funcs:
                        yield (table, fname, [e])

    def check(self, case):
        table, fname, args = case
        a = dec(args[0])
        out, bad = self.env.call(table, fname, args)
        return judge_array_func(self.env, fname, out, bad, expect_array_func(fname, a, table), 'array',
                                shapetag(ref.shape_of(a)))


class CrossFamily(C15Family):
    def __init__(self, name, palette, tiers):
        self.name = name
        self.palette = palette
        self.tiers = tiers
        self.rule = ('cross(a, b) on every ordered pair of 3-vectors with entries from %r; reference: Levi-Civita '
                     'formula; non-trivial = a x b != 0 (a swapped or sign-flipped product is distinguishable)'
                     % (palette,))

    def cases(self, tier):
        if tier not in self.tiers:
            return
        vecs = [enc_arr(v) for v in all_arrays((3,), self.palette)]
        for a in vecs:
            for b in vecs:
                yield ('matrix', 'cross', [a, b])

    def check(self, case):
        table, fname, args = case
        a, b = dec(args[0]), dec(args[1])
        want = ref.cross(a, b)
        out, bad = self.env.call(table, fname, args)
        res = judge_array_func(self.env, fname, out, bad, ('array', want, ''), 'array', 'vec3xvec3')
        if res.violation is None:
            res.nontrivial = any(complex(x) != 0 for x in want)
        return res


# ---- wrong shapes, arity, scalar-like arrays

SPECIMENS = {
    's': 2.0,
    'c': complex(1, 2),
    'v2': [3.0, -4.0],
    'v3': [1.0, 2.0, 3.0],
    'w3': [1j, 2.0, -1.0],
    'v4': [1.0, 2.0, 3.0, 4.0],
    'm22': [[1.0, 2.0], [3.0, 4.0]],
    'c22': [[1j, 2.0], [3.0, complex(4, -1)]],
    'm23': [[1.0, 2.0, 3.0], [4.0, 5.0, 6.0]],
    'm32': [[1.0, 2.0], [3.0, 4.0], [5.0, 6.0]],
    'm33': [[2.0, 0.0, 1.0], [1.0, 3.0, 2.0], [1.0, 1.0, 1.0]],
    't222': [[[1.0, 2.0], [3.0, 4.0]], [[5.0, 6.0], [7.0, 8.0]]],
}
ARRAY_SPECIMENS = ['v2', 'v3', 'w3', 'v4', 'm22', 'c22', 'm23', 'm32', 'm33', 't222']


def enc_spec(k):
    v = SPECIMENS[k]
    return enc_arr(v) if isinstance(v, list) else enc_num(v)


class WrongShapes(C15Family):
    name = 'wrong_shapes'
    rule = ('both the formula and the matrix table: every unary scalar function x 10 array specimens (vectors of '
            'length 2,3,4, real/complex 2x2, 2x3, 3x2, 3x3, 2x2x2) must raise a student-facing error; arctan2, '
            'kronecker, min, max with an array in any position likewise; det/trace x non-square/vector/scalar/tensor, '
            'cross x every pair of specimens that is not (vec3, vec3), abs(matrix) likewise; re/im/conj/norm/trans.. '
            'on every specimen return the elementwise / textbook value; non-trivial = all except the open '
            'vector/tensor transposes')

    def cases(self, tier):
        for table in ('formula', 'matrix'):
            for fname in ref.UNARY_SCALAR:
                if fname in ('re', 'im', 'conj') or (fname == 'abs' and table == 'matrix'):
                    continue
                for k in ARRAY_SPECIMENS:
                    yield (table, fname, [enc_spec(k)], 'error')
            for fname in ('arctan2', 'kronecker', 'min', 'max'):
                for k in ARRAY_SPECIMENS:
                    yield (table, fname, [enc_spec(k), R(1.0)], 'error')
                    yield (table, fname, [R(1.0), enc_spec(k)], 'error')
                    yield (table, fname, [enc_spec(k), enc_spec(k)], 'error')
                if fname in ('min', 'max'):
                    for k in ('v2', 'm22'):
                        yield (table, fname, [R(1.0), R(2.0), enc_spec(k)], 'error')
            funcs = ARRAY_FUNCS if table == 'matrix' else ['re', 'im', 'conj', 'abs']
            for fname in funcs:
                for k in ARRAY_SPECIMENS:
                    yield (table, fname, [enc_spec(k)], 'arrayfunc')
        keys = ['s', 'v2', 'v3', 'w3', 'v4', 'm22', 'm33', 'm32']
        for ka in keys:
            for kb in keys:
                yield ('matrix', 'cross', [enc_spec(ka), enc_spec(kb)], 'cross')

    def describe(self, case):
        d = C15Family.describe(self, case)
        d['expect'] = case[3]
        return d

    def check(self, case):
        table, fname, args, mode = case
        env = self.env
        out, bad = env.call(table, fname, args)
        vals = [dec(a) for a in args]
        st = '+'.join(shapetag(ref.shape_of(v)) for v in vals)
        if mode == 'arrayfunc':
            return judge_array_func(env, fname, out, bad, expect_array_func(fname, vals[0], table), 'shape', st)
        if mode == 'cross':
            if all(ref.shape_of(v) == (3,) for v in vals):
                return judge_array_func(env, fname, out, bad, ('array', ref.cross(vals[0], vals[1]), ''), 'shape', st)
            mode = 'error'
        # mode == 'error': a scalar function received an array
        r = judge_common(env, fname, out, bad, 'shape')
        if r is not None:
            return r
        if out[0] == 'ok':
            return Result('value-for-wrong-shape', True,
                          viol('shape:%s:%s:value-for-wrong-shape' % (fname, st),
                               '%s accepted argument(s) of shape %s and returned %r' % (fname, st, out[1]),
                               'StudentFacingError', repr(out[1])))
        return Result('err:' + errname(out[1]), True)


NATURAL = {'det': 'm22', 'trace': 'm22', 'trans': 'm22', 'ctrans': 'm22', 'adj': 'm22', 'norm': 'v3', 'cross': 'v3'}
ARITY_OK = {'arctan2': (2,), 'kronecker': (2,), 'cross': (2,), 'min': (2, 3, 4), 'max': (2, 3, 4)}


class Arity(C15Family):
    name = 'wrong_arity'
    rule = ('every function of the formula and of the matrix table called with 0, 1, 2, 3 and 4 arguments (scalars '
            '0.5, or the function\'s natural array argument, or that followed by 2.0s as in norm(v, 2)); with an inadmissible count a student-facing error '
            'must be raised, with an admissible count no argument-count error; non-trivial = inadmissible counts')

    def cases(self, tier):
        for table in ('formula', 'matrix'):
            names = sorted(set(ref.DOCUMENTED_FORMULA) - set(ref.EXCLUDED))
            if table == 'matrix':
                names = sorted(set(names) | set(ref.DOCUMENTED_MATRIX_EXTRA))
            for fname in names:
                for n in range(5):
                    yield (table, fname, n, 'scalar')
                    if fname in NATURAL and table == 'matrix' and n > 0:
                        yield (table, fname, n, 'natural')
                        if n > 1:
                            yield (table, fname, n, 'natural-then-2')    # e.g. norm(v, 2), trans(m, 2)

    def describe(self, case):
        return {'table': case[0], 'function': case[1], 'nargs': case[2], 'args': case[3]}

    def check(self, case):
        table, fname, n, how = case
        env = self.env
        arg = enc_spec(NATURAL[fname]) if how != 'scalar' else R(0.5)
        if n == 0:
            out, bad = env.run('%s()' % fname, {}, env.functions[table])
        elif how == 'natural-then-2':
            out, bad = env.call(table, fname, [arg] + [R(2.0)] * (n - 1))
        else:
            out, bad = env.call(table, fname, [arg] * n)
        r = judge_common(env, fname, out, bad, 'arity')
        if r is not None:
            return r
        ok_counts = ARITY_OK.get(fname, (1,))
        if n in ok_counts:
            from mitxgraders.helpers.calc.exceptions import ArgumentError
            if out[0] == 'err' and isinstance(out[1], ArgumentError):
                return Result('arity-error-on-valid-count', True,
                              viol('arity:%s:%d-args-rejected' % (fname, n),
                                   '%s rejects the admissible argument count %d: %s' % (fname, n, out[1]),
                                   'no ArgumentError', str(out[1])))
            return Result('admissible:' + ('err:' + errname(out[1]) if out[0] == 'err' else 'value'), False)
        if out[0] == 'ok':
            return Result('value-for-wrong-count', True,
                          viol('arity:%s:%d-args-accepted' % (fname, n),
                               '%s accepted %d argument(s) and returned %r' % (fname, n, out[1]),
                               'StudentFacingError', repr(out[1])))
        return Result('err:' + errname(out[1]), True)


class OneElementArrays(C15Family):
    name = 'one_element_arrays'
    rule = ('boundary of the shape rules: the one-element arrays [x] and [[x]] given to every unary scalar function '
            'and to arctan2/kronecker/min/max in both tables -- either a student-facing error (wrong shape) or the '
            'NUMBER f(x) (if the library treats them as numbers), never an array; x from {0.5, -2, 1+2i}; '
            'non-trivial = all')
    XS = [0.5, -2.0, complex(1, 2)]

    def cases(self, tier):
        for table in ('formula', 'matrix'):
            for fname in ref.UNARY_SCALAR:
                if fname in ('re', 'im', 'conj') or (fname == 'abs' and table == 'matrix'):
                    continue
                for x in self.XS:
                    for wrap in (1, 2):
                        yield (table, fname, [enc_arr([x] if wrap == 1 else [[x]])])
            for fname in ('arctan2', 'kronecker', 'min', 'max'):
                for x in self.XS[:2]:
                    yield (table, fname, [enc_arr([x]), R(1.0)])
                    yield (table, fname, [R(1.0), enc_arr([[x]])])

    def check(self, case):
        table, fname, args = case[:3]
        env = self.env
        out, bad = env.call(table, fname, args)
        vals = [dec(a) for a in args]
        nums = [ref.flat(v)[0] if isinstance(v, list) else v for v in vals]
        if len(nums) == 1:
            inner = ref.expect_scalar(fname, nums[0])
        else:
            x, y = nums[0], nums[1]
            if fname == 'arctan2':
                want = ref.ref_arctan2(x, y)
                inner = ref.Expectation('value', lambda v: None if abs(complex(v) - want) <= 1e-12 else 'wrong angle')
            elif fname == 'kronecker':
                want = ref.ref_kronecker(x, y)
                inner = ref.Expectation('value', lambda v: None if complex(v) == want else 'wrong delta')
            else:
                want = (ref.ref_min if fname == 'min' else ref.ref_max)(nums)
                inner = ref.Expectation('value', lambda v: None if complex(v) == want else 'wrong extremum')
        # a one-element array may be refused (wrong shape) or treated as the number it contains
        exp = ref.Expectation('either' if inner.kind != 'error' else 'error', inner.accept, inner.why)
        res = judge_scalar(env, fname, out, bad, exp, 'one-element-array', 'array')
        res.nontrivial = True
        return res


class ScalarLike(C15Family):
    name = 'numbers_into_matrix_functions'
    rule = ('numbers x (0.5, -2, 1+2i, 1e-300, 1e200) given to the matrix-table functions norm, abs, trans, ctrans, '
            'adj, det, trace, re, im, conj, and the 1x1 matrices [[x]] / length-1 vectors [x] given to them: norm and '
            'abs give |x|, the transposes x (conj x) as a NUMBER for a number, det/trace of [[x]] give x, det/trace '
            'of a number or vector are refused; non-trivial = all')
    XS = [0.5, -2.0, complex(1, 2)]

    def cases(self, tier):
        for fname in ARRAY_FUNCS:
            for x in self.XS + ([1e-300, 1e200] if fname != 'abs' else []):     # abs: see the unary grid
                yield ('matrix', fname, [enc_num(x)], 'number-' + ztype_of([enc_num(x)]))
            for x in self.XS:
                yield ('matrix', fname, [enc_arr([[x]])], '1x1')
                yield ('matrix', fname, [enc_arr([x])], 'len1')

    def describe(self, case):
        d = C15Family.describe(self, case)
        d['kind'] = case[3]
        return d

    def check(self, case):
        table, fname, args, mode = case
        env = self.env
        out, bad = env.call(table, fname, args)
        vals = [dec(a) for a in args]
        return judge_array_func(env, fname, out, bad, expect_array_func(fname, vals[0], table), 'scalar-like', mode,
                                scalar_input=not isinstance(vals[0], list))


def families(tier):
    fams = [
        TablesAndConstants(),
        UnaryGrid('formula'),
        UnaryGrid('matrix'),
        NumericalGraderEndToEnd(),
        Arctan2Family(),
        KroneckerFamily(),
        MinMaxFamily(),
        ArrayFuncs('vectors_len2to4_pal4', [(2,), (3,), (4,)], PAL4,
                   funcs=['norm', 'abs', 'trans', 'ctrans', 'adj', 're', 'im', 'conj']),
        ArrayFuncs('matrices_2x2_pal4', [(2, 2)], PAL4),
        ArrayFuncs('matrices_3x3_binary', [(3, 3)], PAL_BIN, funcs=['det', 'trace', 'trans', 'norm']),
        ArrayFuncs('matrices_nonsquare_binary', [(2, 3), (3, 2), (1, 3), (3, 1)], PAL_BIN),
        CrossFamily('cross_real_pal3', PAL3R, ('quick', 'thorough')),
        WrongShapes(),
        Arity(),
        ScalarLike(),
        OneElementArrays(),
    ]
    if tier == 'thorough':
        fams += [
            ArrayFuncs('matrices_3x3_real_pal3', [(3, 3)], PAL3R, tiers=('thorough',),
                       funcs=['det', 'trace', 'trans', 'norm']),
            ArrayFuncs('matrices_3x3_complex_pal3', [(3, 3)], PAL3C, tiers=('thorough',),
                       funcs=['det', 'trace', 'ctrans', 'adj', 'norm']),
            ArrayFuncs('matrices_nonsquare_pal3', [(2, 3), (3, 2)], [0.0, 1j, -2.0], tiers=('thorough',)),
            ArrayFuncs('matrices_4x4_binary', [(4, 4)], PAL_BIN, tiers=('thorough',),
                       funcs=['det', 'trace', 'trans']),
            CrossFamily('cross_complex_pal4', PAL4, ('thorough',)),
        ]
    return fams
