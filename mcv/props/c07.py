"""
C07 -- SingleListGrader scores a delimited list by the documented credit formula.

ENUM: every expected list (1-3 items, with item alternatives / item partial credit) x every
submission of 1-5 symbols over {a, b, c, z, blank} x 16 flag sets x delimiters x answer forms,
graded by the real SingleListGrader over the author-level TableGrader, and compared with the
closed-form credit formula evaluated with a brute-force matching.
"""
import itertools
from ..core import Family, Result, viol, HarnessError
from ..fixtures import TableGrader

from mitxgraders import SingleListGrader, StringGrader
from mitxgraders.exceptions import MissingInput, ConfigError

PROPERTY = 'C07'
RULE = ('expected lists x all submissions up to a length x all 16 flag sets; non-trivial = the submission is not '
        'simply the expected list (some item missing, surplus, permuted, partially credited or blank)')
EXPLANATION = ('states = distinct (configuration, submission) cases; transitions = real SingleListGrader calls')
ASSUMPTIONS = ['item credits come from a fixed table: self-match 1, a<->b 1/2, z never matches',
               'when several optimal matchings exist and they differ in whether every item earned credit, '
               'the presence of the answer-level message is not constrained',
               'grades compared within 1e-9']

EPS = 1e-9
ITEMS = ['a', 'b', 'c', 'z', '']
TABLE = {('a', 'a'): 1, ('b', 'b'): 1, ('c', 'c'): 1, ('a', 'b'): 0.5, ('b', 'a'): 0.5}


def item_credit(expected_spec, s):
    """expected_spec: list of (alt, credit) alternatives for one expected item"""
    return max(TABLE.get((alt, s), 0) * c for alt, c in expected_spec)


def formula(expected_specs, submitted, ordered, partial_credit, credit=item_credit):
    """returns (bracket, msg_must, msg_may): the documented credit formula with a brute-force matching"""
    n_exp, n_sub = len(expected_specs), len(submitted)
    N = max(n_exp, n_sub)
    M = [[credit(expected_specs[k], submitted[j]) if (j < n_sub and k < n_exp) else 0
          for k in range(N)] for j in range(N)]
    if ordered:
        matchings = [tuple(range(N))]
    else:
        matchings = list(itertools.permutations(range(N)))
    best = max(sum(M[j][p[j]] for j in range(N)) for p in matchings)
    awarded = [all(M[j][p[j]] > 0 for j in range(N)) for p in matchings
               if abs(sum(M[j][p[j]] for j in range(N)) - best) <= EPS]
    surplus = max(0, n_sub - n_exp)
    bracket = max(0.0, (best - surplus) / float(n_exp))
    if not partial_credit and bracket < 1 - EPS:
        bracket = 0.0
    return bracket, all(awarded), any(awarded)


# expected-list pool: (python answers value, reference spec)
def spec_of(items):
    out = []
    for it in items:
        if isinstance(it, tuple):
            out.append([(x, 1) for x in it])
        elif isinstance(it, dict):
            out.append([(it['expect'], it['grade_decimal'])])
        else:
            out.append([(it, 1)])
    return out


def expected_pool(maxlen):
    pool = []
    for L in range(1, maxlen + 1):
        for seq in itertools.permutations(['a', 'b', 'c'], L):
            pool.append(list(seq))
    pool.append([('a', 'b'), 'c'])
    pool.append([{'expect': 'a', 'grade_decimal': 0.5}, 'b'])
    pool.append([('a', 'c'), ('b', 'c')])
    if maxlen >= 3:
        pool.append([('a', 'b'), 'c', {'expect': 'b', 'grade_decimal': 0.5}])
    return pool


FLAGSETS = list(itertools.product((False, True), repeat=4))     # ordered, partial_credit, length_error, missing_error


def render(sub, delim):
    return delim.join(sub)


def judge(grader_result, exp_grade, msg_must, msg_may, ans_msg, where, tag):
    kind, payload = grader_result
    if kind != 'ok':
        return viol(tag + ':raised', '%s: raised %s' % (where, payload), exp_grade, payload)
    res = payload
    if abs(res['grade_decimal'] - exp_grade) > EPS:
        return viol(tag + ':grade', '%s: grade %r, formula gives %r' % (where, res['grade_decimal'], exp_grade), exp_grade, res)
    exp_ok = {0: False, 1: True}.get(round(exp_grade, 12), 'partial')
    if res['ok'] != exp_ok:
        return viol(tag + ':ok-flag', '%s: ok %r for grade %r' % (where, res['ok'], exp_grade), exp_ok, res)
    has = ans_msg != '' and ans_msg in res['msg']
    if ans_msg != '':
        if msg_must and not has:
            return viol(tag + ':answer-message-missing', '%s: every item earned credit but the answer message is absent (%r)'
                        % (where, res['msg']), ans_msg, res['msg'])
        if not msg_may and has:
            return viol(tag + ':answer-message-undeserved', '%s: answer message shown although not every item earned credit' % where,
                        '', res['msg'])
    return None


def call(g, expect, s):
    try:
        return ('ok', g(expect, s))
    except MissingInput as e:
        return ('missing', str(e))
    except Exception as e:
        return ('other', '%s: %s' % (type(e).__name__, e))


class Flat(Family):
    timeout = 30.0

    def __init__(self, name, delim, form, answer_credit, tiers=('quick', 'thorough')):
        self.name = name
        self.delim = delim
        self.form = form           # 'list' | 'string' | 'infer'
        self.c = answer_credit
        self.tiers = tiers
        self.rule = ('expected lists (all ordered selections of 1..3 [quick 2] of a,b,c + lists with item alternatives and item '
                     'partial credit) x every submission of 1..5 [quick 4] symbols over {a,b,c,z,blank} x 16 flag sets; delimiter %r, '
                     'answers given as %s, answer credit %r with message; oracle = closed-form formula with brute-force matching'
                     % (delim, form, answer_credit))

    def setup(self, tier):
        self.pool = expected_pool(2 if tier == 'quick' else 3)
        self.graders = {}

    def grader(self, ei, flags):
        key = (ei, flags)
        if key not in self.graders:
            items = self.pool[ei]
            ordered, pc, le, me = flags
            sub = TableGrader(table=TABLE)
            kw = dict(subgrader=sub, ordered=ordered, partial_credit=pc, length_error=le, missing_error=me,
                      delimiter=self.delim)
            if self.form == 'list':
                kw['answers'] = {'expect': list(items), 'grade_decimal': self.c, 'msg': 'AM'}
            elif self.form == 'string':
                kw['answers'] = {'expect': self.delim.join(items), 'grade_decimal': self.c, 'msg': 'AM'}
            self.graders[key] = SingleListGrader(**kw)
        return self.graders[key]

    def cases(self, tier):
        if tier not in self.tiers:
            return
        pool = expected_pool(2 if tier == 'quick' else 3)
        maxsub = 4 if tier == 'quick' else 5
        for ei, items in enumerate(pool):
            plain = all(isinstance(x, str) for x in items)
            if self.form != 'list' and not plain:
                continue
            for L in range(1, maxsub + 1):
                for sub in itertools.product(range(len(ITEMS)), repeat=L):
                    yield (ei, sub)

    def describe(self, case):
        ei, sub = case
        return {'expected': repr(self.pool[ei]) if hasattr(self, 'pool') else ei,
                'submission': render([ITEMS[i] for i in sub], self.delim)}

    def check(self, case):
        ei, sub = case
        items = self.pool[ei]
        specs = spec_of(items)
        submitted = [ITEMS[i] for i in sub]
        text = render(submitted, self.delim)
        nontriv = submitted != [x for x in items if isinstance(x, str)] or len(submitted) != len(items)
        calls = 0
        outcome = None
        for flags in FLAGSETS:
            ordered, pc, le, me = flags
            g = self.grader(ei, flags)
            calls += 1
            if self.form == 'infer':
                got = call(g, self.delim.join(items), text)
                c, ans_msg = 1, ''
            else:
                got = call(g, None, text)
                c, ans_msg = self.c, 'AM'
            where = 'expected %r, submission %r, ordered=%s partial_credit=%s length_error=%s missing_error=%s' % (
                items, text, ordered, pc, le, me)
            must_raise = (le and len(submitted) != len(items)) or (me and any(s.strip() == '' for s in submitted))
            if must_raise:
                if got[0] != 'missing':
                    return Result('noerror', nontriv,
                                  viol('flat:error-expected-but-graded' if got[0] == 'ok' else 'flat:wrong-error-class',
                                       '%s: expected a MissingInput error, got %r' % (where, got), 'MissingInput', got), calls)
                outcome = outcome or 'error'
                continue
            bracket, must, may = formula(specs, submitted, ordered, pc)
            v = judge(got, c * bracket, must, may, ans_msg, where, 'flat')
            if v:
                return Result('wrong', nontriv, v, calls)
            if not (le or me):
                outcome = 'g=%.3g' % (c * bracket)
        return Result(outcome or 'error', nontriv, None, calls)


class TwoAnswerLists(Family):
    name = 'alternative_lists'
    timeout = 30.0
    rule = ('two alternative expected lists (full credit list L1 with message M1, second list L2 worth 0.5 with message M2), '
            'all pairs of 2-item lists from the pool x every submission of 1..4 symbols x ordered/partial_credit: grade = max '
            'over the two lists of credit x formula')

    def setup(self, tier):
        self.lists = [list(p) for p in itertools.permutations(['a', 'b', 'c'], 2)]
        self.graders = {}

    def cases(self, tier):
        n = 6
        maxsub = 3 if tier == 'quick' else 4
        for i in range(n):
            for j in range(n):
                if i == j:
                    continue
                for L in range(1, maxsub + 1):
                    for sub in itertools.product(range(len(ITEMS) - 1), repeat=L):
                        yield (i, j, sub)

    def check(self, case):
        i, j, sub = case
        L1, L2 = self.lists[i], self.lists[j]
        submitted = [ITEMS[k] for k in sub]
        text = ','.join(submitted)
        calls = 0
        for ordered in (False, True):
            for pc in (False, True):
                key = (i, j, ordered, pc)
                if key not in self.graders:
                    self.graders[key] = SingleListGrader(
                        answers=({'expect': list(L1), 'msg': 'M1'}, {'expect': list(L2), 'grade_decimal': 0.5, 'msg': 'M2'}),
                        subgrader=TableGrader(table=TABLE), ordered=ordered, partial_credit=pc)
                calls += 1
                got = call(self.graders[key], None, text)
                b1, _, _ = formula(spec_of(L1), submitted, ordered, pc)
                b2, _, _ = formula(spec_of(L2), submitted, ordered, pc)
                exp = max(b1, 0.5 * b2)
                where = 'lists %r / %r(0.5), submission %r, ordered=%s partial_credit=%s' % (L1, L2, text, ordered, pc)
                if got[0] != 'ok':
                    return Result('raised', True, viol('altlists:raised', '%s: %r' % (where, got), exp, got), calls)
                if abs(got[1]['grade_decimal'] - exp) > EPS:
                    return Result('wrong', True, viol('altlists:grade', '%s: grade %r, expected %r' % (where, got[1]['grade_decimal'], exp),
                                                      exp, got[1]), calls)
        return Result('g=%.3g' % exp, True, None, calls)


INNER = [list(s) for L in (1, 2, 3) for s in itertools.product(['a', 'b', 'z'], repeat=L)]


class Nested(Family):
    name = 'nested'
    timeout = 30.0
    rule = ('one level of nesting (outer ";" inner ","), expected [[a,b],[b,a]] and [[a,b],[c]]-like lists, every submission of 2 '
            '[thorough: 1..3] outer items each an inner list of 1..3 items over {a,b,z} x outer/inner ordered x partial_credit: '
            'inner grades by the formula, outer grade by the formula over inner grades')

    EXPECTED = [[['a', 'b'], ['b', 'a']], [['a', 'b'], ['a', 'a']], [['a'], ['b']]]

    def setup(self, tier):
        self.graders = {}

    def cases(self, tier):
        outer_lens = (2,) if tier == 'quick' else (1, 2, 3)
        inner = range(len(INNER)) if tier == 'thorough' else range(12)     # quick: inner lists of <= 2 items
        for e in range(len(self.EXPECTED)):
            for L in outer_lens:
                if L == 3 and e != 0:
                    continue
                for combo in itertools.product(inner, repeat=L):
                    yield (e, combo)

    def describe(self, case):
        e, combo = case
        return {'expected': self.EXPECTED[e], 'submission': ';'.join(','.join(INNER[k]) for k in combo)}

    def check(self, case):
        e, combo = case
        expected = self.EXPECTED[e]
        submitted = [INNER[k] for k in combo]
        text = ';'.join(','.join(x) for x in submitted)
        calls = 0
        for oo, io, pc in itertools.product((False, True), repeat=3):
            key = (e, oo, io, pc)
            if key not in self.graders:
                inner = SingleListGrader(subgrader=TableGrader(table=TABLE), ordered=io, partial_credit=pc, delimiter=',')
                self.graders[key] = SingleListGrader(answers=[list(map(list, expected))][0], subgrader=inner, ordered=oo,
                                                     partial_credit=pc, delimiter=';')
            calls += 1
            got = call(self.graders[key], None, text)

            def inner_credit(exp_spec, s, io=io, pc=pc):
                # exp_spec: [(inner_expected_list_as_tuple, 1)]
                return max(formula(spec_of(list(alt)), s, io, pc)[0] * c for alt, c in exp_spec)
            specs = [[(tuple(x), 1)] for x in expected]
            N = max(len(specs), len(submitted))
            bracket, _, _ = formula(specs, submitted, oo, pc, credit=inner_credit)
            where = 'expected %r, submission %r, outer ordered=%s inner ordered=%s partial_credit=%s' % (expected, text, oo, io, pc)
            if got[0] != 'ok':
                return Result('raised', True, viol('nested:raised', '%s: %r' % (where, got), bracket, got), calls)
            if abs(got[1]['grade_decimal'] - bracket) > EPS:
                return Result('wrong', True, viol('nested:grade', '%s: grade %r, expected %r' % (where, got[1]['grade_decimal'], bracket),
                                                  bracket, got[1]), calls)
        return Result('g=%.3g' % bracket, True, None, calls)


class StringSub(Family):
    name = 'string_subgrader_spaces'
    rule = ('StringGrader subgrader (strips items): expected "cat, dog", every submission of 1..4 items over {cat, dog, " cat ", '
            'emu, blank-with-space} joined by "," or ", " x 16 flag sets; items match after stripping; blank means empty after '
            'stripping')
    WORDS = ['cat', 'dog', ' cat ', 'emu', ' ']

    def setup(self, tier):
        self.graders = {}

    def cases(self, tier):
        for L in range(1, 5 if tier == 'thorough' else 4):
            for sub in itertools.product(range(len(self.WORDS)), repeat=L):
                for sep in (0, 1):
                    yield (sub, sep)

    def check(self, case):
        sub, sep = case
        submitted = [self.WORDS[i] for i in sub]
        text = (',', ', ')[sep].join(submitted)
        calls = 0
        for flags in FLAGSETS:
            ordered, pc, le, me = flags
            if flags not in self.graders:
                self.graders[flags] = SingleListGrader(answers=['cat', 'dog'] if me else ['cat', 'dog'], subgrader=StringGrader(),
                                                       ordered=ordered, partial_credit=pc, length_error=le, missing_error=me)
            calls += 1
            got = call(self.graders[flags], None, text)
            must_raise = (le and len(submitted) != 2) or (me and any(s.strip() == '' for s in submitted))
            where = 'submission %r flags %r' % (text, flags)
            if must_raise:
                if got[0] != 'missing':
                    return Result('noerror', True, viol('stringsub:error-expected', '%s: got %r' % (where, got), 'MissingInput', got), calls)
                continue
            cr = lambda spec, s: 1 if s.strip() == spec[0][0] else 0
            bracket, _, _ = formula([[('cat', 1)], [('dog', 1)]], submitted, ordered, pc, credit=cr)
            if got[0] != 'ok' or abs(got[1]['grade_decimal'] - bracket) > EPS:
                return Result('wrong', True, viol('stringsub:grade', '%s: got %r expected grade %r' % (where, got, bracket), bracket, got), calls)
        return Result('ok', True, None, calls)


class CreditTables(Family):
    """arbitrary item credits: every table of a small alphabet, graded by the real unordered matching"""
    timeout = 30.0
    EXPECTED = ['p', 'q', 'r', 's', 'u']
    SUBMITTED = ['t0', 't1', 't2', 't3', 't4']

    def __init__(self, n_exp, n_sub, alphabet, tiers=('quick', 'thorough')):
        self.n_exp, self.n_sub, self.alphabet, self.tiers = n_exp, n_sub, tuple(alphabet), tiers
        self.name = 'credit_tables_%dx%d_%s' % (n_exp, n_sub, 'bin' if len(alphabet) == 2 else 'x'.join('%g' % a for a in alphabet))
        self.rule = ('unordered list of %d expected items, %d distinct submitted items, EVERY table of item credits over %r '
                     '(%d tables) x partial_credit on/off, answer credit 0.5 with message; oracle = closed-form formula with a '
                     'brute-force optimal assignment (the table is handed to the author-level table subgrader)'
                     % (n_exp, n_sub, list(alphabet), len(alphabet) ** (n_exp * n_sub)))

    def setup(self, tier):
        self.g = {}
        for pc in (True, False):
            sub = TableGrader(table={})
            g = SingleListGrader(answers={'expect': self.EXPECTED[:self.n_exp], 'grade_decimal': 0.5, 'msg': 'AM'},
                                 subgrader=sub, ordered=False, partial_credit=pc, delimiter=',')
            self.g[pc] = (g, g.config['subgrader'].config['table'])

    def cases(self, tier):
        if tier not in self.tiers:
            return iter(())
        return iter(range(len(self.alphabet) ** (self.n_exp * self.n_sub)))

    def table(self, case):
        k, out = case, {}
        for i in range(self.n_exp):
            for j in range(self.n_sub):
                k, d = divmod(k, len(self.alphabet))
                if self.alphabet[d]:
                    out[(self.EXPECTED[i], self.SUBMITTED[j])] = self.alphabet[d]
        return out

    def describe(self, case):
        return {'expected': self.EXPECTED[:self.n_exp], 'submission': ','.join(self.SUBMITTED[:self.n_sub]),
                'item_credit_table(expected, submitted)': {'%s,%s' % k: v for k, v in self.table(case).items()}}

    def check(self, case):
        T = self.table(case)
        specs = [[(e, 1)] for e in self.EXPECTED[:self.n_exp]]
        submitted = self.SUBMITTED[:self.n_sub]
        text = ','.join(submitted)
        outcome = None
        for pc in (True, False):
            g, live = self.g[pc]
            live.clear()
            live.update(T)
            got = call(g, None, text)
            bracket, must, may = formula(specs, submitted, False, pc, credit=lambda spec, s2: T.get((spec[0][0], s2), 0))
            where = 'expected %r, submission %r, item credits %r, unordered, partial_credit=%s' % (
                self.EXPECTED[:self.n_exp], text, {'%s,%s' % k: v for k, v in T.items()}, pc)
            v = judge(got, 0.5 * bracket, must, may, 'AM', where, 'tables')
            if v:
                return Result('wrong', True, v, 2)
            if pc:
                outcome = 'g=%.4g' % (0.5 * bracket)
        return Result(outcome, bool(T), None, 2)


def families(tier):
    return [
        Flat('flat_comma_list', ',', 'list', 1),
        Flat('flat_comma_list_half', ',', 'list', 0.5),
        Flat('flat_multichar_delim', '::', 'list', 1, tiers=('thorough',)),
        Flat('flat_delim_with_spaces', ', ', 'list', 0.5),          # a delimiter that ends in whitespace: blank first/last items
        Flat('flat_delim_space_semicolon_space', ' ; ', 'string', 1, tiers=('thorough',)),
        Flat('flat_string_answers', ',', 'string', 0.5),
        Flat('flat_inferred_expect', ',', 'infer', 1),
        TwoAnswerLists(),
        Nested(),
        StringSub(),
        CreditTables(4, 4, (0, 1)),
        CreditTables(3, 3, (0, 0.25, 0.5, 1)),
        CreditTables(2, 2, (0, 0.33, 1.0 / 3, 0.5, 0.504, 1)),          # credits closer together than half a percent
        CreditTables(3, 2, (0, 0.33, 1.0 / 3, 0.996, 1), tiers=('thorough',)),
        CreditTables(3, 4, (0, 0.5, 1), tiers=('thorough',)),
        CreditTables(4, 3, (0, 0.5, 1), tiers=('thorough',)),
        CreditTables(5, 4, (0, 1), tiers=('thorough',)),
    ]
