"""
C07 -- SingleListGrader scores a delimited list by the documented credit formula.

ENUM: every expected list (1-3 items, with item alternatives / item partial credit) x every
submission of 1-5 symbols over {a, b, c, z, blank} x 16 flag sets x delimiters x answer forms,
graded by the real SingleListGrader over the author-level TableGrader, and compared with the
closed-form credit formula evaluated with a brute-force matching.

Further families widen single dimensions of that space: options left at their documented defaults (minimal
configuration), lists of 4-5 expected and up to 7 submitted items with repeated expected items (subset-DP oracle in
refs/c07_ref.py), two-call histories of inferred expect values on a fresh grader, a delimiter alphabet (regex
metacharacters, whitespace, multi-character, non-ASCII), author objects shared between graders and graders rebuilt from
their own config, NumericalGrader/FormulaGrader as subgrader, four spellings of alternative lists with their messages,
nesting with answer messages / independent inner options / string and inferred forms / a subclass as inner grader /
blank entries, and credit tables with tiny credits and answer credits 0, 1e-7 and 1.
"""
import itertools
from ..core import Family, Result, viol, HarnessError
from ..fixtures import TableGrader

from ..refs import c07_ref

from mitxgraders import SingleListGrader, StringGrader, NumericalGrader, FormulaGrader
from mitxgraders.exceptions import MissingInput, ConfigError

PROPERTY = 'C07'
RULE = ('expected lists x all submissions up to a length x all 16 flag sets; non-trivial = the submission is not '
        'simply the expected list (some item missing, surplus, permuted, partially credited or blank)')
EXPLANATION = ('states = distinct (configuration, submission) cases; transitions = real SingleListGrader calls')
ASSUMPTIONS = ['item credits come from a fixed table: self-match 1, a<->b 1/2, z never matches',
               'when several optimal matchings exist and they differ in whether every item earned credit, '
               'the presence of the answer-level message is not constrained',
               'grades compared within 1e-9',
               'nested lists: an outer item "earned credit" for the purpose of the answer message only if every innermost '
               'item in it earned credit (docs: "The message is only shown if all of the inputs received credit")',
               'nested lists: a blank entry inside a surplus item of an ORDERED outer list is never compared; whether it '
               'raises is not constrained',
               'with several alternative lists a message may be shown only for a list that attains the returned grade',
               'long_lists: the optimal assignment is computed by a subset dynamic programme (refs/c07_ref.py) that is '
               'compared with plain enumeration of permutations on 1420 small matrices in every worker before use',
               'math_subgraders: FormulaGrader samples x five times from its default range [1,5]; x+1, 2*x and x do not agree '
               'within tolerance at all five samples for any draw (they only meet at x=1 and x=0)']

EPS = 1e-9
ITEMS = ['a', 'b', 'c', 'z', '']
TABLE = {('a', 'a'): 1, ('b', 'b'): 1, ('c', 'c'): 1, ('a', 'b'): 0.5, ('b', 'a'): 0.5}


def item_credit(expected_spec, s):
    """expected_spec: list of (alt, credit) alternatives for one expected item"""
    return max(TABLE.get((alt, s), 0) * c for alt, c in expected_spec)


def formula(expected_specs, submitted, ordered, partial_credit, credit=item_credit):
    """returns (bracket, msg_must, msg_may): the documented credit formula with a brute-force matching"""
    n_exp, n_sub = len(expected_specs), len(submitted)
    N = max(n_exp, n_sub)
    M = [[credit(expected_specs[k], submitted[j]) if (j < n_sub and k < n_exp) else 0
          for k in range(N)] for j in range(N)]
    if ordered:
        matchings = [tuple(range(N))]
    else:
        matchings = list(itertools.permutations(range(N)))
    best = max(sum(M[j][p[j]] for j in range(N)) for p in matchings)
    awarded = [all(M[j][p[j]] > 0 for j in range(N)) for p in matchings
               if abs(sum(M[j][p[j]] for j in range(N)) - best) <= EPS]
    surplus = max(0, n_sub - n_exp)
    bracket = max(0.0, (best - surplus) / float(n_exp))
    if not partial_credit and bracket < 1 - EPS:
        bracket = 0.0
    return bracket, all(awarded), any(awarded)


# expected-list pool: (python answers value, reference spec)
def spec_of(items):
    out = []
    for it in items:
        if isinstance(it, tuple):
            out.append([(x, 1) for x in it])
        elif isinstance(it, dict):
            out.append([(it['expect'], it['grade_decimal'])])
        else:
            out.append([(it, 1)])
    return out


def expected_pool(maxlen):
    pool = []
    for L in range(1, maxlen + 1):
        for seq in itertools.permutations(['a', 'b', 'c'], L):
            pool.append(list(seq))
    pool.append([('a', 'b'), 'c'])
    pool.append([{'expect': 'a', 'grade_decimal': 0.5}, 'b'])
    pool.append([('a', 'c'), ('b', 'c')])
    if maxlen >= 3:
        pool.append([('a', 'b'), 'c', {'expect': 'b', 'grade_decimal': 0.5}])
    return pool


FLAGSETS = list(itertools.product((False, True), repeat=4))     # ordered, partial_credit, length_error, missing_error
# docs/grading_lists/single_list_grader.md: "Ordered is False by default", "By default, length_error is set to False",
# missing_error: "the grader returns an error if a student's response has an empty entry ... you need to disable this
# behavior", "The default is a comma", partial_credit "is True by default"
DOCUMENTED_DEFAULTS = {'ordered': False, 'partial_credit': True, 'length_error': False, 'missing_error': True, 'delimiter': ','}


def render(sub, delim):
    return delim.join(sub)


def judge(grader_result, exp_grade, msg_must, msg_may, ans_msg, where, tag):
    kind, payload = grader_result
    if kind != 'ok':
        return viol(tag + ':raised', '%s: raised %s' % (where, payload), exp_grade, payload)
    res = payload
    if abs(res['grade_decimal'] - exp_grade) > EPS:
        return viol(tag + ':grade', '%s: grade %r, formula gives %r' % (where, res['grade_decimal'], exp_grade), exp_grade, res)
    exp_ok = {0: False, 1: True}.get(round(exp_grade, 12), 'partial')
    if res['ok'] != exp_ok:
        return viol(tag + ':ok-flag', '%s: ok %r for grade %r' % (where, res['ok'], exp_grade), exp_ok, res)
    has = ans_msg != '' and ans_msg in res['msg']
    if ans_msg != '':
        if msg_must and not has:
            return viol(tag + ':answer-message-missing', '%s: every item earned credit but the answer message is absent (%r)'
                        % (where, res['msg']), ans_msg, res['msg'])
        if not msg_may and has:
            return viol(tag + ':answer-message-undeserved', '%s: answer message shown although not every item earned credit' % where,
                        '', res['msg'])
    return None


def call(g, expect, s):
    try:
        return ('ok', g(expect, s))
    except MissingInput as e:
        return ('missing', str(e))
    except Exception as e:
        return ('other', '%s: %s' % (type(e).__name__, e))


class Flat(Family):
    timeout = 30.0

    def __init__(self, name, delim, form, answer_credit, tiers=('quick', 'thorough'), minimal=False, maxsub=None):
        self.name = name
        self.delim = delim
        self.form = form           # 'list' | 'string' | 'infer'
        self.c = answer_credit
        self.tiers = tiers
        self.minimal = minimal     # True: options whose value is the documented default are NOT passed to the grader
        self.maxsub = maxsub       # (quick, thorough) override of the submission length bound
        self.rule = ('expected lists (all ordered selections of 1..3 [quick 2] of a,b,c + lists with item alternatives and item '
                     'partial credit) x every submission of 1..5 [quick 4] symbols over {a,b,c,z,blank} x 16 flag sets; delimiter %r, '
                     'answers given as %s, answer credit %r with message; oracle = closed-form formula with brute-force matching'
                     % (delim, form, answer_credit))
        if minimal:
            self.rule += ('; MINIMAL CONFIGURATION: every option whose value equals the documented default (ordered=False, '
                          'partial_credit=True, length_error=False, missing_error=True, delimiter=",") is left out of the '
                          'constructor call, so the defaults themselves are under test; submissions of 1..%d [quick %d] symbols'
                          % (maxsub[1], maxsub[0]))

    def setup(self, tier):
        self.pool = expected_pool(2 if tier == 'quick' else 3)
        self.graders = {}

    def grader(self, ei, flags):
        key = (ei, flags)
        if key not in self.graders:
            items = self.pool[ei]
            ordered, pc, le, me = flags
            sub = TableGrader(table=TABLE)
            kw = dict(subgrader=sub, ordered=ordered, partial_credit=pc, length_error=le, missing_error=me,
                      delimiter=self.delim)
            if self.minimal:
                for opt, default in DOCUMENTED_DEFAULTS.items():
                    if kw[opt] == default and type(kw[opt]) is type(default):
                        del kw[opt]
            if self.form == 'list':
                kw['answers'] = {'expect': list(items), 'grade_decimal': self.c, 'msg': 'AM'}
            elif self.form == 'string':
                kw['answers'] = {'expect': self.delim.join(items), 'grade_decimal': self.c, 'msg': 'AM'}
            self.graders[key] = SingleListGrader(**kw)
        return self.graders[key]

    def cases(self, tier):
        if tier not in self.tiers:
            return
        pool = expected_pool(2 if tier == 'quick' else 3)
        maxsub = 4 if tier == 'quick' else 5
        if self.maxsub:
            maxsub = self.maxsub[0 if tier == 'quick' else 1]
        for ei, items in enumerate(pool):
            plain = all(isinstance(x, str) for x in items)
            if self.form != 'list' and not plain:
                continue
            for L in range(1, maxsub + 1):
                for sub in itertools.product(range(len(ITEMS)), repeat=L):
                    yield (ei, sub)

    def describe(self, case):
        ei, sub = case
        return {'expected': repr(self.pool[ei]) if hasattr(self, 'pool') else ei,
                'submission': render([ITEMS[i] for i in sub], self.delim)}

    def check(self, case):
        ei, sub = case
        items = self.pool[ei]
        specs = spec_of(items)
        submitted = [ITEMS[i] for i in sub]
        text = render(submitted, self.delim)
        nontriv = submitted != [x for x in items if isinstance(x, str)] or len(submitted) != len(items)
        calls = 0
        outcome = None
        for flags in FLAGSETS:
            ordered, pc, le, me = flags
            g = self.grader(ei, flags)
            calls += 1
            if self.form == 'infer':
                got = call(g, self.delim.join(items), text)
                c, ans_msg = 1, ''
            else:
                got = call(g, None, text)
                c, ans_msg = self.c, 'AM'
            where = 'expected %r, submission %r, ordered=%s partial_credit=%s length_error=%s missing_error=%s' % (
                items, text, ordered, pc, le, me)
            must_raise = (le and len(submitted) != len(items)) or (me and any(s.strip() == '' for s in submitted))
            if must_raise:
                if got[0] != 'missing':
                    return Result('noerror', nontriv,
                                  viol('flat:error-expected-but-graded' if got[0] == 'ok' else 'flat:wrong-error-class',
                                       '%s: expected a MissingInput error, got %r' % (where, got), 'MissingInput', got), calls)
                outcome = outcome or 'error'
                continue
            bracket, must, may = formula(specs, submitted, ordered, pc)
            v = judge(got, c * bracket, must, may, ans_msg, where, 'flat')
            if v:
                return Result('wrong', nontriv, v, calls)
            if not (le or me):
                outcome = 'g=%.3g' % (c * bracket)
        return Result(outcome or 'error', nontriv, None, calls)


FOUR = [(False, False), (False, True), (True, False), (True, True)]      # (ordered, partial_credit)
TWO = [(False, True), (True, False)]


class TwoAnswerLists(Family):
    name = 'alternative_lists'
    timeout = 30.0
    rule = ('two alternative expected lists L1, L2 (all ordered pairs of distinct 2-item lists over a,b,c) x every submission of '
            '1..4 [quick 3] symbols x FOUR ways of writing the alternatives (the first with all ordered/partial_credit settings, the '
            'others with unordered+partial credit and ordered+all-or-nothing): (dicts) L1 full credit with '
            'message M1, then L2 worth 0.5 with message M2; (dicts_rev) the same two dictionaries with the lower-credit list '
            'FIRST; (tuple_in_expect) one dictionary whose expect is the tuple (L1, L2), credit 0.5, one message; (strings) L1 as '
            'a bare delimited string and L2 as a dictionary with a string expect.  Grade = max over the lists of credit x '
            'formula; a list\'s message may be shown only if that list attains the maximum and has an optimal matching in '
            'which every item earned credit, and some message must be shown when that holds for every list attaining the '
            'maximum')
    FORMS = ('dicts', 'dicts_rev', 'tuple_in_expect', 'strings')

    def setup(self, tier):
        self.lists = [list(p) for p in itertools.permutations(['a', 'b', 'c'], 2)]
        self.graders = {}

    def cases(self, tier):
        n = 6
        maxsub = 3 if tier == 'quick' else 4
        for i in range(n):
            for j in range(n):
                if i == j:
                    continue
                for L in range(1, maxsub + 1):
                    for sub in itertools.product(range(len(ITEMS) - 1), repeat=L):
                        yield (i, j, sub)

    def describe(self, case):
        i, j, sub = case
        lists = [list(p) for p in itertools.permutations(['a', 'b', 'c'], 2)]
        return {'L1': lists[i], 'L2': lists[j], 'submission': ','.join(ITEMS[k] for k in sub)}

    def build(self, form, L1, L2, ordered, pc):
        """returns (grader, [(list, credit, message), ...])"""
        kw = dict(subgrader=TableGrader(table=TABLE), ordered=ordered, partial_credit=pc)
        if form == 'dicts':
            answers = ({'expect': list(L1), 'msg': 'M1'}, {'expect': list(L2), 'grade_decimal': 0.5, 'msg': 'M2'})
            model = [(L1, 1, 'M1'), (L2, 0.5, 'M2')]
        elif form == 'dicts_rev':
            answers = ({'expect': list(L2), 'grade_decimal': 0.5, 'msg': 'M2'}, {'expect': list(L1), 'msg': 'M1'})
            model = [(L1, 1, 'M1'), (L2, 0.5, 'M2')]
        elif form == 'tuple_in_expect':
            answers = {'expect': (list(L1), list(L2)), 'grade_decimal': 0.5, 'msg': 'M1'}
            model = [(L1, 0.5, 'M1'), (L2, 0.5, 'M1')]
        else:
            answers = (','.join(L1), {'expect': ','.join(L2), 'grade_decimal': 0.5, 'msg': 'M2'})
            model = [(L1, 1, ''), (L2, 0.5, 'M2')]
        return SingleListGrader(answers=answers, **kw), model

    def check(self, case):
        i, j, sub = case
        L1, L2 = self.lists[i], self.lists[j]
        submitted = [ITEMS[k] for k in sub]
        text = ','.join(submitted)
        calls = 0
        outcome = None
        for form in self.FORMS:
            for ordered, pc in (FOUR if form == 'dicts' else TWO):
                calls += 1
                v, exp = self.one(form, i, j, ordered, pc, submitted, text)
                if v:
                    return Result('wrong', True, v, calls)
                if outcome is None:
                    outcome = 'g=%.3g' % exp
        return Result(outcome, True, None, calls)

    def one(self, form, i, j, ordered, pc, submitted, text):
        L1, L2 = self.lists[i], self.lists[j]
        key = (form, i, j, ordered, pc)
        if key not in self.graders:
            self.graders[key] = self.build(form, L1, L2, ordered, pc)
        g, model = self.graders[key]
        got = call(g, None, text)
        rows = []
        for lst, credit, m in model:
            b, must, may = formula(spec_of(lst), submitted, ordered, pc)
            rows.append((credit * b, must, may, m))
        exp = max(r[0] for r in rows)
        attain = [r for r in rows if abs(r[0] - exp) <= EPS]
        where = 'lists %r / %r written as %s, submission %r, ordered=%s partial_credit=%s' % (L1, L2, form, text, ordered, pc)
        if got[0] != 'ok':
            return viol('altlists:raised', '%s: %r' % (where, got), exp, got), exp
        res = got[1]
        if abs(res['grade_decimal'] - exp) > EPS:
            return viol('altlists:grade', '%s: grade %r, expected %r' % (where, res['grade_decimal'], exp), exp, res), exp
        for m in ('M1', 'M2'):
            if m in res['msg'] and not any(r[3] == m and r[2] for r in attain):
                return viol('altlists:answer-message-undeserved',
                            '%s: message %s shown, but no list carrying it attains the grade with every item earning credit'
                            % (where, m), '', res), exp
        if all(r[3] and r[1] for r in attain) and not any(r[3] in res['msg'] for r in attain):
            return viol('altlists:answer-message-missing', '%s: every list attaining the grade has all items earning credit, '
                        'but no answer message is shown (%r)' % (where, res['msg']), [r[3] for r in attain], res), exp
        return None, exp


INNER = [list(s) for L in (1, 2, 3) for s in itertools.product(['a', 'b', 'z'], repeat=L)]


def outer_formula(T, n_exp, n_sub, ordered, partial_credit):
    """
    formula over cells that are (credit, must, may) triples (T[j][k]: submitted j against expected k): returns
    (bracket, msg_must, msg_may) where "earned credit" of an outer item means that every item inside it earned credit
    (docs: "The message is only shown if all of the inputs received credit")
    """
    N = max(n_exp, n_sub)

    def cell(j, k):
        return T[j][k] if (j < n_sub and k < n_exp) else (0, False, False)
    matchings = [tuple(range(N))] if ordered else list(itertools.permutations(range(N)))
    totals = [sum(cell(j, p[j])[0] for j in range(N)) for p in matchings]
    best = max(totals)
    opt = [p for p, t in zip(matchings, totals) if abs(t - best) <= EPS]
    must = all(all(cell(j, p[j])[1] for j in range(N)) for p in opt)
    may = any(all(cell(j, p[j])[2] for j in range(N)) for p in opt)
    bracket = max(0.0, (best - max(0, n_sub - n_exp)) / float(n_exp))
    if not partial_credit and bracket < 1 - EPS:
        bracket = 0.0
    return bracket, must, may


class AuthorsListGrader(SingleListGrader):
    """a subclass without any change of behaviour: must be treated like SingleListGrader wherever one is nested"""


class Nested(Family):
    name = 'nested'
    timeout = 30.0
    rule = ('one level of nesting (outer ";" inner ","), expected [[a,b],[b,a]] and [[a,b],[c]]-like lists and one whose inner '
            'lists are answer dictionaries with their own credit 0.5, every submission of 2 [thorough: 1..3] outer items each an '
            'inner list of 1..3 [quick 2] items over {a,b,z} x outer/inner ordered x outer/inner partial_credit (independent; '
            'equal for submissions of 3 outer items), '
            'outer answer worth 0.5 with a message; the plain expected lists are additionally written as ONE string '
            '"a,b;b,a" in the answers (there the inner grader is an instance of a subclass of SingleListGrader) and inferred from '
            'the expect argument (2 flag sets each): inner grades by the formula, '
            'outer grade by the formula over inner grades; the answer message requires every innermost item to have earned '
            'credit')

    EXPECTED = [[['a', 'b'], ['b', 'a']], [['a', 'b'], ['a', 'a']], [['a'], ['b']],
                [{'expect': ['a', 'b'], 'grade_decimal': 0.5, 'msg': 'IM'}, ['b']]]
    FORM_FLAGS = {'string': [(False, False, True, True), (True, True, False, False)],
                  'infer': [(False, True, True, True), (True, False, False, True)]}

    def setup(self, tier):
        self.graders = {}

    def cases(self, tier):
        outer_lens = (2,) if tier == 'quick' else (1, 2, 3)
        inner = range(len(INNER)) if tier == 'thorough' else range(12)     # quick: inner lists of <= 2 items
        for e in range(len(self.EXPECTED)):
            for L in outer_lens:
                if L == 3 and e != 0:
                    continue
                for combo in itertools.product(inner, repeat=L):
                    yield (e, combo)

    def describe(self, case):
        e, combo = case
        return {'expected': self.EXPECTED[e], 'submission': ';'.join(','.join(INNER[k]) for k in combo)}

    def grader(self, e, form, flags):
        key = (e, form, flags)
        if key not in self.graders:
            oo, io, opc, ipc = flags
            expected = self.EXPECTED[e]
            # the string form nests an instance of an author's SUBCLASS of SingleListGrader
            cls = AuthorsListGrader if form == 'string' else SingleListGrader
            inner = cls(subgrader=TableGrader(table=TABLE), ordered=io, partial_credit=ipc, delimiter=',')
            kw = dict(subgrader=inner, ordered=oo, partial_credit=opc, delimiter=';')
            if form == 'list':
                fresh = [dict(x, expect=list(x['expect'])) if isinstance(x, dict) else list(x) for x in expected]
                kw['answers'] = {'expect': fresh, 'grade_decimal': 0.5, 'msg': 'AM'}
            elif form == 'string':
                kw['answers'] = {'expect': ';'.join(','.join(x) for x in expected), 'grade_decimal': 0.5, 'msg': 'AM'}
            self.graders[key] = SingleListGrader(**kw)
        return self.graders[key]

    def check(self, case):
        e, combo = case
        expected = self.EXPECTED[e]
        plain = all(isinstance(x, list) for x in expected)
        submitted = [INNER[k] for k in combo]
        text = ';'.join(','.join(x) for x in submitted)
        calls = 0
        runs = [('list', f) for f in itertools.product((False, True), repeat=4)
                if len(combo) < 3 or f[2] == f[3]]       # 3 outer items (thorough): inner and outer partial_credit equal
        if plain:
            runs += [(form, f) for form in ('string', 'infer') for f in self.FORM_FLAGS[form]]
        inner_specs = [(x['expect'], x['grade_decimal']) if isinstance(x, dict) else (x, 1) for x in expected]
        for form, flags in runs:
            oo, io, opc, ipc = flags
            g = self.grader(e, form, flags)
            calls += 1
            if form == 'infer':
                got = call(g, ';'.join(','.join(x) for x in expected), text)
                c, ans_msg = 1, ''
            else:
                got = call(g, None, text)
                c, ans_msg = 0.5, 'AM'
            T = []
            for s in submitted:
                row = []
                for lst, credit in inner_specs:
                    b, must, may = formula(spec_of(lst), s, io, ipc)
                    row.append((credit * b, must, may))
                T.append(row)
            bracket, must, may = outer_formula(T, len(expected), len(submitted), oo, opc)
            where = ('expected %r (given as %s), submission %r, outer ordered=%s inner ordered=%s outer partial_credit=%s '
                     'inner partial_credit=%s' % (expected, form, text, oo, io, opc, ipc))
            v = judge(got, c * bracket, must, may, ans_msg, where, 'nested')
            if v:
                return Result('wrong', True, v, calls)
            if form == 'list' and flags == (False, False, True, True):
                outcome = 'g=%.3g' % (c * bracket)
        return Result(outcome, True, None, calls)


class NestedBlank(Family):
    name = 'nested_blank_items'
    timeout = 30.0
    rule = ('nesting and blank entries: expected [[a,a],[a,a]] (outer ";" inner ","), every submission of 1..3 outer items each '
            'an inner list of 1..2 items over {a, blank} x outer/inner missing_error in {left at its default, False} x outer '
            'ordered: a blank outer item raises when the outer missing_error is on; a blank inner item raises when the inner '
            'missing_error is on and the inner list is compared with an expected inner list at all (ordered lists do not '
            'compare surplus items; for those nothing is demanded); otherwise the grade follows the formula')
    INNERS = [['a'], [''], ['a', 'a'], ['a', ''], ['', 'a'], ['', '']]
    EXP = [['a', 'a'], ['a', 'a']]

    def setup(self, tier):
        self.graders = {}

    def cases(self, tier):
        for L in (1, 2, 3):
            for combo in itertools.product(range(len(self.INNERS)), repeat=L):
                yield combo

    def describe(self, case):
        return {'expected': self.EXP, 'submission': ';'.join(','.join(self.INNERS[k]) for k in case)}

    def check(self, case):
        submitted = [self.INNERS[k] for k in case]
        text = ';'.join(','.join(x) for x in submitted)
        calls = 0
        outcomes = []
        for ome, ime, oo in itertools.product((True, False), (True, False), (False, True)):
            key = (ome, ime, oo)
            if key not in self.graders:
                ikw = {} if ime else {'missing_error': False}           # True is the default: not passed
                okw = {} if ome else {'missing_error': False}
                inner = SingleListGrader(subgrader=TableGrader(table=TABLE), **ikw)
                self.graders[key] = SingleListGrader(answers=[list(x) for x in self.EXP], subgrader=inner, delimiter=';',
                                                     ordered=oo, **okw)
            calls += 1
            got = call(self.graders[key], None, text)
            where = 'expected %r, submission %r, outer missing_error=%s inner missing_error=%s outer ordered=%s' % (
                self.EXP, text, ome, ime, oo)
            outer_blank = any(x == [''] for x in submitted)
            compared = submitted[:len(self.EXP)] if oo else submitted
            inner_blank_seen = any('' in x for x in compared)
            inner_blank_any = any('' in x for x in submitted)
            if (ome and outer_blank) or (ime and inner_blank_seen):
                if got[0] != 'missing':
                    return Result('noerror', True, viol('nestedblank:error-expected', '%s: expected a MissingInput error, got %r'
                                                        % (where, got), 'MissingInput', got), calls)
                outcomes.append('E')
                continue
            if ime and inner_blank_any:
                outcomes.append('open')         # blank only inside a surplus item of an ordered list: not constrained
                continue
            T = [[formula(spec_of(lst), s, False, True) for lst in self.EXP] for s in submitted]
            bracket, _, _ = outer_formula(T, len(self.EXP), len(submitted), oo, True)
            if got[0] != 'ok' or abs(got[1]['grade_decimal'] - bracket) > EPS:
                return Result('wrong', True, viol('nestedblank:grade', '%s: got %r, expected grade %r' % (where, got, bracket),
                                                  bracket, got), calls)
            outcomes.append('%.3g' % bracket)
        return Result('/'.join(outcomes[:3]), True, None, calls)


class StringSub(Family):
    name = 'string_subgrader_spaces'
    rule = ('StringGrader subgrader (strips items): expected "cat, dog", every submission of 1..4 items over {cat, dog, " cat ", '
            'emu, blank-with-space} joined by "," or ", " x 16 flag sets; items match after stripping; blank means empty after '
            'stripping')
    WORDS = ['cat', 'dog', ' cat ', 'emu', ' ']

    def setup(self, tier):
        self.graders = {}

    def cases(self, tier):
        for L in range(1, 5 if tier == 'thorough' else 4):
            for sub in itertools.product(range(len(self.WORDS)), repeat=L):
                for sep in (0, 1):
                    yield (sub, sep)

    def check(self, case):
        sub, sep = case
        submitted = [self.WORDS[i] for i in sub]
        text = (',', ', ')[sep].join(submitted)
        calls = 0
        outcome = 'error'
        for flags in FLAGSETS:
            ordered, pc, le, me = flags
            if flags not in self.graders:
                self.graders[flags] = SingleListGrader(answers=['cat', 'dog'] if me else ['cat', 'dog'], subgrader=StringGrader(),
                                                       ordered=ordered, partial_credit=pc, length_error=le, missing_error=me)
            calls += 1
            got = call(self.graders[flags], None, text)
            must_raise = (le and len(submitted) != 2) or (me and any(s.strip() == '' for s in submitted))
            where = 'submission %r flags %r' % (text, flags)
            if must_raise:
                if got[0] != 'missing':
                    return Result('noerror', True, viol('stringsub:error-expected', '%s: got %r' % (where, got), 'MissingInput', got), calls)
                continue
            cr = lambda spec, s: 1 if s.strip() == spec[0][0] else 0
            bracket, _, _ = formula([[('cat', 1)], [('dog', 1)]], submitted, ordered, pc, credit=cr)
            if got[0] != 'ok' or abs(got[1]['grade_decimal'] - bracket) > EPS:
                return Result('wrong', True, viol('stringsub:grade', '%s: got %r expected grade %r' % (where, got, bracket), bracket, got), calls)
            if not (le or me):
                outcome = 'g=%.3g' % bracket
        return Result(outcome, True, None, calls)


class CreditTables(Family):
    """arbitrary item credits: every table of a small alphabet, graded by the real unordered matching"""
    timeout = 30.0
    EXPECTED = ['p', 'q', 'r', 's', 'u']
    SUBMITTED = ['t0', 't1', 't2', 't3', 't4']

    def __init__(self, n_exp, n_sub, alphabet, tiers=('quick', 'thorough'), answer_credit=0.5):
        self.n_exp, self.n_sub, self.alphabet, self.tiers = n_exp, n_sub, tuple(alphabet), tiers
        self.c = answer_credit
        self.name = 'credit_tables_%dx%d_%s' % (n_exp, n_sub, 'bin' if len(alphabet) == 2 else 'x'.join('%g' % a for a in alphabet))
        if answer_credit != 0.5:
            self.name += '_answer_credit_%g' % answer_credit
        self.rule = ('unordered list of %d expected items, %d distinct submitted items, EVERY table of item credits over %r '
                     '(%d tables) x partial_credit on/off, answer credit %r with message; oracle = closed-form formula with a '
                     'brute-force optimal assignment (the table is handed to the author-level table subgrader)'
                     % (n_exp, n_sub, list(alphabet), len(alphabet) ** (n_exp * n_sub), answer_credit))

    def setup(self, tier):
        self.g = {}
        for pc in (True, False):
            sub = TableGrader(table={})
            g = SingleListGrader(answers={'expect': self.EXPECTED[:self.n_exp], 'grade_decimal': self.c, 'msg': 'AM'},
                                 subgrader=sub, ordered=False, partial_credit=pc, delimiter=',')
            self.g[pc] = (g, g.config['subgrader'].config['table'])

    def cases(self, tier):
        if tier not in self.tiers:
            return iter(())
        return iter(range(len(self.alphabet) ** (self.n_exp * self.n_sub)))

    def table(self, case):
        k, out = case, {}
        for i in range(self.n_exp):
            for j in range(self.n_sub):
                k, d = divmod(k, len(self.alphabet))
                if self.alphabet[d]:
                    out[(self.EXPECTED[i], self.SUBMITTED[j])] = self.alphabet[d]
        return out

    def describe(self, case):
        return {'expected': self.EXPECTED[:self.n_exp], 'submission': ','.join(self.SUBMITTED[:self.n_sub]),
                'item_credit_table(expected, submitted)': {'%s,%s' % k: v for k, v in self.table(case).items()}}

    def check(self, case):
        T = self.table(case)
        specs = [[(e, 1)] for e in self.EXPECTED[:self.n_exp]]
        submitted = self.SUBMITTED[:self.n_sub]
        text = ','.join(submitted)
        outcome = None
        for pc in (True, False):
            g, live = self.g[pc]
            live.clear()
            live.update(T)
            got = call(g, None, text)
            bracket, must, may = formula(specs, submitted, False, pc, credit=lambda spec, s2: T.get((spec[0][0], s2), 0))
            where = 'expected %r, submission %r, item credits %r, unordered, partial_credit=%s' % (
                self.EXPECTED[:self.n_exp], text, {'%s,%s' % k: v for k, v in T.items()}, pc)
            v = judge(got, self.c * bracket, must, may, 'AM', where, 'tables')
            if v:
                return Result('wrong', True, v, 2)
            if pc:
                outcome = 'g=%.4g%s' % (self.c * bracket, '+msg' if must else '')
        return Result(outcome, bool(T), None, 2)


def formula_dp(expected_specs, submitted, ordered, partial_credit, credit=item_credit):
    """the same closed-form formula as `formula`, with the optimal assignment found by refs/c07_ref.assignment_dp"""
    n_exp, n_sub = len(expected_specs), len(submitted)
    N = max(n_exp, n_sub)
    M = [[credit(expected_specs[k], submitted[j]) if (j < n_sub and k < n_exp) else 0
          for k in range(N)] for j in range(N)]
    if ordered:
        diag = [M[j][j] for j in range(N)]
        best, must = sum(diag), all(d > 0 for d in diag)
        may = must
    else:
        best, must, may = c07_ref.assignment_dp(M, EPS)
    surplus = max(0, n_sub - n_exp)
    bracket = max(0.0, (best - surplus) / float(n_exp))
    if not partial_credit and bracket < 1 - EPS:
        bracket = 0.0
    return bracket, must, may


class Long(Family):
    """the sizes of the stated scope that `Flat` does not reach: 4 and 5 expected items, up to 7 submitted items"""
    name = 'long_lists'
    timeout = 30.0
    EXPECTED = [['a', 'b', 'c', 'c'],
                [('a', 'c'), 'b', 'b', {'expect': 'a', 'grade_decimal': 0.5}],
                ['a', 'b', 'c', 'a', 'b']]
    FLAGS = [(False, True, False, False), (False, False, False, False), (True, True, False, False), (True, False, False, False),
             (False, True, True, True), (True, False, True, True)]
    rule = ('expected lists of 4 and 5 items WITH REPEATED ITEMS, item alternatives and item partial credit (%r; quick: the last two) x every '
            'submission of 1..7 items (quick: over {a,b,z,blank} up to 4 items and {a,b,z} for 5..7 items; thorough: over '
            '{a,b,c,z,blank} up to 5 items and {a,b,c,z} for 6 and 7 items) x ordered x partial_credit with both error options '
            'off, plus two flag sets with both error options on; answer credit 0.5 with message; oracle = closed-form formula '
            'with the subset dynamic programme of refs/c07_ref.py (cross-checked against enumeration of permutations in setup)'
            % (EXPECTED,))

    def setup(self, tier):
        c07_ref.selftest()
        self.graders = {}

    def cases(self, tier):
        if tier == 'quick':
            alph = lambda L: (0, 1, 3, 4) if L <= 4 else (0, 1, 3)
        else:
            alph = lambda L: (0, 1, 2, 3, 4) if L <= 5 else (0, 1, 2, 3)
        for ei in range(len(self.EXPECTED)):
            if tier == 'quick' and ei == 0:
                continue
            for L in range(1, 8):
                for sub in itertools.product(alph(L), repeat=L):
                    yield (ei, sub)

    def describe(self, case):
        ei, sub = case
        return {'expected': repr(self.EXPECTED[ei]), 'submission': ','.join(ITEMS[i] for i in sub)}

    def check(self, case):
        ei, sub = case
        items = self.EXPECTED[ei]
        specs = spec_of(items)
        submitted = [ITEMS[i] for i in sub]
        text = ','.join(submitted)
        calls = 0
        outcome = None
        for flags in self.FLAGS:
            ordered, pc, le, me = flags
            key = (ei, flags)
            if key not in self.graders:
                self.graders[key] = SingleListGrader(
                    answers={'expect': list(items), 'grade_decimal': 0.5, 'msg': 'AM'}, subgrader=TableGrader(table=TABLE),
                    ordered=ordered, partial_credit=pc, length_error=le, missing_error=me)
            calls += 1
            got = call(self.graders[key], None, text)
            where = 'expected %r, submission %r, ordered=%s partial_credit=%s length_error=%s missing_error=%s' % (
                items, text, ordered, pc, le, me)
            if (le and len(submitted) != len(items)) or (me and '' in submitted):
                if got[0] != 'missing':
                    return Result('noerror', True, viol('long:error-expected-but-graded', '%s: expected a MissingInput error, got %r'
                                                        % (where, got), 'MissingInput', got), calls)
                continue
            bracket, must, may = formula_dp(specs, submitted, ordered, pc)
            v = judge(got, 0.5 * bracket, must, may, 'AM', where, 'long')
            if v:
                return Result('wrong', True, v, calls)
            if flags == self.FLAGS[0]:
                outcome = 'g=%.3g%s' % (0.5 * bracket, '+msg' if must else '')
        return Result(outcome, True, None, calls)


class ReInfer(Family):
    """answers inferred from the expect argument are inferred again on every call"""
    name = 'inferred_expect_histories'
    timeout = 30.0
    FIRST = ['a,b', 'c', 'b,c,a']
    SECOND = [','.join(p) for L in (1, 2) for p in itertools.permutations('abc', L)] + ['a,b,c']
    HIST = ('graded', 'student_error', 'author_error', 'configured')
    rule = ('a FRESH grader per case and a two-call history: first call with expect E1 in %r, second call with expect E2 (every '
            'ordered selection of 1..2 of a,b,c and "a,b,c") and every submission of 1..2 symbols over {a,b,c} plus "a,b,c" and '
            '"c,a,b"; x ordered; the '
            'first call is (graded) a graded submission, (student_error) a submission with a blank entry that raises, '
            '(author_error) an expect value with a blank entry that is refused as a configuration error, or (configured) '
            'absent but E1 is configured as the grader\'s answers: the second call is graded against E2, except in '
            '(configured) where configured answers take precedence over the expect argument' % (FIRST,))

    def cases(self, tier):
        for h in range(len(self.HIST)):
            for e1 in range(len(self.FIRST)):
                for e2 in range(len(self.SECOND)):
                    for L in (1, 2):
                        for sub in itertools.product((0, 1, 2), repeat=L):
                            yield (h, e1, e2, sub)
                    yield (h, e1, e2, (0, 1, 2))
                    yield (h, e1, e2, (2, 0, 1))

    def describe(self, case):
        h, e1, e2, sub = case
        return {'history': self.HIST[h], 'E1': self.FIRST[e1], 'E2': self.SECOND[e2], 'submission': ','.join(ITEMS[i] for i in sub)}

    def check(self, case):
        h, e1, e2, sub = case
        hist, E1, E2 = self.HIST[h], self.FIRST[e1], self.SECOND[e2]
        submitted = [ITEMS[i] for i in sub]
        text = ','.join(submitted)
        calls = 0
        for ordered in (False, True):
            kw = dict(subgrader=TableGrader(table=TABLE), ordered=ordered)
            if hist == 'configured':
                g = SingleListGrader(answers=E1.split(','), **kw)
                target = E1
            else:
                g = SingleListGrader(**kw)
                target = E2
                calls += 1
                if hist == 'graded':
                    first = call(g, E1, 'a,z')
                    bad = first[0] != 'ok'
                elif hist == 'student_error':
                    first = call(g, E1, 'a,,b')
                    bad = first[0] != 'missing'
                else:
                    first = call(g, 'a,,b', 'a')
                    bad = not (first[0] == 'other' and first[1].startswith('ConfigError'))
                if bad:
                    return Result('first', True, viol('reinfer:first-call', 'first call (%s) with expect %r gave %r'
                                                      % (hist, E1, first), hist, first), calls)
            calls += 1
            got = call(g, E2, text)
            bracket, must, may = formula(spec_of(target.split(',')), submitted, ordered, True)
            where = 'history %s, first expect %r, then expect %r and submission %r, ordered=%s' % (hist, E1, E2, text, ordered)
            v = judge(got, bracket, must, may, '', where, 'reinfer')
            if v:
                return Result('wrong', True, v, calls)
        return Result('g=%.3g' % bracket, target != E1 or hist == 'configured', None, calls)


class Delims(Family):
    name = 'delimiter_alphabet'
    timeout = 30.0
    DELIMS = ['|', '.', '+', '*', '?', '$', '^', '\\', '(', '[', ' ', '\t', '\n', '||', '.*', 'xy', ' | ', ';', u'\uff1b']
    EXPECTED = [['a', 'b'], ['b', 'c', 'a']]
    rule = ('delimiters that mean something to regular expressions, whitespace delimiters and multi-character ones (%r) x '
            'expected lists %r given as a list and as one delimited string x every submission of 1..3 symbols over '
            '{a,b,z,blank} x 4 flag sets (unordered+partial credit, ordered+all-or-nothing, each with both error options off '
            'and on); same formula and error rules as the flat families' % (DELIMS, EXPECTED))
    FLAGS = [(False, True, False, False), (True, False, False, False), (False, True, True, True), (True, False, True, True)]

    def setup(self, tier):
        self.graders = {}

    def cases(self, tier):
        for d in range(len(self.DELIMS)):
            for ei in range(len(self.EXPECTED)):
                for L in (1, 2, 3):
                    for sub in itertools.product((0, 1, 3, 4), repeat=L):
                        yield (d, ei, sub)

    def describe(self, case):
        d, ei, sub = case
        return {'delimiter': self.DELIMS[d], 'expected': self.EXPECTED[ei], 'submission': self.DELIMS[d].join(ITEMS[i] for i in sub)}

    def check(self, case):
        d, ei, sub = case
        delim, items = self.DELIMS[d], self.EXPECTED[ei]
        submitted = [ITEMS[i] for i in sub]
        text = delim.join(submitted)
        calls = 0
        outcome = None
        for form in ('list', 'string'):
            for flags in self.FLAGS:
                ordered, pc, le, me = flags
                key = (d, ei, form, flags)
                if key not in self.graders:
                    self.graders[key] = SingleListGrader(
                        answers={'expect': list(items) if form == 'list' else delim.join(items), 'grade_decimal': 0.5, 'msg': 'AM'},
                        subgrader=TableGrader(table=TABLE), ordered=ordered, partial_credit=pc, length_error=le,
                        missing_error=me, delimiter=delim)
                calls += 1
                got = call(self.graders[key], None, text)
                where = 'delimiter %r, expected %r (as %s), submission %r, ordered=%s partial_credit=%s length_error=%s ' \
                        'missing_error=%s' % (delim, items, form, text, ordered, pc, le, me)
                if (le and len(submitted) != len(items)) or (me and '' in submitted):
                    if got[0] != 'missing':
                        return Result('noerror', True, viol('delims:error-expected-but-graded', '%s: expected a MissingInput error, '
                                                            'got %r' % (where, got), 'MissingInput', got), calls)
                    continue
                bracket, must, may = formula(spec_of(items), submitted, ordered, pc)
                v = judge(got, 0.5 * bracket, must, may, 'AM', where, 'delims')
                if v:
                    return Result('wrong', True, v, calls)
                if flags == self.FLAGS[0]:
                    outcome = 'g=%.3g%s' % (0.5 * bracket, '+msg' if must else '')
        return Result(outcome or 'error', True, None, calls)


class SharedObjects(Family):
    name = 'shared_author_objects'
    timeout = 30.0
    rule = ('ONE answers object and ONE subgrader object handed to several graders: g1 (unordered, partial credit) and g2 '
            '(ordered, no partial credit, other error options) are built from the same Python list of answers and the same '
            'subgrader; g3 is built from g1\'s own validated configuration (SingleListGrader(g1.config)); g4 nests the same '
            'inner SingleListGrader that g5 also uses with another outer delimiter.  Expected lists from the flat pool x every '
            'submission of 1..3 symbols over {a,b,c,z}: each grader follows the formula for ITS options, in the call order '
            'g1,g2,g3,g1 and g4,g5,g4')

    def setup(self, tier):
        self.pool = expected_pool(2)
        self.built = {}

    def cases(self, tier):
        for ei in range(len(expected_pool(2))):
            for L in (1, 2, 3):
                for sub in itertools.product((0, 1, 2, 3), repeat=L):
                    yield (ei, sub)

    def describe(self, case):
        ei, sub = case
        return {'expected': repr(expected_pool(2)[ei]), 'submission': ','.join(ITEMS[i] for i in sub)}

    def graders(self, ei):
        if ei not in self.built:
            items = self.pool[ei]
            shared_answers = list(items)
            shared_sub = TableGrader(table=TABLE)
            g1 = SingleListGrader(answers=shared_answers, subgrader=shared_sub, ordered=False, partial_credit=True,
                                  missing_error=False)
            g2 = SingleListGrader(answers=shared_answers, subgrader=shared_sub, ordered=True, partial_credit=False,
                                  missing_error=False)
            g3 = SingleListGrader(g1.config)
            inner = SingleListGrader(subgrader=shared_sub, ordered=True, missing_error=False)
            nested_answers = [list(items), list(items)]
            g4 = SingleListGrader(answers=nested_answers, subgrader=inner, delimiter=';', missing_error=False)
            g5 = SingleListGrader(answers=nested_answers, subgrader=inner, delimiter='/', ordered=True, missing_error=False)
            self.built[ei] = (g1, g2, g3, g4, g5)
        return self.built[ei]

    def check(self, case):
        ei, sub = case
        items = self.pool[ei]
        specs = spec_of(items)
        submitted = [ITEMS[i] for i in sub]
        text = ','.join(submitted)
        g1, g2, g3, g4, g5 = self.graders(ei)
        calls = 0
        for name, g, ordered, pc in (('g1', g1, False, True), ('g2', g2, True, False), ('g3 (rebuilt from g1.config)', g3, False, True),
                                     ('g1 again', g1, False, True)):
            calls += 1
            got = call(g, None, text)
            bracket, must, may = formula(specs, submitted, ordered, pc)
            where = '%s: expected %r shared between graders, submission %r, ordered=%s partial_credit=%s' % (
                name, items, text, ordered, pc)
            v = judge(got, bracket, must, may, '', where, 'shared')
            if v:
                return Result('wrong', True, v, calls)
        # nested: outer submission = the inner submission twice in different orders
        inner_b = formula(specs, submitted, True, True)
        rev = list(reversed(submitted))
        inner_r = formula(specs, rev, True, True)
        for name, g, delim, oo in (('g4', g4, ';', False), ('g5', g5, '/', True), ('g4 again', g4, ';', False)):
            calls += 1
            outer_text = delim.join([text, ','.join(rev)])
            got = call(g, None, outer_text)
            T = [[inner_b, inner_b], [inner_r, inner_r]]
            ob, _, _ = outer_formula(T, 2, 2, oo, True)
            where = '%s: nested expected [%r, %r] sharing the inner grader, submission %r, outer ordered=%s' % (
                name, items, items, outer_text, oo)
            if got[0] != 'ok' or abs(got[1]['grade_decimal'] - ob) > EPS:
                return Result('wrong', True, viol('shared:nested-grade', '%s: got %r, expected grade %r' % (where, got, ob), ob, got), calls)
        return Result('g=%.3g/%.3g' % (bracket, ob), True, None, calls)


class MathSub(Family):
    name = 'math_subgraders'
    timeout = 30.0
    NUM = ['1', '2.5', '1.0', '5/2', '7', ' 1 ', '']
    FORM = ['x+1', '2*x', '1+x', 'x*2', 'x', ' x + 1', '']
    rule = ('the built-in math graders as subgrader (their answers are coerced into comparer dictionaries during validation): '
            'NumericalGrader with expected ["1","2.5"] (list) / "1,2.5" (string) over submissions of 1..4 [quick: 3 for the list form, 2 otherwise] items from '
            '%r, and FormulaGrader(variables=[x]) with expected ["x+1","2*x"] over %r, x 16 flag sets; items match when they '
            'are mathematically equal; a blank item earns nothing when missing_error is off' % (NUM, FORM))
    VALUE = {'1': 1, '2.5': 2.5, '1.0': 1, '5/2': 2.5, '7': 7, ' 1 ': 1, '': None,
             'x+1': 'p', '2*x': 'd', '1+x': 'p', 'x*2': 'd', 'x': 'x', ' x + 1': 'p'}

    def setup(self, tier):
        self.graders = {}

    def cases(self, tier):
        for kind in (0, 1, 2):
            for L in range(1, (4 if kind == 0 else 3) if tier == 'quick' else 5):
                for sub in itertools.product(range(7), repeat=L):
                    yield (kind, sub)

    def describe(self, case):
        kind, sub = case
        words = self.FORM if kind == 2 else self.NUM
        return {'subgrader': ('NumericalGrader, list answers', 'NumericalGrader, string answers', 'FormulaGrader')[kind],
                'submission': ','.join(words[i] for i in sub)}

    def check(self, case):
        kind, sub = case
        words = self.FORM if kind == 2 else self.NUM
        expected = ['x+1', '2*x'] if kind == 2 else ['1', '2.5']
        submitted = [words[i] for i in sub]
        text = ','.join(submitted)
        calls = 0
        outcome = None
        for flags in FLAGSETS:
            ordered, pc, le, me = flags
            key = (kind, flags)
            if key not in self.graders:
                subgrader = FormulaGrader(variables=['x']) if kind == 2 else NumericalGrader()
                self.graders[key] = SingleListGrader(answers=list(expected) if kind != 1 else ','.join(expected),
                                                     subgrader=subgrader, ordered=ordered, partial_credit=pc,
                                                     length_error=le, missing_error=me)
            calls += 1
            got = call(self.graders[key], None, text)
            where = 'expected %r, submission %r, ordered=%s partial_credit=%s length_error=%s missing_error=%s' % (
                expected, text, ordered, pc, le, me)
            if (le and len(submitted) != 2) or (me and any(s.strip() == '' for s in submitted)):
                if got[0] != 'missing':
                    return Result('noerror', True, viol('mathsub:error-expected', '%s: got %r' % (where, got), 'MissingInput', got), calls)
                continue
            cr = lambda spec, s: 1 if (self.VALUE[s] is not None and self.VALUE[s] == self.VALUE[spec[0][0]]) else 0
            bracket, _, _ = formula([[(e, 1)] for e in expected], submitted, ordered, pc, credit=cr)
            if got[0] != 'ok' or abs(got[1]['grade_decimal'] - bracket) > EPS:
                return Result('wrong', True, viol('mathsub:grade', '%s: got %r expected grade %r' % (where, got, bracket), bracket, got), calls)
            if not (le or me):
                outcome = 'g=%.3g' % bracket
        return Result(outcome or 'error', True, None, calls)


def families(tier):
    return [
        Flat('flat_comma_list', ',', 'list', 1),
        Flat('flat_comma_list_half', ',', 'list', 0.5),
        Flat('flat_multichar_delim', '::', 'list', 1, tiers=('thorough',)),
        Flat('flat_delim_with_spaces', ', ', 'list', 0.5),          # a delimiter that ends in whitespace: blank first/last items
        Flat('flat_delim_space_semicolon_space', ' ; ', 'string', 1, tiers=('thorough',)),
        Flat('flat_string_answers', ',', 'string', 0.5),
        Flat('flat_inferred_expect', ',', 'infer', 1),
        Flat('flat_minimal_config_defaults', ',', 'list', 0.5, minimal=True, maxsub=(3, 4)),
        Flat('flat_minimal_config_defaults_string', ',', 'string', 1, minimal=True, maxsub=(2, 3), tiers=('thorough',)),
        Long(),
        ReInfer(),
        Delims(),
        SharedObjects(),
        MathSub(),
        TwoAnswerLists(),
        Nested(),
        NestedBlank(),
        StringSub(),
        CreditTables(4, 4, (0, 1)),
        CreditTables(3, 3, (0, 0.25, 0.5, 1)),
        CreditTables(2, 2, (0, 0.33, 1.0 / 3, 0.5, 0.504, 1)),          # credits closer together than half a percent
        CreditTables(2, 2, (0, 1e-7, 0.5, 1 - 1e-7, 1)),                # credits within 1e-7 of "nothing" and of "full"
        CreditTables(2, 2, (0, 0.5, 1), answer_credit=0),               # an answer worth nothing (falsy credit)
        CreditTables(2, 3, (0, 0.5, 1), answer_credit=0),
        CreditTables(3, 2, (0, 0.5, 1), answer_credit=1),
        CreditTables(2, 2, (0, 0.5, 1), answer_credit=1e-7),
        CreditTables(3, 2, (0, 0.33, 1.0 / 3, 0.996, 1), tiers=('thorough',)),
        CreditTables(3, 3, (0.1, 0.3, 0.7), tiers=('thorough',)),       # credits that are not exact binary fractions
        CreditTables(3, 4, (0, 0.5, 1), tiers=('thorough',)),
        CreditTables(4, 3, (0, 0.5, 1), tiers=('thorough',)),
        CreditTables(5, 4, (0, 1), tiers=('thorough',)),
    ]
