"""
C19 -- SumGrader accepts exactly the sums equal in value to the author's.

ENUM + CHOICE.  Every case builds a fresh SumGrader from an author-level configuration, submits one
student response through the public call `grader(None, inputs)` and compares the verdict (or the class
of the error) with a reference computed in exact rational arithmetic over the explicit index set
(mcv.refs.c19_ref, written from the property statement and docs/grading_math/sum_grader.md).

Sampled variables are DiscreteSets; the library's `random.choice` is owned by mcv.chooser and the FULL
product of all draws is explored, so the oracle knows the value of every sampled variable at every sample.
"""
import itertools
from fractions import Fraction as F

from ..core import Family, Result, viol
from ..chooser import explore, run_with
from ..refs import c19_ref as ref
from ..refs.c19_ref import INF, NINF, R, V, ipow

PROPERTY = 'C19'
RULE = ('each family enumerates a full product: author limits x parity mode x summand x student re-writing '
        '(equivalence / tolerance), ordered subsets of input_positions x per-field menus (positions), author sums '
        'with infinite limits x cut-offs x student re-writings (infinite), error alphabets x subsets of '
        'input_positions (student / author errors), all draws of the sampled variable (sample_dependent), every '
        'ordered pair of limit kinds on the student\'s and on the author\'s side (limit_pairs), graders built with '
        'every option left at its documented default (defaults), zero tolerances (tolerance_edges) and every '
        'sequence of 2 (3) calls on one grader or on two graders sharing their configuration objects (reuse). '
        'A case is non-trivial when the submitted text differs from the author\'s text and the author\'s index '
        'set is not empty (for error families: always), i.e. when a wrong implementation is distinguishable')
EXPLANATION = ('states = distinct (configuration, submission) cases; transitions = executions of the real '
               'SumGrader(...)(None, inputs), one per combination of RNG draws; every execution runs the '
               'implementation itself')
ASSUMPTIONS = [
    'scipy is absent: fact/factorial (and with them the infty_val_fact cut-off) and IntegralGrader are not exercised',
    'guard band: differences within 1% (+1e-11) of the tolerance are not judged; with an effectively zero '
    'tolerance (0, \'0%\', the default 1e-12, a percentage of a zero sum) inexact floating-point summands (i^n) are '
    'judged only beyond 1e-7, exact ones (integers, powers of two) beyond 1e-13 x (1 + |author| + |student|)',
    'an empty sum (value 0) compared with an array-valued sum is left open (error or incorrect both accepted)',
    'both limits the same infinity, non-integer cut-offs, and an instructor variable\'s NAME reused as the '
    'student\'s summation variable are left open',
    'exact class and wording of errors are free: "student-facing" = StudentFacingError in the MRO and not '
    'ConfigError; "configuration error" = ConfigError',
    'failable_evals = 0 throughout',
    'a field holding only white space counts as blank; nan and array-valued limits count as non-integer limits',
    'a student submission that fails in the middle of its own sum (0/(n-2)) is not judged, it only serves as history',
]

KEYS = ('lower', 'upper', 'summand', 'summation_variable')
AUTHOR_VAR = 'n'


# ---------------------------------------------------------------------------------------- text helpers

def txt(t):
    if t == INF:
        return 'infty'
    if t == NINF:
        return '-infty'
    return str(int(t))


def sub(tpl, v):
    """substitute the expression v for the placeholder {v}; parenthesised unless it is a bare name"""
    if not v.replace('_', '').isalnum():
        v = '(' + v + ')'
    return tpl.replace('{v}', v)


# ---------------------------------------------------------------------------------------- summands
# key -> (template, python function (n, x) -> exact value, text of "one" of the same shape,
#         exact in binary floating point?, needs sampled x?)

def _pow2(n, x):
    return R(F(2) ** n)


def _geo2(n, x):
    return R(F(1, 2) ** n)


def _geo3(n, x):
    return R(F(1, 3) ** n)


SUMMANDS = {
    'lin':  ('{v}',            lambda n, x: R(n),                  '1',      True,  False),
    'sq':   ('{v}^2',          lambda n, x: R(n * n),              '1',      True,  False),
    'alt':  ('(-1)^{v}*{v}',   lambda n, x: R((-1) ** (n % 2) * n), '1',     True,  False),
    'pow2': ('2^{v}',          _pow2,                              '1',      True,  False),
    'xlin': ('x*{v}+1',        lambda n, x: R(x * n + 1),          '1',      True,  True),
    'cpow': ('i^{v}',          lambda n, x: ipow(n),               '1',      False, False),
    'vec':  ('[{v}, {v}^2]',   lambda n, x: V(n, n * n),           '[1, 1]', True,  False),
    'geo2': ('(1/2)^{v}',      _geo2,                              '1',      True,  False),
    'geo3': ('(1/3)^{v}',      _geo3,                              '1',      False, False),
    'one':  ('1+0*{v}',        lambda n, x: R(1),                  '1',      True,  False),
}
XVALS = (2, 3)


# ---------------------------------------------------------------------------------------- running the real code

def observe(grader, inp):
    try:
        r = grader(None, inp)
    except Exception as e:        # noqa: the harness judges whatever escapes
        return ('err', [c.__name__ for c in type(e).__mro__], str(e)[:300])
    return ('ok', r)


def classify(obs):
    if obs[0] == 'construct':
        return 'construct-error'
    if obs[0] == 'ok':
        r = obs[1]
        if isinstance(r, dict) and r.get('ok') is True and r.get('grade_decimal') == 1:
            return 'correct'
        if isinstance(r, dict) and r.get('ok') is False and r.get('grade_decimal') == 0:
            return 'incorrect'
        return 'malformed-result'
    mro = obs[1]
    if 'ConfigError' in mro:
        return 'config-error'
    if 'StudentFacingError' in mro:
        return 'student-error'
    return 'other-error'


def _user_fact(n):
    import math
    return float(math.factorial(int(round(n))))


UNSET = '<tolerance not configured>'
DEFAULT_TOLERANCE = 1e-12       # docs/grading_math/sum_grader.md


def _user_uf(t):
    return t * t + 1


def executions(prob):
    """
    Runs the problem once for every combination of RNG draws.  Yields (xs, obs):
    xs = values drawn for the sampled variable x in sample order (or [None] * samples when there is none).
    prob keys: answers, positions, even_odd, tolerance, infty_val, samples, xvals, instr, input
    """
    import mitxgraders
    xvals = prob.get('xvals')
    samples = prob.get('samples', 2)

    def body(ch):
        cfg = {'answers': dict(prob['answers']), 'even_odd': prob.get('even_odd', 0),
               'tolerance': prob.get('tolerance', 1e-9), 'samples': samples}
        if cfg['tolerance'] == UNSET:
            del cfg['tolerance']        # the documented default (an absolute 1e-12) applies
        for k in prob.get('omit') or ():
            cfg.pop(k, None)            # option left at its documented default (even_odd 0, samples 2, ...)
        if prob.get('debug'):
            cfg['debug'] = True
        if prob.get('positions') is not None:
            cfg['input_positions'] = dict(prob['positions'])
        if prob.get('infty_val') is not None:
            cfg['infty_val'] = prob['infty_val']
        if prob.get('user_fact'):
            # scipy is absent, so the built-in fact cannot be evaluated: the author supplies one
            cfg['user_functions'] = {'fact': _user_fact, 'factorial': _user_fact}
            cfg['suppress_warnings'] = True
            if prob.get('infty_val_fact') is not None:
                cfg['infty_val_fact'] = prob['infty_val_fact']
        variables, sample_from = [], {}
        if xvals:
            variables.append('x')
            sample_from['x'] = mitxgraders.DiscreteSet(tuple(xvals))
        if prob.get('instr'):
            # the author also defines an ordinary and a random function
            cfg['user_functions'] = dict(cfg.get('user_functions', {}), uf=_user_uf)
            cfg['user_constants'] = {'kc': 2}
            if prob.get('randfunc'):
                cfg['user_functions']['rf'] = mitxgraders.RandomFunction()
            variables.append('c')
            sample_from['c'] = mitxgraders.DiscreteSet((5,))
            cfg['instructor_vars'] = ['c', 'pi']
        if variables:
            cfg['variables'] = variables
            cfg['sample_from'] = sample_from
        try:
            g = mitxgraders.SumGrader(**cfg)
        except Exception as e:     # noqa
            return ('construct', [c.__name__ for c in type(e).__mro__], str(e)[:300])
        return observe(g, prob['input'])

    if prob.get('randfunc'):
        # the coefficients of a random function are many continuous draws: one execution with the default answers
        runs = [run_with(body)]
    else:
        runs = explore(body, bound=None)
    for ch, obs in runs:
        if xvals:
            kind = 'choice/%d' % len(xvals)
            xs = [xvals[c] for (k, n), c in zip(ch.points, ch.choices) if k == kind]
        else:
            xs = [None] * samples
        yield xs, obs


def ref_verdict(author, student, p, cutoff, tol, xs, exact):
    """
    author / student = (lo, hi, f): limits (int / INF / NINF, or a function of x) and the python summand.
    cutoff: the value replacing infinity, or a pair (author's, student's).
    Returns 'correct' / 'incorrect' / 'open' / 'shape' / 'degenerate' over all samples.
    """
    per = []
    cutoffs = cutoff if isinstance(cutoff, tuple) else (cutoff, cutoff)
    for x in xs:
        vals = []
        for (lo, hi, f), cut in zip((author, student), cutoffs):
            lo = lo(x) if callable(lo) else lo
            hi = hi(x) if callable(hi) else hi
            idx = ref.index_set(lo, hi, p, cut)
            if idx == 'degenerate':
                return 'degenerate'
            vals.append(ref.ref_sum(f, idx, x))
        per.append(ref.compare(vals[0], vals[1], tol, exact))
    return ref.combine(per)


ALLOWED = {
    'correct': ('correct',),
    'incorrect': ('incorrect',),
    'open': ('correct', 'incorrect'),
    'shape': ('incorrect', 'student-error'),
    'shape-zero': ('correct', 'incorrect', 'student-error'),
    'degenerate': ('correct', 'incorrect', 'student-error'),
    'student-error': ('student-error',),
    'config-error': ('config-error',),
    'anything': ('correct', 'incorrect', 'student-error'),
}


def expected_over(expected_of, xs, prob):
    """
    Expected class for the values drawn.  When the call stopped before all samples were drawn (an error
    raised early), the expectation is taken over every completion of the draws: the common class if they
    all agree, else 'open' (which admits no error).
    """
    n = prob.get('samples', 2)
    if len(xs) >= n or not prob.get('xvals'):
        return expected_of(list(xs[:n]) if prob.get('xvals') else [None] * n)
    classes = set()
    for rest in itertools.product(prob['xvals'], repeat=n - len(xs)):
        classes.add(expected_of(list(xs) + list(rest)))
    return classes.pop() if len(classes) == 1 else 'open'


def judge(fam, prob, expected_of, nontrivial, sig_of=None, desc=None):
    """
    Runs all executions of prob; expected_of(xs) -> expected class; returns a Result.
    sig_of(expected, got, obs) -> signature (default '<fam>:<expected>-but-<got>').
    """
    calls = 0
    seen = set()
    first = None
    for xs, obs in executions(prob):
        calls += 1
        got = classify(obs)
        exp = expected_over(expected_of, xs, prob)
        bad = None
        if got not in ALLOWED[exp]:
            bad = sig_of(exp, got, obs) if sig_of else '%s:%s-but-%s' % (fam, exp, got)
        seen.add('%s->%s' % (exp, got))
        if bad and first is None:
            first = viol(bad, 'expected %s, observed %s' % (exp, got),
                         {'expected': exp, 'sampled_x': xs, 'problem': desc or describe_prob(prob)},
                         {'class': got, 'raw': obs})
    outcome = '|'.join(sorted(seen))
    return Result(outcome, nontrivial, first, calls)


def describe_prob(prob):
    d = {k: prob[k] for k in ('answers', 'positions', 'even_odd', 'tolerance', 'infty_val', 'infty_val_fact',
                              'user_fact', 'samples', 'xvals', 'instr', 'randfunc', 'omit', 'debug', 'input')
         if prob.get(k) is not None}
    return d


# ======================================================================================== 1. equivalence

TRANSFORMS = ('same', 'swap', 'rename', 'rename_prime', 'rename_upper', 'rename_mixed', 'shift_up', 'shift_dn', 'reverse', 'expr_limits', 'plus_one',
              'upper+1', 'upper+2', 'lower-1', 'lower-2', 'offset1')


def student_rewrite(a, b, p, skey, tkey):
    """-> (lo, hi, lo_txt, hi_txt, var, summand_txt, pyfunc) for a re-writing of sum_{n=a..b} f(n)"""
    tpl, f, one, exact, needs_x = SUMMANDS[skey]
    lo, hi, var, arg, g, plus = a, b, AUTHOR_VAR, None, (lambda m: m), False
    lo_txt = hi_txt = None
    if tkey == 'same':
        pass
    elif tkey == 'swap':
        lo, hi = b, a
    elif tkey == 'rename':
        var = 'k'
    elif tkey == 'rename_prime':
        var = "t_1'"
    elif tkey == 'rename_upper':
        var = 'N'
    elif tkey == 'rename_mixed':
        var = "kMax_2'"
    elif tkey in ('shift_up', 'shift_dn', 'offset1'):
        s = {'shift_up': 1 if p == 0 else 2, 'shift_dn': -2, 'offset1': 1}[tkey]
        var = 'm'
        arg = 'm+%d' % s if s > 0 else 'm-%d' % -s
        g = (lambda m, s=s: m + s)
        lo, hi = a - s, b - s
    elif tkey == 'reverse':
        var = 'm'
        arg = '-m'
        g = (lambda m: -m)
        lo, hi = -b, -a
    elif tkey == 'expr_limits':
        lo_txt = '(%d)+0' % a
        hi_txt = '(%d)*2/2' % b
    elif tkey == 'plus_one':
        plus = True
    elif tkey in ('upper+1', 'upper+2'):
        hi = b + int(tkey[-1])
    elif tkey in ('lower-1', 'lower-2'):
        lo = a - int(tkey[-1])
    else:
        raise ValueError(tkey)
    stxt = sub(tpl, arg if arg is not None else var)
    if plus:
        stxt = stxt + ' + ' + one
        fn = (lambda m, x: ref.vshift(f(g(m), x), 1))
    else:
        fn = (lambda m, x: f(g(m), x))
    return (lo, hi, lo_txt or txt(lo), hi_txt or txt(hi), var, stxt, fn)


class Equivalence(Family):
    timeout = 20.0

    def __init__(self, skey):
        self.skey = skey
        self.name = 'equiv_' + skey
        tpl = SUMMANDS[skey][0]
        self.rule = ('author sum_{n=a..b} %s for every (a, b) in [-R, R]^2 (R = 4 quick, 12 thorough; both orders) '
                     'x even_odd in {0,1,2} x student re-writings %s; tolerance 1e-9, samples 2%s; expected verdict '
                     'from exact reference sums; non-trivial = author index set non-empty and re-writing != same'
                     % (sub(tpl, 'n'), list(TRANSFORMS),
                        ', x sampled from DiscreteSet%r with all draws explored' % (XVALS,)
                        if SUMMANDS[skey][4] else ''))

    def cases(self, tier):
        r = 4 if tier == 'quick' else 12
        rng = sorted(range(-r, r + 1), key=lambda v: (abs(v), v))
        for a in rng:
            for b in rng:
                for p in (0, 1, 2):
                    for t in TRANSFORMS:
                        if t == 'offset1' and p == 0:
                            continue
                        yield (a, b, p, self.skey, t)

    def build(self, case):
        a, b, p, skey, t = case
        tpl, f, one, exact, needs_x = SUMMANDS[skey]
        lo, hi, lo_txt, hi_txt, var, stxt, fn = student_rewrite(a, b, p, skey, t)
        prob = {'answers': {'lower': txt(a), 'upper': txt(b), 'summand': sub(tpl, AUTHOR_VAR),
                            'summation_variable': AUTHOR_VAR},
                'even_odd': p, 'tolerance': 1e-9, 'samples': 2,
                'xvals': XVALS if needs_x else None,
                'input': [lo_txt, hi_txt, stxt, var]}
        return prob, (a, b, f), (lo, hi, fn), exact

    def describe(self, case):
        return describe_prob(self.build(case)[0])

    def check(self, case):
        a, b, p, skey, t = case
        prob, author, student, exact = self.build(case)
        nontriv = t != 'same' and bool(ref.index_set(a, b, p, 1000))
        return judge(self.name, prob,
                     lambda xs: ref_verdict(author, student, p, 1000, 1e-9, xs, exact), nontriv,
                     sig_of=lambda exp, got, obs: 'equivalence:%s:%s-but-%s' % (t, exp, got))


# ======================================================================================== 2. tolerance

TOLS = (1e-9, 0.01, '0.1%', '1%', '50%', UNSET)
PERTS = (('scale', '0.000000000001'), ('scale', '0.00002'), ('scale', '0.0005'), ('scale', '0.002'), ('scale', '0.005'),
         ('scale', '0.02'), ('scale', '0.4'), ('scale', '0.6'), ('scale', '-0.4'),
         ('add', '0.0000000001'), ('add', '0.00000001'), ('add', '0.001'), ('add', '0.1'))
TOL_SUMMANDS = ('lin', 'sq', 'pow2', 'cpow', 'vec')
TOL_SUMMANDS_QUICK = ('lin', 'cpow', 'vec')


class Tolerance(Family):
    name = 'tolerance'
    timeout = 20.0
    tols = TOLS
    perts = PERTS
    rule = ('author sum_{n=a..b} f(n), a <= b in [-R, R] (R = 2 quick, 5 thorough) x even_odd x f in %s x '
            '(quick: lin, cpow, vec only) x tolerance in %s x student summand f*(1+d) or f+e with (kind, amount) in %s; expected: '
            '|difference| against the tolerance (a percentage is taken of the AUTHOR\'s value; not configured = the documented '
            'absolute 1e-12) with a 1%% guard '
            'band; non-trivial = author sum non-empty'
            % (list(TOL_SUMMANDS), list(TOLS), list(PERTS)))

    def cases(self, tier):
        r = 2 if tier == 'quick' else 5
        for a in range(-r, r + 1):
            for b in range(a, r + 1):
                for p in (0, 1, 2):
                    for skey in (TOL_SUMMANDS_QUICK if tier == 'quick' else TOL_SUMMANDS):
                        for ti in range(len(TOLS)):
                            for pi in range(len(PERTS)):
                                yield (a, b, p, skey, ti, pi)

    def build(self, case):
        a, b, p, skey, ti, pi = case
        tpl, f, one, exact, needs_x = SUMMANDS[skey]
        kind, amount = self.perts[pi]
        amt = F(amount)
        base = sub(tpl, AUTHOR_VAR)
        if kind == 'scale':
            factor = '(1+%s)' % amount if amt >= 0 else '(1-%s)' % amount.lstrip('-')
            stxt = '(%s)*%s' % (base, factor)
            fn = (lambda m, x: ref.vscale(f(m, x), 1 + amt))
        else:
            unit = amount if one == '1' else '[%s, %s]' % (amount, amount)
            stxt = '%s + %s' % (base, unit)
            fn = (lambda m, x: ref.vshift(f(m, x), amt))
        prob = {'answers': {'lower': txt(a), 'upper': txt(b), 'summand': base, 'summation_variable': AUTHOR_VAR},
                'even_odd': p, 'tolerance': self.tols[ti], 'samples': 2,
                'input': [txt(a), txt(b), stxt, AUTHOR_VAR]}
        return prob, (a, b, f), (a, b, fn), exact

    def describe(self, case):
        return describe_prob(self.build(case)[0])

    def check(self, case):
        a, b, p, skey, ti, pi = case
        prob, author, student, exact = self.build(case)
        nontriv = bool(ref.index_set(a, b, p, 1000))
        tol = self.tols[ti]
        return judge(self.name, prob,
                     lambda xs: ref_verdict(author, student, p, 1000,
                                            DEFAULT_TOLERANCE if tol == UNSET else tol, xs, exact), nontriv,
                     sig_of=lambda exp, got, obs: 'tolerance:%s:%s-but-%s'
                     % ('default' if tol == UNSET else 'percent' if isinstance(tol, str) else
                        'zero' if tol == 0 else 'absolute', exp, got))


# ---------------------------------------------------------------------------------------- 2b. tolerance edges

EDGE_TOLS = (0, '0%', 0.01, '2%')
EDGE_PERTS = (('scale', '0'), ('scale', '0.000000000001'), ('add', '0.0000000001'), ('add', '0.008'), ('add', '0.1'))
EDGE_SUMMANDS = ('lin', 'vec', 'cpow')


class ToleranceEdges(Tolerance):
    name = 'tolerance_edges'
    tols = EDGE_TOLS
    perts = EDGE_PERTS
    rule = ('as `tolerance`, with the falsy-but-valid tolerances 0 and \'0%%\' (an unperturbed re-writing f*(1+0) must '
            'still be correct, any visible difference incorrect) and an amount (0.008 added to every component) that '
            'separates the norm of an array difference from its largest component at tolerance 0.01: a <= b in '
            '[-1, 2] (quick, even_odd 0) / [-3, 3] (thorough, all even_odd) x f in %s x tolerance in %s x (kind, amount) '
            'in %s; non-trivial = author sum non-empty' % (list(EDGE_SUMMANDS), list(EDGE_TOLS), list(EDGE_PERTS)))

    def cases(self, tier):
        lo, hi = (-1, 2) if tier == 'quick' else (-3, 3)
        for a in range(lo, hi + 1):
            for b in range(a, hi + 1):
                for p in ((0,) if tier == 'quick' else (0, 1, 2)):
                    for skey in EDGE_SUMMANDS:
                        for ti in range(len(EDGE_TOLS)):
                            for pi in range(len(EDGE_PERTS)):
                                yield (a, b, p, skey, ti, pi)


# ======================================================================================== 3. input positions

POS_BASES = ((-1, 3, 0, 'sq'), (2, -3, 1, 'alt'), (0, 4, 2, 'xlin'), (-2, 2, 0, 'vec'), (1, 4, 0, 'cpow'))
POS_MENU = {'lower': ('author', 'minus1'), 'upper': ('author', 'plus1'),
            'summand': ('author', 'plus_one', 'foreign_name'), 'summation_variable': ('n', 'k')}


def ordered_subsets():
    for r in range(1, 5):
        for comb in itertools.combinations(KEYS, r):
            for perm in itertools.permutations(comb):
                yield perm


class Positions(Family):
    name = 'input_positions'
    timeout = 20.0
    rule = ('every non-empty subset of the four fields in every order of input boxes (64 input_positions maps) x '
            '5 base problems %s x every combination of per-field entries %s (fields not entered stay the '
            'author\'s; a single box is submitted both as a list and as a bare string); expected from the reference '
            'sum of the structured submission, or a student-facing error when the summand names a variable that is '
            'neither the summation variable nor declared; non-trivial = some entered field differs from the author\'s'
            % (list(POS_BASES), POS_MENU))

    def cases(self, tier):
        for order in ordered_subsets():
            for bi in range(len(POS_BASES)):
                menus = [range(len(POS_MENU[k])) for k in order]
                for picks in itertools.product(*menus):
                    forms = (0, 1) if len(order) == 1 else (0,)
                    for form in forms:
                        yield (list(order), bi, list(picks), form)

    def build(self, case):
        order, bi, picks, form = case
        a, b, p, skey = POS_BASES[bi]
        tpl, f, one, exact, needs_x = SUMMANDS[skey]
        choice = dict(zip(order, picks))
        var = AUTHOR_VAR
        if 'summation_variable' in choice:
            var = POS_MENU['summation_variable'][choice['summation_variable']]
        lo = a - 1 if choice.get('lower') == 1 else a
        hi = b + 1 if choice.get('upper') == 1 else b
        smode = POS_MENU['summand'][choice['summand']] if 'summand' in choice else 'fixed'
        undefined = False
        plus = False
        if smode == 'fixed':
            stxt = sub(tpl, AUTHOR_VAR)
            undefined = (var != AUTHOR_VAR)
        elif smode == 'foreign_name':
            stxt = sub(tpl, 'q')
            undefined = True
        else:
            stxt = sub(tpl, var)
            if smode == 'plus_one':
                stxt += ' + ' + one
                plus = True
        fn = (lambda m, x: ref.vshift(f(m, x), 1)) if plus else f
        fields = {'lower': txt(lo), 'upper': txt(hi), 'summand': stxt, 'summation_variable': var}
        inp = [fields[k] for k in order]
        if form == 1:
            inp = inp[0]
        prob = {'answers': {'lower': txt(a), 'upper': txt(b), 'summand': sub(tpl, AUTHOR_VAR),
                            'summation_variable': AUTHOR_VAR},
                'positions': {k: i + 1 for i, k in enumerate(order)},
                'even_odd': p, 'tolerance': 1e-9, 'samples': 2, 'xvals': XVALS if needs_x else None,
                'input': inp}
        return prob, (a, b, f), (lo, hi, fn), exact, undefined, p

    def describe(self, case):
        return describe_prob(self.build(case)[0])

    def check(self, case):
        prob, author, student, exact, undefined, p = self.build(case)
        nontriv = any(case[2])
        if undefined:
            exp = lambda xs: 'student-error'
        else:
            exp = lambda xs: ref_verdict(author, student, p, 1000, 1e-9, xs, exact)
        return judge(self.name, prob, exp, nontriv,
                     sig_of=lambda e, got, obs: 'positions:%s:%s-but-%s' % ('+'.join(k[:5] for k in case[0]), e, got))


# ======================================================================================== 4. infinite limits

INF_AUTHORS = ((0, INF, 'geo2'), (1, INF, 'geo3'), (NINF, 0, 'pow2'), (1, INF, 'one'), (-2, INF, 'lin'),
               (NINF, INF, 'lin'), (NINF, INF, 'one'), (INF, 3, 'sq'))
INF_CUTOFFS = (7, 50, None)            # None = the documented default 1000
INF_VARIANTS = ('same', 'swap', 'rename', 'mirror', 'explicit', 'explicit-1', 'explicit+1', 'explicit-2',
                'explicit+2', 'drop_first', 'drop_first2', 'extra_first', 'shift', 'paired')


def _neg(t):
    return NINF if t == INF else INF if t == NINF else -t


class Infinite(Family):
    name = 'infinite_limits'
    timeout = 60.0
    rule = ('author sums with infinite limits %s x infty_val in {7, 50, default 1000} x even_odd x student '
            're-writings %s (explicit = the infinite limit typed as the cut-off itself, +-1, +-2; paired = two '
            'terms per index for the geometric summands); geometric summands make truncation differences fall '
            'inside the tolerance 1e-9 for the large cut-offs, the non-convergent ones (1, n, n^2) make every '
            'missing or extra term visible; quick tier uses the default cut-off only with even_odd = 0; '
            'non-trivial = re-writing != same' % (list(INF_AUTHORS), list(INF_VARIANTS)))

    def cases(self, tier):
        for ai in range(len(INF_AUTHORS)):
            for ci in range(len(INF_CUTOFFS)):
                for p in (0, 1, 2):
                    if tier == 'quick' and INF_CUTOFFS[ci] is None and p != 0:
                        continue
                    for v in INF_VARIANTS:
                        lo, hi, skey = INF_AUTHORS[ai]
                        finite = [t for t in (lo, hi) if t not in (INF, NINF)]
                        if v in ('drop_first', 'drop_first2', 'extra_first', 'shift') and not finite:
                            continue
                        if v == 'paired' and not (skey in ('geo2', 'geo3') and p == 0):
                            continue
                        yield (ai, ci, p, v)

    def build(self, case):
        ai, ci, p, v = case
        lo, hi, skey = INF_AUTHORS[ai]
        tpl, f, one, exact, needs_x = SUMMANDS[skey]
        cut = INF_CUTOFFS[ci]
        C = 1000 if cut is None else cut
        slo, shi, var, arg, g = lo, hi, AUTHOR_VAR, None, None
        fn = f

        def explicit(t, d):
            return C + d if t == INF else -(C + d) if t == NINF else t

        def inward(t, other, d):
            # move the finite end t by d towards (d > 0) or away from the other end
            towards = 1 if (other == INF or (other != NINF and other > t)) else -1
            return t + towards * d

        if v == 'swap':
            slo, shi = hi, lo
        elif v == 'rename':
            var = 'k'
        elif v == 'mirror':
            var, arg = 'm', '-m'
            slo, shi = _neg(hi), _neg(lo)
            fn = (lambda m, x: f(-m, x))
        elif v.startswith('explicit'):
            d = int(v[8:]) if len(v) > 8 else 0
            slo, shi = explicit(lo, d), explicit(hi, d)
        elif v in ('drop_first', 'drop_first2', 'extra_first'):
            d = {'drop_first': 1, 'drop_first2': 2, 'extra_first': -1}[v]
            if lo not in (INF, NINF):
                slo = inward(lo, hi, d)
            else:
                shi = inward(hi, lo, d)
        elif v == 'shift':
            var, arg = 'm', 'm+1'
            fn = (lambda m, x: f(m + 1, x))
            slo = lo - 1 if lo not in (INF, NINF) else lo
            shi = hi - 1 if hi not in (INF, NINF) else hi
        if v == 'paired':
            # sum_{n>=L} f(n) = sum_{m>=0} f(L+2m) + f(L+2m+1)
            L = lo
            var = 'm'
            stxt = sub(tpl, '2*m+%d' % L) + ' + ' + sub(tpl, '2*m+%d' % (L + 1))
            fn = (lambda m, x: ref.vadd(f(2 * m + L, x), f(2 * m + L + 1, x)))
            slo, shi = 0, INF
        else:
            stxt = sub(tpl, arg if arg is not None else var)
        prob = {'answers': {'lower': txt(lo), 'upper': txt(hi), 'summand': sub(tpl, AUTHOR_VAR),
                            'summation_variable': AUTHOR_VAR},
                'even_odd': p, 'tolerance': 1e-9, 'samples': 1 if C >= 1000 else 2, 'infty_val': cut,
                'input': [txt(slo), txt(shi), stxt, var]}
        return prob, (lo, hi, f), (slo, shi, fn), exact, C

    def describe(self, case):
        return describe_prob(self.build(case)[0])

    def check(self, case):
        ai, ci, p, v = case
        prob, author, student, exact, C = self.build(case)
        return judge(self.name, prob,
                     lambda xs: ref_verdict(author, student, p, C, 1e-9, xs, exact), v != 'same',
                     sig_of=lambda e, got, obs: 'infinite:%s:%s-but-%s' % (v, e, got))


# ======================================================================================== 4b. factorial cut-off

FC_SUMMANDS = (('1+0*fact({v})', lambda n, x: R(1)), ('{v}*fact(0)', lambda n, x: R(n)),
               # the factorial under its other documented name
               ('1+0*factorial({v})', lambda n, x: R(1)))
FC_CUTS = ((50, None), (50, 12), (9, 12))      # (infty_val, infty_val_fact); None = documented default 80
FC_VARIANTS = ('same', 'swap', 'rename', 'explicit_fact', 'explicit_fact-1', 'explicit_fact+1',
               'explicit_plain', 'nofact_infty', 'nofact_explicit_fact', 'nofact_explicit_plain')


class FactorialCutoff(Family):
    name = 'factorial_cutoff'
    timeout = 30.0
    rule = ('author sum_{n=0..infty} s(n), s in {1+0*fact(n), n*fact(0), 1+0*factorial(n)} (fact and factorial '
            'supplied through user_functions because scipy is absent) x (infty_val, infty_val_fact) in {(50, default 80), (50, 12), (9, 12)} x '
            'even_odd x student variants %s: the documented rule is that a sum whose summand uses the factorial '
            'replaces infinity by infty_val_fact, any other by infty_val; the summands do not converge so every '
            'missing or extra term is visible; non-trivial = variant != same' % (list(FC_VARIANTS),))

    def cases(self, tier):
        for si in range(len(FC_SUMMANDS)):
            for ci in range(len(FC_CUTS)):
                for p in (0, 1, 2):
                    for v in FC_VARIANTS:
                        yield (si, ci, p, v)

    def build(self, case):
        si, ci, p, v = case
        tpl, f = FC_SUMMANDS[si]
        C, Cf = FC_CUTS[ci]
        cf = 80 if Cf is None else Cf
        var = 'k' if v == 'rename' else AUTHOR_VAR
        plain = tpl.replace('factorial({v})', '{v}').replace('fact({v})', '{v}').replace('*fact(0)', '')
        slo, shi, stxt, scut = 0, INF, sub(tpl, var), cf
        if v == 'swap':
            slo, shi = INF, 0
        elif v.startswith('explicit_fact'):
            shi = cf + (int(v[13:]) if len(v) > 13 else 0)
        elif v == 'explicit_plain':
            shi = C
        elif v.startswith('nofact'):
            stxt, scut = sub(plain, var), C
            if v == 'nofact_explicit_fact':
                shi = cf
            elif v == 'nofact_explicit_plain':
                shi = C
        prob = {'answers': {'lower': '0', 'upper': 'infty', 'summand': sub(tpl, AUTHOR_VAR),
                            'summation_variable': AUTHOR_VAR},
                'even_odd': p, 'tolerance': 1e-9, 'samples': 2, 'infty_val': C, 'infty_val_fact': Cf,
                'user_fact': True, 'input': [txt(slo), txt(shi), stxt, var]}
        return prob, (0, INF, f), (slo, shi, f), (cf, scut)

    def describe(self, case):
        return describe_prob(self.build(case)[0])

    def check(self, case):
        si, ci, p, v = case
        prob, author, student, cuts = self.build(case)
        return judge(self.name, prob, lambda xs: ref_verdict(author, student, p, cuts, 1e-9, xs, True),
                     v != 'same', sig_of=lambda e, got, obs: 'factorial-cutoff:%s:%s-but-%s' % (v, e, got))


# ======================================================================================== 5. student errors

SUBSETS = [c for r in range(1, 5) for c in itertools.combinations(KEYS, r)]
BAD_LIMITS = (('noninteger', '1.5'), ('noninteger', '1/2'), ('noninteger', 'x+0.5'),
              # non-integers within rounding distance of an integer (0.3/0.1 = 2.9999999999999996, 0.1*3*10 = 3.0000000000000004)
              ('noninteger', '0.3/0.1'), ('noninteger', '0.1*3*10'), ('noninteger', '3+1e-10'), ('noninteger', '1e-10'),
              ('complex', 'i'),
              ('complex', '1+i'), ('complex', '2*i'), ('instructor-var', 'c'), ('instructor-var', 'c-5'),
              ('instructor-var', 'pi-pi'), ('blank', ''),
              # negative non-integers, a negative imaginary number, limits that evaluate to nan or to an array,
              # a field holding nothing but white space
              ('noninteger', '-1.5'), ('noninteger', '-1/2'), ('complex', '-i'), ('noninteger-nan', 'infty-infty'),
              ('noninteger-array', '[1, 2]'), ('blank', ' '),
              # complex-TYPED limits whose imaginary part cancels: (4+0j) is still not a real number for the library, and
              # whatever it does with it must reach the student as a library error -- also with debug=True, where
              # non-library exceptions are not wrapped
              ('complex-zero-imag', 'i^2+5'), ('complex-zero-imag', '4+0*i'), ('complex-zero-imag', 'j^4*4'),
              ('complex-zero-imag', 'i-i'))
BAD_SUMMANDS = (('instructor-var', 'c*{v}+x'), ('instructor-var', '5*{v}+x+0*c'), ('instructor-var', '5*{v}+x+0*pi'),
                ('blank', ''), ('blank', ' '))
BAD_VARS = (('variable-declared', 'x'), ('variable-constant', 'i'), ('variable-constant', 'j'),
            ('variable-constant', 'e'), ('variable-constant', 'infty'), ('variable-constant', 'pi'),
            ('variable-function', 'sin'), ('variable-function', 'sqrt'), ('variable-invalid-name', '2k'),
            ('variable-invalid-name', 'k k'), ('variable-invalid-name', '_k'), ('blank', ''),
            ('variable-user-function', 'uf'), ('variable-random-function', 'rf'),
            ('instructor-name-as-dummy', 'c'),
            ('blank', ' '), ('variable-user-constant', 'kc'), ('variable-function', 'fact'),
            ('variable-function', 'factorial'))


class StudentErrors(Family):
    name = 'student_errors'
    timeout = 20.0
    rule = ('author sum_{n=0..3} c*n+x (x in DiscreteSet(2,3), c = 5 instructor-only, pi also instructor-only; a user '
            'function uf, a random function rf where named, a user constant kc), '
            'every subset of input_positions x every entered field x its error alphabet (limits %s, summand %s, '
            'variable %s) x the other entered fields clean-correct or clean-incorrect (complex limits also with '
            'debug=True); expected: a student-facing '
            'error (StudentFacingError, not ConfigError), never a verdict; the instructor variable\'s name used as '
            'the dummy variable is recorded but not judged' % (list(BAD_LIMITS), list(BAD_SUMMANDS), list(BAD_VARS)))

    def cases(self, tier):
        for si, subset in enumerate(SUBSETS):
            for field in subset:
                alphabet = (BAD_LIMITS if field in ('lower', 'upper') else
                            BAD_SUMMANDS if field == 'summand' else BAD_VARS)
                for bi in range(len(alphabet)):
                    # clean 2, 3 = clean 0, 1 with debug=True (complex limits only)
                    for clean in (0, 1) + ((2, 3) if alphabet[bi][0].startswith('complex') else ()):
                        yield (si, field, bi, clean)

    def build(self, case):
        si, field, bi, clean = case
        debug, clean = clean >= 2, clean % 2
        subset = SUBSETS[si]
        alphabet = (BAD_LIMITS if field in ('lower', 'upper') else
                    BAD_SUMMANDS if field == 'summand' else BAD_VARS)
        kind, bad = alphabet[bi]
        var = AUTHOR_VAR
        body = '5*{v}+x' if clean == 0 else '5*{v}+x+1'
        fields = {'lower': '0', 'upper': '3', 'summation_variable': var}
        if field == 'summation_variable':
            var = bad
            fields['summation_variable'] = bad
            # the summand uses the offending name consistently wherever it can be written as a name, so that a
            # missing validation shows up as a verdict instead of an unrelated undefined-variable error
            usable = bad.replace('_', '').isalnum() and bad[:1].isalpha()
            fields['summand'] = body.replace('{v}', bad if usable else AUTHOR_VAR)
        elif field == 'summand':
            fields['summand'] = bad.replace('{v}', var)
        else:
            fields[field] = bad
            fields['summand'] = body.replace('{v}', var)
        prob = {'answers': {'lower': '0', 'upper': '3', 'summand': 'c*n+x', 'summation_variable': AUTHOR_VAR},
                'positions': {k: i + 1 for i, k in enumerate(subset)},
                'even_odd': 0, 'tolerance': 1e-9, 'samples': 2, 'xvals': XVALS, 'instr': True,
                'randfunc': kind == 'variable-random-function', 'debug': True if debug else None,
                'input': [fields[k] for k in subset]}
        return prob, kind

    def describe(self, case):
        return describe_prob(self.build(case)[0])

    def check(self, case):
        prob, kind = self.build(case)
        exp = 'anything' if kind == 'instructor-name-as-dummy' else 'student-error'
        return judge(self.name, prob, lambda xs: exp, True,
                     sig_of=lambda e, got, obs: 'student-error:%s-in-%s:%s' % (kind, case[1], got))


# ======================================================================================== 6. author errors

AUTH_LIMITS = (('noninteger-limit', '1.5'), ('noninteger-limit', '1/2'), ('noninteger-limit', 'x+0.5'),
               ('complex-limit', 'i'), ('complex-limit', '1+i'), ('blank-field', ''),
               ('unparseable-limit', '1+'), ('unparseable-limit', '(2'), ('nan-limit', 'infty-infty'),
               ('array-limit', '[1, 2]'), ('blank-field', ' '), ('noninteger-limit', '-1/2'),
               # fails only at the samples where x = 3
               ('sample-dependent:noninteger-limit', 'x/2-1'))
AUTH_SUMMANDS = (('division-by-zero', 'x/{v}'), ('undefined-variable', 'q*{v}'), ('unparseable-summand', '{v}+'),
                 ('unparseable-summand', 'sin({v}'), ('shape-error', '[{v}, {v}]+1'), ('blank-field', ''),
                 ('overflow', '3^(1000*{v})'), ('blank-field', ' '), ('undefined-function', 'foo({v})'),
                 ('sample-dependent:division-by-zero', '{v}/(x-3)'))
AUTH_VARS = (('conflicting-variable-declared', 'x'), ('conflicting-variable-constant', 'i'),
             ('conflicting-variable-constant', 'j'), ('conflicting-variable-constant', 'pi'),
             ('conflicting-variable-constant', 'e'), ('conflicting-variable-constant', 'infty'),
             # judged only where the variable is not entered by the student (otherwise the author's own sum need not fail)
             ('fixed-only:conflicting-variable-function', 'sin'), ('fixed-only:invalid-variable-name', '2k'),
             ('fixed-only:blank-field', ''), ('fixed-only:blank-field', ' '))
AUTH_BOTH = (('both-limits-infinite', 'infty'), ('both-limits-infinite', '-infty'))


class AuthorErrors(Family):
    name = 'author_errors'
    timeout = 20.0
    rule = ('author sum_{n=0..3} x*n (x in DiscreteSet(2,3)) with exactly one defect from the author alphabet '
            '(limits %s in lower or upper, both limits %s, summand %s, summation variable %s with the summand '
            're-written consistently) x every subset of input_positions; the student enters a clean, valid '
            'sum_{m=0..3} x*m in the boxes offered; expected: ConfigError on every execution (sample-dependent '
            'defects: ConfigError exactly on the executions where x = 3 is drawn at some sample, a plain verdict otherwise; '
            'defects of the summation variable that do not make the author\'s own sum fail are enumerated only where the '
            'variable is not entered by the student)'
            % (list(AUTH_LIMITS), list(AUTH_BOTH), list(AUTH_SUMMANDS), list(AUTH_VARS)))

    ALPH = ([('lower', k, v) for k, v in AUTH_LIMITS] + [('upper', k, v) for k, v in AUTH_LIMITS] +
            [('both', k, v) for k, v in AUTH_BOTH] + [('summand', k, v) for k, v in AUTH_SUMMANDS] +
            [('summation_variable', k, v) for k, v in AUTH_VARS])

    def cases(self, tier):
        for di in range(len(self.ALPH)):
            for si in range(len(SUBSETS)):
                if self.ALPH[di][1].startswith('fixed-only:') and self.ALPH[di][0] in SUBSETS[si]:
                    continue
                if (self.ALPH[di][1].startswith('sample-dependent:') and 'summation_variable' in SUBSETS[si]
                        and 'summand' not in SUBSETS[si]):
                    # the student's renamed variable with the author's fixed summand is an (unrelated) student-facing
                    # error at the first sample, which hides a failure of the author's sum at a later one
                    continue
                yield (di, si)

    def build(self, case):
        di, si = case
        field, kind, bad = self.ALPH[di]
        subset = SUBSETS[si]
        ans = {'lower': '0', 'upper': '3', 'summand': 'x*n', 'summation_variable': AUTHOR_VAR}
        if field == 'both':
            ans['lower'] = ans['upper'] = bad
        elif field == 'summand':
            ans['summand'] = bad.replace('{v}', AUTHOR_VAR)
        elif field == 'summation_variable':
            ans['summation_variable'] = bad
            ans['summand'] = 'x*' + bad
        else:
            ans[field] = bad
        svar = 'm' if 'summation_variable' in subset else ans['summation_variable']
        fields = {'lower': '0', 'upper': '3', 'summand': 'x*' + svar, 'summation_variable': svar}
        prob = {'answers': ans, 'positions': {k: i + 1 for i, k in enumerate(subset)},
                'even_odd': 0, 'tolerance': 1e-9, 'samples': 2, 'xvals': XVALS,
                'input': [fields[k] for k in subset]}
        defect_fields = ('lower', 'upper') if field == 'both' else (field,)
        if field == 'summation_variable':
            defect_fields = ('summation_variable',)
        mode = 'field-fixed' if any(k not in subset for k in defect_fields) else 'field-entered'
        return prob, kind, mode

    def describe(self, case):
        return describe_prob(self.build(case)[0])

    def check(self, case):
        prob, kind, mode = self.build(case)

        def sig(e, got, obs):
            cls = got
            if obs[0] in ('err', 'construct'):
                cls = [c for c in obs[1] if c in ('MissingInput', 'CalcError', 'InvalidInput', 'StudentFacingError',
                                                  'MITxError', 'Exception')][0]
            return 'author-side:%s:reported-as-%s' % (kind, cls)
        if kind.startswith('sample-dependent:'):
            # the author's sum fails exactly at the samples where x = 3; elsewhere nothing is wrong with it
            # (the student's clean entry, valid at every sample, may be right or wrong)
            exp = lambda xs: 'config-error' if 3 in xs else 'open'
        else:
            exp = lambda xs: 'config-error'
        return judge(self.name, prob, exp, True, sig_of=sig)


# ======================================================================================== 7. sample dependence

SD_XVALS = (1, 2, 3)
SD_LIMITS = ((0, 3), (-2, 2), (1, 4), (3, -1))
SD_VARIANTS = ('same', 'xsq', 'vanish12', 'vanish13', 'upper_x', 'lower_x-1', 'upper_x/2')


class SampleDependent(Family):
    name = 'sample_dependent'
    timeout = 30.0
    rule = ('author sum_{n=a..b} x*n, x in DiscreteSet(1,2,3), (a,b) in %s x even_odd x samples in {1,2,3} x '
            'student answers that agree with the author only for some values of x (x^2*n: x = 1; '
            'x*n+(x-1)*(x-2): x in {1,2}; x*n*(x-2)^2: x in {1,3}; upper limit x; lower limit x-1; upper limit x/2, an '
            'integer only for x = 2: a student-facing error as soon as an odd x is drawn at any sample); ALL 3^samples '
            'combinations of draws are explored and each is judged from the values actually drawn: correct iff the '
            'sums agree at EVERY sample; non-trivial = always (the expected verdict varies with the draws)'
            % (list(SD_LIMITS),))

    def cases(self, tier):
        for li in range(len(SD_LIMITS)):
            for p in (0, 1, 2):
                for s in (1, 2, 3):
                    for v in SD_VARIANTS:
                        yield (li, p, s, v)

    def build(self, case):
        li, p, s, v = case
        a, b = SD_LIMITS[li]
        f = (lambda n, x: R(x * n))
        lo, hi, lo_txt, hi_txt, stxt, fn = a, b, txt(a), txt(b), 'x*n', f
        if v == 'xsq':
            stxt, fn = 'x^2*n', (lambda n, x: R(x * x * n))
        elif v == 'vanish12':
            stxt, fn = 'x*n+(x-1)*(x-2)', (lambda n, x: R(x * n + (x - 1) * (x - 2)))
        elif v == 'vanish13':
            stxt, fn = 'x*n*(x-2)^2', (lambda n, x: R(x * n * (x - 2) ** 2))
        elif v == 'upper_x':
            hi, hi_txt = (lambda x: x), 'x'
        elif v == 'lower_x-1':
            lo, lo_txt = (lambda x: x - 1), 'x-1'
        elif v == 'upper_x/2':
            # an integer only where x = 2
            hi, hi_txt = (lambda x: x // 2), 'x/2'
        prob = {'answers': {'lower': txt(a), 'upper': txt(b), 'summand': 'x*n', 'summation_variable': AUTHOR_VAR},
                'even_odd': p, 'tolerance': 1e-9, 'samples': s, 'xvals': SD_XVALS,
                'input': [lo_txt, hi_txt, stxt, AUTHOR_VAR]}
        return prob, (a, b, f), (lo, hi, fn)

    def describe(self, case):
        return describe_prob(self.build(case)[0])

    def check(self, case):
        li, p, s, v = case
        prob, author, student = self.build(case)
        def exp(xs):
            if v == 'upper_x/2' and any(x % 2 for x in xs):
                return 'student-error'        # a non-integer limit at some sample
            return ref_verdict(author, student, p, 1000, 1e-9, xs, True)
        res = judge(self.name, prob, exp, True,
                    sig_of=lambda e, got, obs: 'sample-dependent:%s:%s-but-%s' % (v, e, got))
        if res.violation is None and res.calls != len(SD_XVALS) ** s:
            res.violation = viol('sampling:explored-%d-of-%d-draw-combinations' % (res.calls, len(SD_XVALS) ** s),
                                 'the sampled variable was not drawn once per sample', len(SD_XVALS) ** s, res.calls)
        return res


# ======================================================================================== 8. documented defaults

DEF_TRANSFORMS = ('same', 'swap', 'rename', 'shift_up', 'reverse', 'upper+1', 'lower-1', 'plus_one')
DEF_NAMES = ('k_', "k''", 'n2', 'e1', 'E', 'I', 'J', 'lambda', 'in', 'a_b_c', 'infty1', 'Infty', 'dx')
DEF_SUMMANDS = ('lin', 'xlin', 'vec')
DEF_MODES = ('bare', 'debug')


class Defaults(Family):
    name = 'defaults'
    timeout = 20.0
    rule = ('SumGrader built from `answers` alone (plus the sampled variable where the summand needs one): even_odd, '
            'samples, tolerance, input_positions and infty_val are all LEFT OUT, so the documented defaults apply (every '
            'integer, 2 samples, absolute 1e-12, four boxes in the standard order); mode debug adds debug=True, which '
            'must not change a verdict.  author sum_{n=a..b} f(n), (a, b) in [-R, R]^2 (R = 2 quick, 4 thorough) x f in '
            '%s x re-writings %s (the shift by one and the reversal are sums equal to the author\'s only when EVERY '
            'integer is summed) x mode in %s; plus sum_{n=0..3} renamed to each of %s (names without any other '
            'meaning: free renaming); the number of explored draw combinations must be |X|^2 (two samples); '
            'non-trivial = re-writing != same'
            % (list(DEF_SUMMANDS), list(DEF_TRANSFORMS), list(DEF_MODES), list(DEF_NAMES)))

    def cases(self, tier):
        r = 2 if tier == 'quick' else 4
        rng = sorted(range(-r, r + 1), key=lambda v: (abs(v), v))
        for a in rng:
            for b in rng:
                for skey in DEF_SUMMANDS:
                    for t in DEF_TRANSFORMS:
                        for mode in DEF_MODES:
                            yield (a, b, skey, t, mode)
        for nm in DEF_NAMES:
            for skey in ('lin', 'xlin'):
                yield (0, 3, skey, 'name:' + nm, 'bare')

    def build(self, case):
        a, b, skey, t, mode = case
        tpl, f, one, exact, needs_x = SUMMANDS[skey]
        if t.startswith('name:'):
            var = t[5:]
            lo, hi, lo_txt, hi_txt, stxt, fn = a, b, txt(a), txt(b), sub(tpl, var), f
        else:
            lo, hi, lo_txt, hi_txt, var, stxt, fn = student_rewrite(a, b, 0, skey, t)
        prob = {'answers': {'lower': txt(a), 'upper': txt(b), 'summand': sub(tpl, AUTHOR_VAR),
                            'summation_variable': AUTHOR_VAR},
                'even_odd': 0, 'tolerance': UNSET, 'samples': 2, 'omit': ['even_odd', 'samples'],
                'debug': True if mode == 'debug' else None,
                'xvals': XVALS if needs_x else None,
                'input': [lo_txt, hi_txt, stxt, var]}
        return prob, (a, b, f), (lo, hi, fn), exact, needs_x

    def describe(self, case):
        return describe_prob(self.build(case)[0])

    def check(self, case):
        a, b, skey, t, mode = case
        prob, author, student, exact, needs_x = self.build(case)
        res = judge(self.name, prob,
                    lambda xs: ref_verdict(author, student, 0, 1000, DEFAULT_TOLERANCE, xs, exact), t != 'same',
                    sig_of=lambda e, got, obs: 'defaults:%s:%s:%s-but-%s' % (mode, t.split(':')[0], e, got))
        want = len(XVALS) ** 2 if needs_x else 1
        if res.violation is None and res.calls != want:
            res.violation = viol('defaults:samples:explored-%d-of-%d-draw-combinations' % (res.calls, want),
                                 'the sampled variable was not drawn once for each of the 2 default samples',
                                 want, res.calls)
        return res


# ======================================================================================== 9. pairs of limits

LP_LIMITS = (('int', '-2'), ('int', '3'), ('int', '0'), ('inf', 'infty'), ('ninf', '-infty'),
             ('nonint', '1.5'), ('nonint', '-1/2'), ('nonint', 'infty-infty'), ('nonint', '[1, 2]'),
             ('complex', 'i'), ('complex', '-2*i'), ('complex', '1.5+i'))
LP_SIDES = ('student', 'author-all-boxes', 'author-summand-box')
LP_CUTOFF = 6


def _lp_value(kind, text):
    return int(text) if kind == 'int' else INF if kind == 'inf' else NINF if kind == 'ninf' else None


class LimitPairs(Family):
    name = 'limit_pairs'
    timeout = 20.0
    rule = ('EVERY ordered pair (lower, upper) from %s x even_odd x side: (student) the pair is submitted against the '
            'author\'s sum_{n=-2..3} 2^n; (author-all-boxes / author-summand-box) the pair is the AUTHOR\'s and the '
            'student enters a clean sum_{m=-2..3} 2^m in four boxes / only the summand.  infty_val = %d.  Expected: a '
            'non-integer (also nan, an array) or complex limit on either position -- whatever the other limit is, '
            'infinite ones included -- gives a student-facing error on the student\'s side and a ConfigError on the '
            'author\'s; otherwise the verdict of the reference sums (2^n makes sums over different index sets '
            'different); the same infinity twice is left open for the student and is a ConfigError for the author; '
            'non-trivial = always except the student\'s pair being the author\'s text'
            % ([t for k, t in LP_LIMITS], LP_CUTOFF))

    def cases(self, tier):
        for li in range(len(LP_LIMITS)):
            for ui in range(len(LP_LIMITS)):
                for p in (0, 1, 2):
                    for side in LP_SIDES:
                        yield (li, ui, p, side)

    def build(self, case):
        li, ui, p, side = case
        (lk, lt), (uk, ut) = LP_LIMITS[li], LP_LIMITS[ui]
        tpl, f, one, exact, needs_x = SUMMANDS['pow2']
        positions = None
        if side == 'student':
            answers = {'lower': '-2', 'upper': '3', 'summand': '2^n', 'summation_variable': 'n'}
            inp = [lt, ut, '2^n', 'n']
        else:
            answers = {'lower': lt, 'upper': ut, 'summand': '2^n', 'summation_variable': 'n'}
            if side == 'author-all-boxes':
                inp = ['-2', '3', '2^m', 'm']
            else:
                positions = {'summand': 1}
                inp = ['2^n*1']
        prob = {'answers': answers, 'positions': positions, 'even_odd': p, 'tolerance': 1e-9, 'samples': 2,
                'infty_val': LP_CUTOFF, 'input': inp}
        bad = any(k in ('nonint', 'complex') for k in (lk, uk))
        lo, hi = _lp_value(lk, lt), _lp_value(uk, ut)
        return prob, bad, lo, hi, f

    def describe(self, case):
        return describe_prob(self.build(case)[0])

    def check(self, case):
        li, ui, p, side = case
        prob, bad, lo, hi, f = self.build(case)
        base = (-2, 3, f)
        if side == 'student':
            if bad:
                exp = lambda xs: 'student-error'
            else:
                exp = lambda xs: ref_verdict(base, (lo, hi, f), p, LP_CUTOFF, 1e-9, xs, True)
        else:
            if bad or (lo in (INF, NINF) and lo == hi):
                exp = lambda xs: 'config-error'
            else:
                student = base if side == 'author-all-boxes' else (lo, hi, f)
                exp = lambda xs: ref_verdict((lo, hi, f), student, p, LP_CUTOFF, 1e-9, xs, True)
        nontriv = not (side == 'student' and (LP_LIMITS[li][1], LP_LIMITS[ui][1]) == ('-2', '3'))
        kinds = '%s/%s' % (LP_LIMITS[li][0], LP_LIMITS[ui][0])
        return judge(self.name, prob, exp, nontriv,
                     sig_of=lambda e, got, obs: 'limit-pairs:%s:%s:%s-but-%s' % (side, kinds, e, got))


# ======================================================================================== 10. one grader, several calls

def _ru_all2(xs):
    return 'correct' if all(x == 2 for x in xs) else 'incorrect'


RU_SUBS = (('same', ('0', '3', 'x*n+1', 'n'), lambda xs: 'correct'),
           ('shifted', ('1', '4', 'x*(k-1)+1', 'k'), lambda xs: 'correct'),
           ('upper+1', ('0', '4', 'x*n+1', 'n'), lambda xs: 'incorrect'),
           ('right-only-for-x=2', ('0', '3', 'x*n+1+(x-2)', 'n'), _ru_all2),
           ('infinite-wrong', ('-infty', '3', 'x*n+1', 'n'), lambda xs: 'incorrect'),
           ('noninteger-limit', ('0.5', '3', 'x*n+1', 'n'), lambda xs: 'student-error'),
           ('variable-declared', ('0', '3', 'x*x+1', 'x'), lambda xs: 'student-error'),
           ('fails-mid-sum', ('0', '3', 'x*n+1+0/(n-2)', 'n'), lambda xs: 'anything'),
           ('blank-summand', ('0', '3', '', 'n'), lambda xs: 'student-error'))
RU_XVALS = (2, 3)
RU_TRIPLE_ALPHABET = (0, 2, 3, 5, 6, 7)      # indices into RU_SUBS used for the sequences of three calls
RU_ARRANGEMENTS = ('one-grader', 'two-graders-sharing-config-objects')


class Reuse(Family):
    name = 'reuse'
    timeout = 60.0
    rule = ('sequences of calls instead of a fresh grader per call: author sum_{n=0..3} x*n+1, x in DiscreteSet(2,3), '
            '2 samples, infty_val 5; EVERY sequence of 2 submissions from %s (thorough: also every sequence of 3 from '
            'same, upper+1, right-only-for-x=2, noninteger-limit, variable-declared, fails-mid-sum on one grader) -- verdicts, '
            'submissions that raise before, during and after sampling -- made (one-grader) on the same SumGrader '
            'object or (two-graders-sharing-config-objects) alternately on two SumGraders built from the very same '
            'answers / input_positions / sample_from objects; ALL draw combinations of all calls are explored '
            'and EVERY call is judged on its own from the values drawn during that call: no call may depend on '
            'what was graded, or raised, before; non-trivial = always' % ([n for n, i, e in RU_SUBS],))

    def cases(self, tier):
        n = len(RU_SUBS)
        for arr in range(len(RU_ARRANGEMENTS)):
            for seq in itertools.product(range(n), repeat=2):
                yield (arr, list(seq))
        if tier != 'quick':
            for seq in itertools.product(RU_TRIPLE_ALPHABET, repeat=3):
                yield (0, list(seq))

    def describe(self, case):
        arr, seq = case
        return {'arrangement': RU_ARRANGEMENTS[arr],
                'config': {'answers': {'lower': '0', 'upper': '3', 'summand': 'x*n+1', 'summation_variable': 'n'},
                           'variables': ['x'], 'sample_from': {'x': 'DiscreteSet((2, 3))'}, 'samples': 2,
                           'tolerance': 1e-9, 'infty_val': 5},
                'calls': [list(RU_SUBS[i][1]) for i in seq]}

    def check(self, case):
        import mitxgraders
        arr, seq = case

        def body(ch):
            answers = {'lower': '0', 'upper': '3', 'summand': 'x*n+1', 'summation_variable': 'n'}
            positions = {'lower': 1, 'upper': 2, 'summand': 3, 'summation_variable': 4}
            sample_from = {'x': mitxgraders.DiscreteSet(RU_XVALS)}
            variables = ['x']

            def make():
                return mitxgraders.SumGrader(answers=answers, input_positions=positions, variables=variables,
                                             sample_from=sample_from, samples=2, tolerance=1e-9, infty_val=5)
            g1 = make()
            g2 = make() if arr == 1 else g1
            out = []
            for k, si in enumerate(seq):
                start = len(ch.points)
                obs = observe(g1 if k % 2 == 0 else g2, list(RU_SUBS[si][1]))
                out.append((obs, start, len(ch.points)))
            return out

        calls = 0
        seen = set()
        first = None
        for ch, out in explore(body, bound=None):
            for k, (obs, start, end) in enumerate(out):
                calls += 1
                name, inp, exp_of = RU_SUBS[seq[k]]
                xs = [RU_XVALS[c] for (kind, n), c in zip(ch.points[start:end], ch.choices[start:end])
                      if kind == 'choice/%d' % len(RU_XVALS)]
                exp = exp_of(xs)
                got = classify(obs)
                seen.add('%s->%s' % (exp, got))
                if got not in ALLOWED[exp] and first is None:
                    first = viol('reuse:%s:call-%d-of-%d:%s:%s-but-%s'
                                 % (RU_ARRANGEMENTS[arr], k + 1, len(seq), name, exp, got),
                                 'call %d (%s) after %s: expected %s, observed %s'
                                 % (k + 1, name, [RU_SUBS[i][0] for i in seq[:k]], exp, got),
                                 {'expected': exp, 'sampled_x_in_this_call': xs, 'history': self.describe(case)},
                                 {'class': got, 'raw': obs})
        return Result('|'.join(sorted(seen)), True, first, calls)


# ======================================================================================== registry

EQUIV_KEYS = ('lin', 'sq', 'alt', 'pow2', 'xlin', 'cpow', 'vec')


def families(tier):
    fams = [Equivalence(k) for k in EQUIV_KEYS]
    fams += [Tolerance(), Positions(), Infinite(), FactorialCutoff(), StudentErrors(), AuthorErrors(), SampleDependent()]
    fams += [ToleranceEdges(), Defaults(), LimitPairs(), Reuse()]
    return fams
