"""
C19 -- SumGrader accepts exactly the sums equal in value to the author's.

ENUM + CHOICE.  Every case builds a fresh SumGrader from an author-level configuration, submits one
student response through the public call `grader(None, inputs)` and compares the verdict (or the class
of the error) with a reference computed in exact rational arithmetic over the explicit index set
(mcv.refs.c19_ref, written from the property statement and docs/grading_math/sum_grader.md).

Sampled variables are DiscreteSets; the library's `random.choice` is owned by mcv.chooser and the FULL
product of all draws is explored, so the oracle knows the value of every sampled variable at every sample.
"""
import itertools
from fractions import Fraction as F

from ..core import Family, Result, viol
from ..chooser import explore, run_with
from ..refs import c19_ref as ref
from ..refs.c19_ref import INF, NINF, R, V, ipow

PROPERTY = 'C19'
RULE = ('each family enumerates a full product: author limits x parity mode x summand x student re-writing '
        '(equivalence / tolerance), ordered subsets of input_positions x per-field menus (positions), author sums '
        'with infinite limits x cut-offs x student re-writings (infinite), error alphabets x subsets of '
        'input_positions (student / author errors), and all draws of the sampled variable (sample_dependent). '
        'A case is non-trivial when the submitted text differs from the author\'s text and the author\'s index '
        'set is not empty (for error families: always), i.e. when a wrong implementation is distinguishable')
EXPLANATION = ('states = distinct (configuration, submission) cases; transitions = executions of the real '
               'SumGrader(...)(None, inputs), one per combination of RNG draws; every execution runs the '
               'implementation itself')
ASSUMPTIONS = [
    'scipy is absent: fact/factorial (and with them the infty_val_fact cut-off) and IntegralGrader are not exercised',
    'guard band: differences within 1% (+1e-11) of the tolerance are not judged; with an effectively zero '
    'tolerance (percentage of a zero sum) inexact floating-point summands (i^n) are not judged',
    'an empty sum (value 0) compared with an array-valued sum is left open (error or incorrect both accepted)',
    'both limits the same infinity, non-integer cut-offs, and an instructor variable\'s NAME reused as the '
    'student\'s summation variable are left open',
    'exact class and wording of errors are free: "student-facing" = StudentFacingError in the MRO and not '
    'ConfigError; "configuration error" = ConfigError',
    'failable_evals = 0 throughout',
]

KEYS = ('lower', 'upper', 'summand', 'summation_variable')
AUTHOR_VAR = 'n'


# ---------------------------------------------------------------------------------------- text helpers

def txt(t):
    if t == INF:
        return 'infty'
    if t == NINF:
        return '-infty'
    return str(int(t))


def sub(tpl, v):
    """substitute the expression v for the placeholder {v}; parenthesised unless it is a bare name"""
    if not v.replace('_', '').isalnum():
        v = '(' + v + ')'
    return tpl.replace('{v}', v)


# ---------------------------------------------------------------------------------------- summands
# key -> (template, python function (n, x) -> exact value, text of "one" of the same shape,
#         exact in binary floating point?, needs sampled x?)

def _pow2(n, x):
    return R(F(2) ** n)


def _geo2(n, x):
    return R(F(1, 2) ** n)


def _geo3(n, x):
    return R(F(1, 3) ** n)


SUMMANDS = {
    'lin':  ('{v}',            lambda n, x: R(n),                  '1',      True,  False),
    'sq':   ('{v}^2',          lambda n, x: R(n * n),              '1',      True,  False),
    'alt':  ('(-1)^{v}*{v}',   lambda n, x: R((-1) ** (n % 2) * n), '1',     True,  False),
    'pow2': ('2^{v}',          _pow2,                              '1',      True,  False),
    'xlin': ('x*{v}+1',        lambda n, x: R(x * n + 1),          '1',      True,  True),
    'cpow': ('i^{v}',          lambda n, x: ipow(n),               '1',      False, False),
    'vec':  ('[{v}, {v}^2]',   lambda n, x: V(n, n * n),           '[1, 1]', True,  False),
    'geo2': ('(1/2)^{v}',      _geo2,                              '1',      True,  False),
    'geo3': ('(1/3)^{v}',      _geo3,                              '1',      False, False),
    'one':  ('1+0*{v}',        lambda n, x: R(1),                  '1',      True,  False),
}
XVALS = (2, 3)


# ---------------------------------------------------------------------------------------- running the real code

def observe(grader, inp):
    try:
        r = grader(None, inp)
    except Exception as e:        # noqa: the harness judges whatever escapes
        return ('err', [c.__name__ for c in type(e).__mro__], str(e)[:300])
    return ('ok', r)


def classify(obs):
    if obs[0] == 'construct':
        return 'construct-error'
    if obs[0] == 'ok':
        r = obs[1]
        if isinstance(r, dict) and r.get('ok') is True and r.get('grade_decimal') == 1:
            return 'correct'
        if isinstance(r, dict) and r.get('ok') is False and r.get('grade_decimal') == 0:
            return 'incorrect'
        return 'malformed-result'
    mro = obs[1]
    if 'ConfigError' in mro:
        return 'config-error'
    if 'StudentFacingError' in mro:
        return 'student-error'
    return 'other-error'


def _user_fact(n):
    import math
    return float(math.factorial(int(round(n))))


UNSET = '<tolerance not configured>'
DEFAULT_TOLERANCE = 1e-12       # docs/grading_math/sum_grader.md


def _user_uf(t):
    return t * t + 1


def executions(prob):
    """
    Runs the problem once for every combination of RNG draws.  Yields (xs, obs):
    xs = values drawn for the sampled variable x in sample order (or [None] * samples when there is none).
    prob keys: answers, positions, even_odd, tolerance, infty_val, samples, xvals, instr, input
    """
    import mitxgraders
    xvals = prob.get('xvals')
    samples = prob.get('samples', 2)

    def body(ch):
        cfg = {'answers': dict(prob['answers']), 'even_odd': prob.get('even_odd', 0),
               'tolerance': prob.get('tolerance', 1e-9), 'samples': samples}
        if cfg['tolerance'] == UNSET:
            del cfg['tolerance']        # the documented default (an absolute 1e-12) applies
        if prob.get('positions') is not None:
            cfg['input_positions'] = dict(prob['positions'])
        if prob.get('infty_val') is not None:
            cfg['infty_val'] = prob['infty_val']
        if prob.get('user_fact'):
            # scipy is absent, so the built-in fact cannot be evaluated: the author supplies one
            cfg['user_functions'] = {'fact': _user_fact}
            cfg['suppress_warnings'] = True
            if prob.get('infty_val_fact') is not None:
                cfg['infty_val_fact'] = prob['infty_val_fact']
        variables, sample_from = [], {}
        if xvals:
            variables.append('x')
            sample_from['x'] = mitxgraders.DiscreteSet(tuple(xvals))
        if prob.get('instr'):
            # the author also defines an ordinary and a random function
            cfg['user_functions'] = dict(cfg.get('user_functions', {}), uf=_user_uf)
            if prob.get('randfunc'):
                cfg['user_functions']['rf'] = mitxgraders.RandomFunction()
            variables.append('c')
            sample_from['c'] = mitxgraders.DiscreteSet((5,))
            cfg['instructor_vars'] = ['c', 'pi']
        if variables:
            cfg['variables'] = variables
            cfg['sample_from'] = sample_from
        try:
            g = mitxgraders.SumGrader(**cfg)
        except Exception as e:     # noqa
            return ('construct', [c.__name__ for c in type(e).__mro__], str(e)[:300])
        return observe(g, prob['input'])

    if prob.get('randfunc'):
        # the coefficients of a random function are many continuous draws: one execution with the default answers
        runs = [run_with(body)]
    else:
        runs = explore(body, bound=None)
    for ch, obs in runs:
        if xvals:
            kind = 'choice/%d' % len(xvals)
            xs = [xvals[c] for (k, n), c in zip(ch.points, ch.choices) if k == kind]
        else:
            xs = [None] * samples
        yield xs, obs


def ref_verdict(author, student, p, cutoff, tol, xs, exact):
    """
    author / student = (lo, hi, f): limits (int / INF / NINF, or a function of x) and the python summand.
    cutoff: the value replacing infinity, or a pair (author's, student's).
    Returns 'correct' / 'incorrect' / 'open' / 'shape' / 'degenerate' over all samples.
    """
    per = []
    cutoffs = cutoff if isinstance(cutoff, tuple) else (cutoff, cutoff)
    for x in xs:
        vals = []
        for (lo, hi, f), cut in zip((author, student), cutoffs):
            lo = lo(x) if callable(lo) else lo
            hi = hi(x) if callable(hi) else hi
            idx = ref.index_set(lo, hi, p, cut)
            if idx == 'degenerate':
                return 'degenerate'
            vals.append(ref.ref_sum(f, idx, x))
        per.append(ref.compare(vals[0], vals[1], tol, exact))
    return ref.combine(per)


ALLOWED = {
    'correct': ('correct',),
    'incorrect': ('incorrect',),
    'open': ('correct', 'incorrect'),
    'shape': ('incorrect', 'student-error'),
    'shape-zero': ('correct', 'incorrect', 'student-error'),
    'degenerate': ('correct', 'incorrect', 'student-error'),
    'student-error': ('student-error',),
    'config-error': ('config-error',),
    'anything': ('correct', 'incorrect', 'student-error'),
}


def expected_over(expected_of, xs, prob):
    """
    Expected class for the values drawn.  When the call stopped before all samples were drawn (an error
    raised early), the expectation is taken over every completion of the draws: the common class if they
    all agree, else 'open' (which admits no error).
    """
    n = prob.get('samples', 2)
    if len(xs) >= n or not prob.get('xvals'):
        return expected_of(list(xs[:n]) if prob.get('xvals') else [None] * n)
    classes = set()
    for rest in itertools.product(prob['xvals'], repeat=n - len(xs)):
        classes.add(expected_of(list(xs) + list(rest)))
    return classes.pop() if len(classes) == 1 else 'open'


def judge(fam, prob, expected_of, nontrivial, sig_of=None, desc=None):
    """
    Runs all executions of prob; expected_of(xs) -> expected class; returns a Result.
    sig_of(expected, got, obs) -> signature (default '<fam>:<expected>-but-<got>').
    """
    calls = 0
    seen = set()
    first = None
    for xs, obs in executions(prob):
        calls += 1
        got = classify(obs)
        exp = expected_over(expected_of, xs, prob)
        bad = None
        if got not in ALLOWED[exp]:
            bad = sig_of(exp, got, obs) if sig_of else '%s:%s-but-%s' % (fam, exp, got)
        seen.add('%s->%s' % (exp, got))
        if bad and first is None:
            first = viol(bad, 'expected %s, observed %s' % (exp, got),
                         {'expected': exp, 'sampled_x': xs, 'problem': desc or describe_prob(prob)},
                         {'class': got, 'raw': obs})
    outcome = '|'.join(sorted(seen))
    return Result(outcome, nontrivial, first, calls)


def describe_prob(prob):
    d = {k: prob[k] for k in ('answers', 'positions', 'even_odd', 'tolerance', 'infty_val', 'infty_val_fact',
                              'user_fact', 'samples', 'xvals', 'instr', 'randfunc', 'input') if prob.get(k) is not None}
    return d


# ======================================================================================== 1. equivalence

TRANSFORMS = ('same', 'swap', 'rename', 'rename_prime', 'rename_upper', 'rename_mixed', 'shift_up', 'shift_dn', 'reverse', 'expr_limits', 'plus_one',
              'upper+1', 'upper+2', 'lower-1', 'lower-2', 'offset1')


def student_rewrite(a, b, p, skey, tkey):
    """-> (lo, hi, lo_txt, hi_txt, var, summand_txt, pyfunc) for a re-writing of sum_{n=a..b} f(n)"""
    tpl, f, one, exact, needs_x = SUMMANDS[skey]
    lo, hi, var, arg, g, plus = a, b, AUTHOR_VAR, None, (lambda m: m), False
    lo_txt = hi_txt = None
    if tkey == 'same':
        pass
    elif tkey == 'swap':
        lo, hi = b, a
    elif tkey == 'rename':
        var = 'k'
    elif tkey == 'rename_prime':
        var = "t_1'"
    elif tkey == 'rename_upper':
        var = 'N'
    elif tkey == 'rename_mixed':
        var = "kMax_2'"
    elif tkey in ('shift_up', 'shift_dn', 'offset1'):
        s = {'shift_up': 1 if p == 0 else 2, 'shift_dn': -2, 'offset1': 1}[tkey]
        var = 'm'
        arg = 'm+%d' % s if s > 0 else 'm-%d' % -s
        g = (lambda m, s=s: m + s)
        lo, hi = a - s, b - s
    elif tkey == 'reverse':
        var = 'm'
        arg = '-m'
        g = (lambda m: -m)
        lo, hi = -b, -a
    elif tkey == 'expr_limits':
        lo_txt = '(%d)+0' % a
        hi_txt = '(%d)*2/2' % b
    elif tkey == 'plus_one':
        plus = True
    elif tkey in ('upper+1', 'upper+2'):
        hi = b + int(tkey[-1])
    elif tkey in ('lower-1', 'lower-2'):
        lo = a - int(tkey[-1])
    else:
        raise ValueError(tkey)
    stxt = sub(tpl, arg if arg is not None else var)
    if plus:
        stxt = stxt + ' + ' + one
        fn = (lambda m, x: ref.vshift(f(g(m), x), 1))
    else:
        fn = (lambda m, x: f(g(m), x))
    return (lo, hi, lo_txt or txt(lo), hi_txt or txt(hi), var, stxt, fn)


class Equivalence(Family):
    timeout = 20.0

    def __init__(self, skey):
        self.skey = skey
        self.name = 'equiv_' + skey
        tpl = SUMMANDS[skey][0]
        self.rule = ('author sum_{n=a..b} %s for every (a, b) in [-R, R]^2 (R = 4 quick, 12 thorough; both orders) '
                     'x even_odd in {0,1,2} x student re-writings %s; tolerance 1e-9, samples 2%s; expected verdict '
                     'from exact reference sums; non-trivial = author index set non-empty and re-writing != same'
                     % (sub(tpl, 'n'), list(TRANSFORMS),
                        ', x sampled from DiscreteSet%r with all draws explored' % (XVALS,)
                        if SUMMANDS[skey][4] else ''))

    def cases(self, tier):
        r = 4 if tier == 'quick' else 12
        rng = sorted(range(-r, r + 1), key=lambda v: (abs(v), v))
        for a in rng:
            for b in rng:
                for p in (0, 1, 2):
                    for t in TRANSFORMS:
                        if t == 'offset1' and p == 0:
                            continue
                        yield (a, b, p, self.skey, t)

    def build(self, case):
        a, b, p, skey, t = case
        tpl, f, one, exact, needs_x = SUMMANDS[skey]
        lo, hi, lo_txt, hi_txt, var, stxt, fn = student_rewrite(a, b, p, skey, t)
        prob = {'answers': {'lower': txt(a), 'upper': txt(b), 'summand': sub(tpl, AUTHOR_VAR),
                            'summation_variable': AUTHOR_VAR},
                'even_odd': p, 'tolerance': 1e-9, 'samples': 2,
                'xvals': XVALS if needs_x else None,
                'input': [lo_txt, hi_txt, stxt, var]}
        return prob, (a, b, f), (lo, hi, fn), exact

    def describe(self, case):
        return describe_prob(self.build(case)[0])

    def check(self, case):
        a, b, p, skey, t = case
        prob, author, student, exact = self.build(case)
        nontriv = t != 'same' and bool(ref.index_set(a, b, p, 1000))
        return judge(self.name, prob,
                     lambda xs: ref_verdict(author, student, p, 1000, 1e-9, xs, exact), nontriv,
                     sig_of=lambda exp, got, obs: 'equivalence:%s:%s-but-%s' % (t, exp, got))


# ======================================================================================== 2. tolerance

TOLS = (1e-9, 0.01, '0.1%', '1%', '50%', UNSET)
PERTS = (('scale', '0.000000000001'), ('scale', '0.00002'), ('scale', '0.0005'), ('scale', '0.002'), ('scale', '0.005'),
         ('scale', '0.02'), ('scale', '0.4'), ('scale', '0.6'), ('scale', '-0.4'),
         ('add', '0.0000000001'), ('add', '0.00000001'), ('add', '0.001'), ('add', '0.1'))
TOL_SUMMANDS = ('lin', 'sq', 'pow2', 'cpow', 'vec')
TOL_SUMMANDS_QUICK = ('lin', 'cpow', 'vec')


class Tolerance(Family):
    name = 'tolerance'
    timeout = 20.0
    rule = ('author sum_{n=a..b} f(n), a <= b in [-R, R] (R = 2 quick, 5 thorough) x even_odd x f in %s x '
            '(quick: lin, cpow, vec only) x tolerance in %s x student summand f*(1+d) or f+e with (kind, amount) in %s; expected: '
            '|difference| against the tolerance (a percentage is taken of the AUTHOR\'s value; not configured = the documented '
            'absolute 1e-12) with a 1%% guard '
            'band; non-trivial = author sum non-empty'
            % (list(TOL_SUMMANDS), list(TOLS), list(PERTS)))

    def cases(self, tier):
        r = 2 if tier == 'quick' else 5
        for a in range(-r, r + 1):
            for b in range(a, r + 1):
                for p in (0, 1, 2):
                    for skey in (TOL_SUMMANDS_QUICK if tier == 'quick' else TOL_SUMMANDS):
                        for ti in range(len(TOLS)):
                            for pi in range(len(PERTS)):
                                yield (a, b, p, skey, ti, pi)

    def build(self, case):
        a, b, p, skey, ti, pi = case
        tpl, f, one, exact, needs_x = SUMMANDS[skey]
        kind, amount = PERTS[pi]
        amt = F(amount)
        base = sub(tpl, AUTHOR_VAR)
        if kind == 'scale':
            factor = '(1+%s)' % amount if amt >= 0 else '(1-%s)' % amount.lstrip('-')
            stxt = '(%s)*%s' % (base, factor)
            fn = (lambda m, x: ref.vscale(f(m, x), 1 + amt))
        else:
            unit = amount if one == '1' else '[%s, %s]' % (amount, amount)
            stxt = '%s + %s' % (base, unit)
            fn = (lambda m, x: ref.vshift(f(m, x), amt))
        prob = {'answers': {'lower': txt(a), 'upper': txt(b), 'summand': base, 'summation_variable': AUTHOR_VAR},
                'even_odd': p, 'tolerance': TOLS[ti], 'samples': 2,
                'input': [txt(a), txt(b), stxt, AUTHOR_VAR]}
        return prob, (a, b, f), (a, b, fn), exact

    def describe(self, case):
        return describe_prob(self.build(case)[0])

    def check(self, case):
        a, b, p, skey, ti, pi = case
        prob, author, student, exact = self.build(case)
        nontriv = bool(ref.index_set(a, b, p, 1000))
        return judge(self.name, prob,
                     lambda xs: ref_verdict(author, student, p, 1000,
                                            DEFAULT_TOLERANCE if TOLS[ti] == UNSET else TOLS[ti], xs, exact), nontriv,
                     sig_of=lambda exp, got, obs: 'tolerance:%s:%s-but-%s'
                     % ('default' if TOLS[ti] == UNSET else 'percent' if isinstance(TOLS[ti], str) else 'absolute', exp, got))


# ======================================================================================== 3. input positions

POS_BASES = ((-1, 3, 0, 'sq'), (2, -3, 1, 'alt'), (0, 4, 2, 'xlin'), (-2, 2, 0, 'vec'), (1, 4, 0, 'cpow'))
POS_MENU = {'lower': ('author', 'minus1'), 'upper': ('author', 'plus1'),
            'summand': ('author', 'plus_one', 'foreign_name'), 'summation_variable': ('n', 'k')}


def ordered_subsets():
    for r in range(1, 5):
        for comb in itertools.combinations(KEYS, r):
            for perm in itertools.permutations(comb):
                yield perm


class Positions(Family):
    name = 'input_positions'
    timeout = 20.0
    rule = ('every non-empty subset of the four fields in every order of input boxes (64 input_positions maps) x '
            '5 base problems %s x every combination of per-field entries %s (fields not entered stay the '
            'author\'s; a single box is submitted both as a list and as a bare string); expected from the reference '
            'sum of the structured submission, or a student-facing error when the summand names a variable that is '
            'neither the summation variable nor declared; non-trivial = some entered field differs from the author\'s'
            % (list(POS_BASES), POS_MENU))

    def cases(self, tier):
        for order in ordered_subsets():
            for bi in range(len(POS_BASES)):
                menus = [range(len(POS_MENU[k])) for k in order]
                for picks in itertools.product(*menus):
                    forms = (0, 1) if len(order) == 1 else (0,)
                    for form in forms:
                        yield (list(order), bi, list(picks), form)

    def build(self, case):
        order, bi, picks, form = case
        a, b, p, skey = POS_BASES[bi]
        tpl, f, one, exact, needs_x = SUMMANDS[skey]
        choice = dict(zip(order, picks))
        var = AUTHOR_VAR
        if 'summation_variable' in choice:
            var = POS_MENU['summation_variable'][choice['summation_variable']]
        lo = a - 1 if choice.get('lower') == 1 else a
        hi = b + 1 if choice.get('upper') == 1 else b
        smode = POS_MENU['summand'][choice['summand']] if 'summand' in choice else 'fixed'
        undefined = False
        plus = False
        if smode == 'fixed':
            stxt = sub(tpl, AUTHOR_VAR)
            undefined = (var != AUTHOR_VAR)
        elif smode == 'foreign_name':
            stxt = sub(tpl, 'q')
            undefined = True
        else:
            stxt = sub(tpl, var)
            if smode == 'plus_one':
                stxt += ' + ' + one
                plus = True
        fn = (lambda m, x: ref.vshift(f(m, x), 1)) if plus else f
        fields = {'lower': txt(lo), 'upper': txt(hi), 'summand': stxt, 'summation_variable': var}
        inp = [fields[k] for k in order]
        if form == 1:
            inp = inp[0]
        prob = {'answers': {'lower': txt(a), 'upper': txt(b), 'summand': sub(tpl, AUTHOR_VAR),
                            'summation_variable': AUTHOR_VAR},
                'positions': {k: i + 1 for i, k in enumerate(order)},
                'even_odd': p, 'tolerance': 1e-9, 'samples': 2, 'xvals': XVALS if needs_x else None,
                'input': inp}
        return prob, (a, b, f), (lo, hi, fn), exact, undefined, p

    def describe(self, case):
        return describe_prob(self.build(case)[0])

    def check(self, case):
        prob, author, student, exact, undefined, p = self.build(case)
        nontriv = any(case[2])
        if undefined:
            exp = lambda xs: 'student-error'
        else:
            exp = lambda xs: ref_verdict(author, student, p, 1000, 1e-9, xs, exact)
        return judge(self.name, prob, exp, nontriv,
                     sig_of=lambda e, got, obs: 'positions:%s:%s-but-%s' % ('+'.join(k[:5] for k in case[0]), e, got))


# ======================================================================================== 4. infinite limits

INF_AUTHORS = ((0, INF, 'geo2'), (1, INF, 'geo3'), (NINF, 0, 'pow2'), (1, INF, 'one'), (-2, INF, 'lin'),
               (NINF, INF, 'lin'), (NINF, INF, 'one'), (INF, 3, 'sq'))
INF_CUTOFFS = (7, 50, None)            # None = the documented default 1000
INF_VARIANTS = ('same', 'swap', 'rename', 'mirror', 'explicit', 'explicit-1', 'explicit+1', 'explicit-2',
                'explicit+2', 'drop_first', 'drop_first2', 'extra_first', 'shift', 'paired')


def _neg(t):
    return NINF if t == INF else INF if t == NINF else -t


class Infinite(Family):
    name = 'infinite_limits'
    timeout = 60.0
    rule = ('author sums with infinite limits %s x infty_val in {7, 50, default 1000} x even_odd x student '
            're-writings %s (explicit = the infinite limit typed as the cut-off itself, +-1, +-2; paired = two '
            'terms per index for the geometric summands); geometric summands make truncation differences fall '
            'inside the tolerance 1e-9 for the large cut-offs, the non-convergent ones (1, n, n^2) make every '
            'missing or extra term visible; quick tier uses the default cut-off only with even_odd = 0; '
            'non-trivial = re-writing != same' % (list(INF_AUTHORS), list(INF_VARIANTS)))

    def cases(self, tier):
        for ai in range(len(INF_AUTHORS)):
            for ci in range(len(INF_CUTOFFS)):
                for p in (0, 1, 2):
                    if tier == 'quick' and INF_CUTOFFS[ci] is None and p != 0:
                        continue
                    for v in INF_VARIANTS:
                        lo, hi, skey = INF_AUTHORS[ai]
                        finite = [t for t in (lo, hi) if t not in (INF, NINF)]
                        if v in ('drop_first', 'drop_first2', 'extra_first', 'shift') and not finite:
                            continue
                        if v == 'paired' and not (skey in ('geo2', 'geo3') and p == 0):
                            continue
                        yield (ai, ci, p, v)

    def build(self, case):
        ai, ci, p, v = case
        lo, hi, skey = INF_AUTHORS[ai]
        tpl, f, one, exact, needs_x = SUMMANDS[skey]
        cut = INF_CUTOFFS[ci]
        C = 1000 if cut is None else cut
        slo, shi, var, arg, g = lo, hi, AUTHOR_VAR, None, None
        fn = f

        def explicit(t, d):
            return C + d if t == INF else -(C + d) if t == NINF else t

        def inward(t, other, d):
            # move the finite end t by d towards (d > 0) or away from the other end
            towards = 1 if (other == INF or (other != NINF and other > t)) else -1
            return t + towards * d

        if v == 'swap':
            slo, shi = hi, lo
        elif v == 'rename':
            var = 'k'
        elif v == 'mirror':
            var, arg = 'm', '-m'
            slo, shi = _neg(hi), _neg(lo)
            fn = (lambda m, x: f(-m, x))
        elif v.startswith('explicit'):
            d = int(v[8:]) if len(v) > 8 else 0
            slo, shi = explicit(lo, d), explicit(hi, d)
        elif v in ('drop_first', 'drop_first2', 'extra_first'):
            d = {'drop_first': 1, 'drop_first2': 2, 'extra_first': -1}[v]
            if lo not in (INF, NINF):
                slo = inward(lo, hi, d)
            else:
                shi = inward(hi, lo, d)
        elif v == 'shift':
            var, arg = 'm', 'm+1'
            fn = (lambda m, x: f(m + 1, x))
            slo = lo - 1 if lo not in (INF, NINF) else lo
            shi = hi - 1 if hi not in (INF, NINF) else hi
        if v == 'paired':
            # sum_{n>=L} f(n) = sum_{m>=0} f(L+2m) + f(L+2m+1)
            L = lo
            var = 'm'
            stxt = sub(tpl, '2*m+%d' % L) + ' + ' + sub(tpl, '2*m+%d' % (L + 1))
            fn = (lambda m, x: ref.vadd(f(2 * m + L, x), f(2 * m + L + 1, x)))
            slo, shi = 0, INF
        else:
            stxt = sub(tpl, arg if arg is not None else var)
        prob = {'answers': {'lower': txt(lo), 'upper': txt(hi), 'summand': sub(tpl, AUTHOR_VAR),
                            'summation_variable': AUTHOR_VAR},
                'even_odd': p, 'tolerance': 1e-9, 'samples': 1 if C >= 1000 else 2, 'infty_val': cut,
                'input': [txt(slo), txt(shi), stxt, var]}
        return prob, (lo, hi, f), (slo, shi, fn), exact, C

    def describe(self, case):
        return describe_prob(self.build(case)[0])

    def check(self, case):
        ai, ci, p, v = case
        prob, author, student, exact, C = self.build(case)
        return judge(self.name, prob,
                     lambda xs: ref_verdict(author, student, p, C, 1e-9, xs, exact), v != 'same',
                     sig_of=lambda e, got, obs: 'infinite:%s:%s-but-%s' % (v, e, got))


# ======================================================================================== 4b. factorial cut-off

FC_SUMMANDS = (('1+0*fact({v})', lambda n, x: R(1)), ('{v}*fact(0)', lambda n, x: R(n)))
FC_CUTS = ((50, None), (50, 12), (9, 12))      # (infty_val, infty_val_fact); None = documented default 80
FC_VARIANTS = ('same', 'swap', 'rename', 'explicit_fact', 'explicit_fact-1', 'explicit_fact+1',
               'explicit_plain', 'nofact_infty', 'nofact_explicit_fact', 'nofact_explicit_plain')


class FactorialCutoff(Family):
    name = 'factorial_cutoff'
    timeout = 30.0
    rule = ('author sum_{n=0..infty} s(n), s in {1+0*fact(n), n*fact(0)} (fact supplied through user_functions '
            'because scipy is absent) x (infty_val, infty_val_fact) in {(50, default 80), (50, 12), (9, 12)} x '
            'even_odd x student variants %s: the documented rule is that a sum whose summand uses the factorial '
            'replaces infinity by infty_val_fact, any other by infty_val; the summands do not converge so every '
            'missing or extra term is visible; non-trivial = variant != same' % (list(FC_VARIANTS),))

    def cases(self, tier):
        for si in range(len(FC_SUMMANDS)):
            for ci in range(len(FC_CUTS)):
                for p in (0, 1, 2):
                    for v in FC_VARIANTS:
                        yield (si, ci, p, v)

    def build(self, case):
        si, ci, p, v = case
        tpl, f = FC_SUMMANDS[si]
        C, Cf = FC_CUTS[ci]
        cf = 80 if Cf is None else Cf
        var = 'k' if v == 'rename' else AUTHOR_VAR
        plain = tpl.replace('fact({v})', '{v}').replace('*fact(0)', '')
        slo, shi, stxt, scut = 0, INF, sub(tpl, var), cf
        if v == 'swap':
            slo, shi = INF, 0
        elif v.startswith('explicit_fact'):
            shi = cf + (int(v[13:]) if len(v) > 13 else 0)
        elif v == 'explicit_plain':
            shi = C
        elif v.startswith('nofact'):
            stxt, scut = sub(plain, var), C
            if v == 'nofact_explicit_fact':
                shi = cf
            elif v == 'nofact_explicit_plain':
                shi = C
        prob = {'answers': {'lower': '0', 'upper': 'infty', 'summand': sub(tpl, AUTHOR_VAR),
                            'summation_variable': AUTHOR_VAR},
                'even_odd': p, 'tolerance': 1e-9, 'samples': 2, 'infty_val': C, 'infty_val_fact': Cf,
                'user_fact': True, 'input': [txt(slo), txt(shi), stxt, var]}
        return prob, (0, INF, f), (slo, shi, f), (cf, scut)

    def describe(self, case):
        return describe_prob(self.build(case)[0])

    def check(self, case):
        si, ci, p, v = case
        prob, author, student, cuts = self.build(case)
        return judge(self.name, prob, lambda xs: ref_verdict(author, student, p, cuts, 1e-9, xs, True),
                     v != 'same', sig_of=lambda e, got, obs: 'factorial-cutoff:%s:%s-but-%s' % (v, e, got))


# ======================================================================================== 5. student errors

SUBSETS = [c for r in range(1, 5) for c in itertools.combinations(KEYS, r)]
BAD_LIMITS = (('noninteger', '1.5'), ('noninteger', '1/2'), ('noninteger', 'x+0.5'),
              # non-integers within rounding distance of an integer (0.3/0.1 = 2.9999999999999996, 0.1*3*10 = 3.0000000000000004)
              ('noninteger', '0.3/0.1'), ('noninteger', '0.1*3*10'), ('noninteger', '3+1e-10'), ('noninteger', '1e-10'),
              ('complex', 'i'),
              ('complex', '1+i'), ('complex', '2*i'), ('instructor-var', 'c'), ('instructor-var', 'c-5'),
              ('instructor-var', 'pi-pi'), ('blank', ''))
BAD_SUMMANDS = (('instructor-var', 'c*{v}+x'), ('instructor-var', '5*{v}+x+0*c'), ('instructor-var', '5*{v}+x+0*pi'),
                ('blank', ''))
BAD_VARS = (('variable-declared', 'x'), ('variable-constant', 'i'), ('variable-constant', 'j'),
            ('variable-constant', 'e'), ('variable-constant', 'infty'), ('variable-constant', 'pi'),
            ('variable-function', 'sin'), ('variable-function', 'sqrt'), ('variable-invalid-name', '2k'),
            ('variable-invalid-name', 'k k'), ('variable-invalid-name', '_k'), ('blank', ''),
            ('variable-user-function', 'uf'), ('variable-random-function', 'rf'),
            ('instructor-name-as-dummy', 'c'))


class StudentErrors(Family):
    name = 'student_errors'
    timeout = 20.0
    rule = ('author sum_{n=0..3} c*n+x (x in DiscreteSet(2,3), c = 5 instructor-only, pi also instructor-only), '
            'every subset of input_positions x every entered field x its error alphabet (limits %s, summand %s, '
            'variable %s) x the other entered fields clean-correct or clean-incorrect; expected: a student-facing '
            'error (StudentFacingError, not ConfigError), never a verdict; the instructor variable\'s name used as '
            'the dummy variable is recorded but not judged' % (list(BAD_LIMITS), list(BAD_SUMMANDS), list(BAD_VARS)))

    def cases(self, tier):
        for si, subset in enumerate(SUBSETS):
            for field in subset:
                alphabet = (BAD_LIMITS if field in ('lower', 'upper') else
                            BAD_SUMMANDS if field == 'summand' else BAD_VARS)
                for bi in range(len(alphabet)):
                    for clean in (0, 1):
                        yield (si, field, bi, clean)

    def build(self, case):
        si, field, bi, clean = case
        subset = SUBSETS[si]
        alphabet = (BAD_LIMITS if field in ('lower', 'upper') else
                    BAD_SUMMANDS if field == 'summand' else BAD_VARS)
        kind, bad = alphabet[bi]
        var = AUTHOR_VAR
        body = '5*{v}+x' if clean == 0 else '5*{v}+x+1'
        fields = {'lower': '0', 'upper': '3', 'summation_variable': var}
        if field == 'summation_variable':
            var = bad
            fields['summation_variable'] = bad
            # the summand uses the offending name consistently wherever it can be written as a name, so that a
            # missing validation shows up as a verdict instead of an unrelated undefined-variable error
            usable = bad.replace('_', '').isalnum() and bad[:1].isalpha()
            fields['summand'] = body.replace('{v}', bad if usable else AUTHOR_VAR)
        elif field == 'summand':
            fields['summand'] = bad.replace('{v}', var)
        else:
            fields[field] = bad
            fields['summand'] = body.replace('{v}', var)
        prob = {'answers': {'lower': '0', 'upper': '3', 'summand': 'c*n+x', 'summation_variable': AUTHOR_VAR},
                'positions': {k: i + 1 for i, k in enumerate(subset)},
                'even_odd': 0, 'tolerance': 1e-9, 'samples': 2, 'xvals': XVALS, 'instr': True,
                'randfunc': kind == 'variable-random-function',
                'input': [fields[k] for k in subset]}
        return prob, kind

    def describe(self, case):
        return describe_prob(self.build(case)[0])

    def check(self, case):
        prob, kind = self.build(case)
        exp = 'anything' if kind == 'instructor-name-as-dummy' else 'student-error'
        return judge(self.name, prob, lambda xs: exp, True,
                     sig_of=lambda e, got, obs: 'student-error:%s-in-%s:%s' % (kind, case[1], got))


# ======================================================================================== 6. author errors

AUTH_LIMITS = (('noninteger-limit', '1.5'), ('noninteger-limit', '1/2'), ('noninteger-limit', 'x+0.5'),
               ('complex-limit', 'i'), ('complex-limit', '1+i'), ('blank-field', ''))
AUTH_SUMMANDS = (('division-by-zero', 'x/{v}'), ('undefined-variable', 'q*{v}'), ('unparseable-summand', '{v}+'),
                 ('unparseable-summand', 'sin({v}'), ('shape-error', '[{v}, {v}]+1'), ('blank-field', ''),
                 ('overflow', '3^(1000*{v})'))
AUTH_VARS = (('conflicting-variable-declared', 'x'), ('conflicting-variable-constant', 'i'),
             ('conflicting-variable-constant', 'j'), ('conflicting-variable-constant', 'pi'),
             ('conflicting-variable-constant', 'e'), ('conflicting-variable-constant', 'infty'))
AUTH_BOTH = (('both-limits-infinite', 'infty'), ('both-limits-infinite', '-infty'))


class AuthorErrors(Family):
    name = 'author_errors'
    timeout = 20.0
    rule = ('author sum_{n=0..3} x*n (x in DiscreteSet(2,3)) with exactly one defect from the author alphabet '
            '(limits %s in lower or upper, both limits %s, summand %s, summation variable %s with the summand '
            're-written consistently) x every subset of input_positions; the student enters a clean, valid '
            'sum_{m=0..3} x*m in the boxes offered; expected: ConfigError on every execution'
            % (list(AUTH_LIMITS), list(AUTH_BOTH), list(AUTH_SUMMANDS), list(AUTH_VARS)))

    ALPH = ([('lower', k, v) for k, v in AUTH_LIMITS] + [('upper', k, v) for k, v in AUTH_LIMITS] +
            [('both', k, v) for k, v in AUTH_BOTH] + [('summand', k, v) for k, v in AUTH_SUMMANDS] +
            [('summation_variable', k, v) for k, v in AUTH_VARS])

    def cases(self, tier):
        for di in range(len(self.ALPH)):
            for si in range(len(SUBSETS)):
                yield (di, si)

    def build(self, case):
        di, si = case
        field, kind, bad = self.ALPH[di]
        subset = SUBSETS[si]
        ans = {'lower': '0', 'upper': '3', 'summand': 'x*n', 'summation_variable': AUTHOR_VAR}
        if field == 'both':
            ans['lower'] = ans['upper'] = bad
        elif field == 'summand':
            ans['summand'] = bad.replace('{v}', AUTHOR_VAR)
        elif field == 'summation_variable':
            ans['summation_variable'] = bad
            ans['summand'] = 'x*' + bad
        else:
            ans[field] = bad
        svar = 'm' if 'summation_variable' in subset else ans['summation_variable']
        fields = {'lower': '0', 'upper': '3', 'summand': 'x*' + svar, 'summation_variable': svar}
        prob = {'answers': ans, 'positions': {k: i + 1 for i, k in enumerate(subset)},
                'even_odd': 0, 'tolerance': 1e-9, 'samples': 2, 'xvals': XVALS,
                'input': [fields[k] for k in subset]}
        defect_fields = ('lower', 'upper') if field == 'both' else (field,)
        if field == 'summation_variable':
            defect_fields = ('summation_variable',)
        mode = 'field-fixed' if any(k not in subset for k in defect_fields) else 'field-entered'
        return prob, kind, mode

    def describe(self, case):
        return describe_prob(self.build(case)[0])

    def check(self, case):
        prob, kind, mode = self.build(case)

        def sig(e, got, obs):
            cls = got
            if obs[0] in ('err', 'construct'):
                cls = [c for c in obs[1] if c in ('MissingInput', 'CalcError', 'InvalidInput', 'StudentFacingError',
                                                  'MITxError', 'Exception')][0]
            return 'author-side:%s:reported-as-%s' % (kind, cls)
        return judge(self.name, prob, lambda xs: 'config-error', True, sig_of=sig)


# ======================================================================================== 7. sample dependence

SD_XVALS = (1, 2, 3)
SD_LIMITS = ((0, 3), (-2, 2), (1, 4), (3, -1))
SD_VARIANTS = ('same', 'xsq', 'vanish12', 'vanish13', 'upper_x', 'lower_x-1')


class SampleDependent(Family):
    name = 'sample_dependent'
    timeout = 30.0
    rule = ('author sum_{n=a..b} x*n, x in DiscreteSet(1,2,3), (a,b) in %s x even_odd x samples in {1,2,3} x '
            'student answers that agree with the author only for some values of x (x^2*n: x = 1; '
            'x*n+(x-1)*(x-2): x in {1,2}; x*n*(x-2)^2: x in {1,3}; upper limit x; lower limit x-1); ALL 3^samples '
            'combinations of draws are explored and each is judged from the values actually drawn: correct iff the '
            'sums agree at EVERY sample; non-trivial = always (the expected verdict varies with the draws)'
            % (list(SD_LIMITS),))

    def cases(self, tier):
        for li in range(len(SD_LIMITS)):
            for p in (0, 1, 2):
                for s in (1, 2, 3):
                    for v in SD_VARIANTS:
                        yield (li, p, s, v)

    def build(self, case):
        li, p, s, v = case
        a, b = SD_LIMITS[li]
        f = (lambda n, x: R(x * n))
        lo, hi, lo_txt, hi_txt, stxt, fn = a, b, txt(a), txt(b), 'x*n', f
        if v == 'xsq':
            stxt, fn = 'x^2*n', (lambda n, x: R(x * x * n))
        elif v == 'vanish12':
            stxt, fn = 'x*n+(x-1)*(x-2)', (lambda n, x: R(x * n + (x - 1) * (x - 2)))
        elif v == 'vanish13':
            stxt, fn = 'x*n*(x-2)^2', (lambda n, x: R(x * n * (x - 2) ** 2))
        elif v == 'upper_x':
            hi, hi_txt = (lambda x: x), 'x'
        elif v == 'lower_x-1':
            lo, lo_txt = (lambda x: x - 1), 'x-1'
        prob = {'answers': {'lower': txt(a), 'upper': txt(b), 'summand': 'x*n', 'summation_variable': AUTHOR_VAR},
                'even_odd': p, 'tolerance': 1e-9, 'samples': s, 'xvals': SD_XVALS,
                'input': [lo_txt, hi_txt, stxt, AUTHOR_VAR]}
        return prob, (a, b, f), (lo, hi, fn)

    def describe(self, case):
        return describe_prob(self.build(case)[0])

    def check(self, case):
        li, p, s, v = case
        prob, author, student = self.build(case)
        res = judge(self.name, prob, lambda xs: ref_verdict(author, student, p, 1000, 1e-9, xs, True), True,
                    sig_of=lambda e, got, obs: 'sample-dependent:%s:%s-but-%s' % (v, e, got))
        if res.violation is None and res.calls != len(SD_XVALS) ** s:
            res.violation = viol('sampling:explored-%d-of-%d-draw-combinations' % (res.calls, len(SD_XVALS) ** s),
                                 'the sampled variable was not drawn once per sample', len(SD_XVALS) ** s, res.calls)
        return res


# ======================================================================================== registry

EQUIV_KEYS = ('lin', 'sq', 'alt', 'pow2', 'xlin', 'cpow', 'vec')


def families(tier):
    fams = [Equivalence(k) for k in EQUIV_KEYS]
    fams += [Tolerance(), Positions(), Infinite(), FactorialCutoff(), StudentErrors(), AuthorErrors(), SampleDependent()]
    return fams
