"""
C04 -- a formula is marked correct exactly when enough samples agree within tolerance.

CHOICE engine, full product: the variables are sampled from DiscreteSets, the explorer owns
random.choice, and for every configuration EVERY combination of sampled values (x_i, d_i),
i < samples, is executed.  The oracle counts the samples whose miss exceeds the tolerance.

Families added by the review pass (oracle: mcv/refs/c04_oracle.py, plain Python arithmetic):
array_norms (matrices, complex vectors, 3-vectors: Frobenius vs other norms), defaults_and_spellings
(options not passed; every spelling of the answer), same_sample (sampled functions, numbered /
instructor-only / dependent variables), long_runs (3..6 samples, every subset failing, recording
sampling set), infinity_counting (sample-dependent infinities, NumericalGrader), answer_credit
(several answers with different credits), array_rewrites; plus magnitudes 1e-12..1e20 and further
spellings of the tolerance in the older families.
"""
import math
import itertools
from ..core import Family, Result, viol, HarnessError
from .. import chooser
from ..fixtures import ScriptedSampler
from ..refs import c04_oracle as O

from mitxgraders import FormulaGrader, NumericalGrader, MatrixGrader, DiscreteSet, DependentSampler
from mitxgraders.comparers import equality_comparer, EqualityComparer

PROPERTY = 'C04'
RULE = ('per configuration (grader kind x student form x tolerance x samples x failable_evals x credit) the full '
        'product of sampled values is executed; a configuration is non-trivial when both verdicts (credit / no '
        'credit) occur among its executions or when it pins the boundary (exact equality at tolerance 0); '
        'long_runs enumerates every subset of failing samples through a recording sampling set instead')
EXPLANATION = ('states = distinct (configuration, RNG schedule) executions; transitions = grader calls; '
               'the RNG is an explored environment, every schedule runs the real grader')
ASSUMPTIONS = ['guard band: no sampled miss lies within 4% of the tolerance (asserted by the harness)',
               'documented defaults: tolerance 0.01% (FormulaGrader, MatrixGrader) / 5% (NumericalGrader), samples 5, failable_evals 0',
               'answer_credit: every configured answer is compared, in configured order, each on its own n samples '
               '(another number of draws is a harness error, not a verdict)',
               'same_sample: within one sample the order in which a_{1} and a_{2} are drawn is left open (only symmetric use)',
               'DiscreteSet draws are the only RNG use in these configurations (any other draw is a harness error)',
               'oracle: failures = #{i: |expected_i - student_i| > tol_i}, tol_i = t or p*|expected_i| (Frobenius)']

XS_REAL = (2, -4, 10)
XS_CPLX = (1 + 2j, -3j)
XS_SMALL = (2, -4)
# very small / very large magnitudes (relative forms only: the effective tolerance p*|x| is far below 1e-8 / far above 1)
XS_TINY = (3e-9, -2e-12)
XS_HUGE = (3e20, -5e15)


def tol_value(tol):
    """returns ('abs', t) or ('pct', p)"""
    if isinstance(tol, str):
        return ('pct', float(tol.strip()[:-1]) / 100.0)
    return ('abs', float(tol))


def dset(kind, form, tol, small):
    """the sampled 'd' values for this configuration (the oracle decides each from first principles)"""
    mode, t = tol_value(tol)
    if form == 'abs':
        return (0,)
    if t == 0:
        ds = [0, 1e-6, -1e-6, 1]
    elif kind == 'complex':
        ds = [0, 0.5j * t, (0.8 + 0.8j) * t, (0.6 - 0.6j) * t, 1.5 * t, 100 * t]
    else:
        ds = [0, 0.5 * t, -0.5 * t, 1.5 * t, -1.5 * t, 100 * t]
        if form == 'mboth':
            ds += [0.8 * t, 0.6 * t]
        if mode == 'pct' and t >= 0.1 and form in ('scale', 'mscale'):
            ds += [1.05 * t]
    if small:
        ds = [d for i, d in enumerate(ds) if i in (0, 1, 4, 5, 6)]
    return tuple(ds)


FORMS = {
    # name: (grader class key, answer, student formula, miss(x,d), author_norm(x))
    'offset': ('F', 'x', 'x+d', lambda x, d: abs(d), lambda x: abs(x)),
    'scale': ('F', 'x', 'x*(1+d)', lambda x, d: abs(x) * abs(d), lambda x: abs(x)),
    'abs': ('F', 'x', 'abs(x)', lambda x, d: abs(abs(x) - x), lambda x: abs(x)),
    'moffset': ('M', '[x, 2*x]', '[x+d, 2*x]', lambda x, d: abs(d), lambda x: math.sqrt(5) * abs(x)),
    'mboth': ('M', '[x, 2*x]', '[x+d, 2*x+d]', lambda x, d: math.sqrt(2) * abs(d), lambda x: math.sqrt(5) * abs(x)),
    'mscale': ('M', '[x, 2*x]', '[x*(1+d), 2*x*(1+d)]', lambda x, d: math.sqrt(5) * abs(x) * abs(d),
               lambda x: math.sqrt(5) * abs(x)),
}


def forms_for(tol):
    mode, t = tol_value(tol)
    if t == 0:
        return ['offset', 'scale', 'abs', 'moffset', 'mscale']
    if mode == 'abs':
        return ['offset', 'abs', 'moffset', 'mboth']
    return ['scale', 'abs', 'mscale']


class SampleCounting(Family):
    name = 'sample_counting'
    kind = 'CHOICE'
    timeout = 600.0
    rule = ('kinds {real, complex, tiny (1e-9..1e-12), huge (1e15..1e20)} x student forms {x+d, x*(1+d), abs(x), [x+d,2x], [x+d,2x+d], scaled vector} x '
            'tolerances x samples n x failable_evals 0..n+1 x answer credit {1, 0.5}; ALL |X|^n*|D|^n sampled value '
            'combinations per configuration; non-trivial = both verdicts occur or exact-equality boundary pinned')

    def cases(self, tier):
        tols = [0, 0.1, '0%', '10%', '0.005%'] + ([1, '1%', '100%', '0.0125%'] if tier == 'thorough' else [])
        ns = [1, 2, 3] if tier == 'thorough' else [1, 2]
        for kind in ('real', 'complex'):
            for tol in tols:
                for form in forms_for(tol):
                    if kind == 'complex' and form == 'abs':
                        continue
                    for n in ns:
                        for k in range(0, n + 2):
                            for c in (1, 0.5):
                                yield (kind, form, tol, n, k, c)
        # magnitudes: sampled values of size 1e-9..1e-12 and 1e15..1e20 with the relative student forms
        for kind in ('tiny', 'huge'):
            for tol in tols:
                if not (isinstance(tol, str) or tol == 0):
                    continue
                if tier == 'quick' and kind == 'huge' and tol not in ('0%', '10%'):
                    continue
                for form in ('scale', 'mscale'):
                    if tier == 'quick' and kind == 'huge' and form == 'scale':
                        continue
                    for (n, k) in ((1, 0), (2, 1)) + (((2, 0), (3, 1)) if tier == 'thorough' else ()):
                        yield (kind, form, tol, n, k, 1)

    def check(self, case):
        kind, form, tol, n, k, c = case
        gk, answer, student, missf, normf = FORMS[form]
        small = n >= 3 or kind in ('tiny', 'huge')
        X = {'complex': XS_CPLX, 'tiny': XS_TINY, 'huge': XS_HUGE}.get(kind, XS_SMALL if small else XS_REAL)
        D = dset(kind, form, tol, small)
        cls = FormulaGrader if gk == 'F' else MatrixGrader
        grader = cls(answers={'expect': answer, 'grade_decimal': c}, variables=['x', 'd'],
                     sample_from={'x': DiscreteSet(X), 'd': DiscreteSet(D)},
                     samples=n, failable_evals=k, tolerance=tol)
        mode, t = tol_value(tol)

        def body(ch):
            try:
                return ('ok', grader(None, student))
            except Exception as e:
                return ('err', type(e).__name__, str(e))

        execs = 0
        verdicts = set()
        for ch, out in chooser.explore(body, bound=None):
            execs += 1
            xs = [v[1][v[2]] for v in ch.values if isinstance(v, tuple) and v[0] == 'choice' and v[1] == X]
            dsn = [v[1][v[2]] for v in ch.values if isinstance(v, tuple) and v[0] == 'choice' and v[1] == D]
            if len(xs) < n or (len(dsn) < n and form != 'abs'):
                raise HarnessError('expected %d draws of x and d, saw %d/%d (points %r)' % (n, len(xs), len(dsn), ch.points))
            if X == D:
                raise HarnessError('X and D coincide')
            failures = 0
            for i in range(n):
                x = xs[i]
                d = dsn[i] if i < len(dsn) else 0
                miss = missf(x, d)
                tl = t if mode == 'abs' else t * normf(x)
                if miss != 0 and tl != 0 and abs(miss - tl) <= 0.04 * tl:
                    raise HarnessError('guard band violated: miss %r tol %r' % (miss, tl))
                if miss > tl:
                    failures += 1
            correct = failures <= k and not (n == 1 and failures >= 1)
            exp_grade = c if correct else 0
            verdicts.add(correct)
            if out[0] != 'ok':
                return Result('raised', True,
                              viol('counting:raised', '%r with samples x=%r d=%r raised %s: %s' % (case, xs, dsn, out[1], out[2]),
                                   exp_grade, out[1:]), execs)
            res = out[1]
            exp_ok = {1: True, 0: False}.get(exp_grade, 'partial')
            if abs(res['grade_decimal'] - exp_grade) > 1e-12 or res['ok'] != exp_ok:
                return Result('wrong', True,
                              viol('counting:%s:%s' % (form, 'credit-for-miss' if res['grade_decimal'] > exp_grade else 'no-credit-for-match'),
                                   '%s tolerance=%r samples=%d failable=%d credit=%r student=%r; sampled x=%r d=%r: %d sample(s) '
                                   'out of tolerance -> expected grade %r, got %r'
                                   % (cls.__name__, tol, n, k, c, student, xs[:n], dsn[:n], failures, exp_grade, res),
                                   {'grade_decimal': exp_grade, 'ok': exp_ok}, res), execs)
        nontriv = len(verdicts) == 2 or t == 0
        return Result('both' if len(verdicts) == 2 else ('all-correct' if True in verdicts else 'all-wrong'),
                      nontriv, None, execs)


REWRITES = ['x*(y+1)', 'x*y+x', '(y+1)*x', 'x*(y+1)+0', '0+x*(y+1)', '1*x*(y+1)', 'x*(y+1)*1', ' x * ( y + 1 ) ',
            '((x))*((y+1))', 'x*(1+y)', 'x*(y+1)/1', 'x*(y+1)^1', '-(-x*(y+1))', 'x*(y+1)-0', '\tx*(y+1)\n',
            'x*y+x*1', '(x*y+x)']
NONREWRITES = ['x*(y+1)+10*x', 'x*y', 'x*(y-1)', '-x*(y+1)', 'x*(y+1)*1.5', 'x*(y+1)/2']


class Rewrites(Family):
    name = 'rewrites'
    kind = 'CHOICE'
    timeout = 120.0
    rule = ('answer x*(y+1) with x in (2,-4,10), y in (3,-5) (exact in floats): %d equivalence-preserving rewrites must '
            'earn full credit and %d different formulas (off by >= 25%% at every sample) none, at every tolerance incl. 0 '
            'and every failable_evals < samples, over ALL sampled value combinations'
            % (len(REWRITES), len(NONREWRITES)))

    def cases(self, tier):
        tols = [0, '0%', 0.1, '10%', '0.01%']
        ns = [1, 2] if tier == 'quick' else [1, 2, 3]
        for tol in tols:
            for n in ns:
                for k in range(0, n):
                    for i in range(len(REWRITES) + len(NONREWRITES)):
                        yield (tol, n, k, i)

    def check(self, case):
        tol, n, k, i = case
        same = i < len(REWRITES)
        student = REWRITES[i] if same else NONREWRITES[i - len(REWRITES)]
        X, Y = (2, -4, 10), (3, -5)
        grader = FormulaGrader(answers={'expect': 'x*(y+1)', 'grade_decimal': 1}, variables=['x', 'y'],
                               sample_from={'x': DiscreteSet(X), 'y': DiscreteSet(Y)}, samples=n,
                               failable_evals=k, tolerance=tol)

        def body(ch):
            try:
                return ('ok', grader(None, student))
            except Exception as e:
                return ('err', type(e).__name__, str(e))
        execs = 0
        for ch, out in chooser.explore(body, bound=None):
            execs += 1
            if out[0] != 'ok':
                return Result('raised', True, viol('rewrites:raised', '%r raised %s' % (student, out[1:]), None, out[1:]), execs)
            g = out[1]['grade_decimal']
            if same and g != 1:
                return Result('wrong', True,
                              viol('rewrites:equivalent-formula-not-credited',
                                   'tolerance %r samples %d failable %d: %r is identical to the answer x*(y+1) but got %r (choices %r)'
                                   % (tol, n, k, student, out[1], ch.choices), 1, out[1]), execs)
            if not same and g != 0:
                return Result('wrong', True,
                              viol('rewrites:different-formula-credited',
                                   'tolerance %r samples %d failable %d: %r differs from x*(y+1) everywhere but got %r (choices %r)'
                                   % (tol, n, k, student, out[1], ch.choices), 0, out[1]), execs)
        return Result('credited' if same else 'refused', True, None, execs)


class ZeroExpected(Family):
    name = 'zero_expected_percentage'
    kind = 'CHOICE'
    timeout = 300.0
    rule = ('percentage tolerance when the author\'s value is exactly zero at a sample (p% of 0 is 0: only an exact match agrees there): '
            'answers x, x*(x-3), [x, 2*x] with x drawn from (0, 3), students answer+d / entrywise +d with d drawn from (0, 0.3p, 30p); '
            'all sampled combinations x tolerances {1%, 10%, 100%} x samples 1-2 x failable_evals 0..2; plus NumericalGrader answers 0 and 0*i')

    FORMS = {
        'x': ('F', 'x', 'x+d', lambda x: abs(x), lambda d: abs(d)),
        'xx3': ('F', 'x*(x-3)', 'x*(x-3)+d', lambda x: abs(x * (x - 3)), lambda d: abs(d)),
        'vec': ('M', '[x, 2*x]', '[x+d, 2*x]', lambda x: math.sqrt(5) * abs(x), lambda d: abs(d)),
    }

    def cases(self, tier):
        for form in ('x', 'xx3', 'vec'):
            for tol in ('1%', '10%', '100%'):
                for n in (1, 2):
                    for k in range(0, n + 1):
                        yield (form, tol, n, k)
        for tol in ('1%', '10%', '100%', '0%', 0.01):
            for j in range(6):
                yield ('num', tol, j)

    def check(self, case):
        if case[0] == 'num':
            _, tol, j = case
            mode, t = tol_value(tol)
            answer = ['0', '0*i', '2-2', '0', '0', '0'][j]
            student = ['0', '0', '0.0', '0.004', '-1e-9', '0.004*i'][j]
            miss = [0, 0, 0, 0.004, 1e-9, 0.004][j]
            tl = 0.0 if mode == 'pct' else t
            correct = not (miss > tl)
            try:
                res = NumericalGrader(answers=answer, tolerance=tol)(None, student)
            except Exception as e:
                return Result('raised', True, viol('zero:raised', '%r' % e))
            if (res['grade_decimal'] == 1) != correct:
                return Result('wrong', True,
                              viol('zero:numerical:%s' % ('credit-for-miss' if res['grade_decimal'] else 'no-credit-for-match'),
                                   'NumericalGrader answer %r tolerance %r student %r: expected %s, got %r'
                                   % (answer, tol, student, 'correct' if correct else 'incorrect', res), correct, res))
            return Result('correct' if correct else 'incorrect', True)
        form, tol, n, k = case
        gk, answer, student, normf, missf = self.FORMS[form]
        mode, p = tol_value(tol)
        X = (0, 3)
        D = (0, 0.3 * p, 30 * p)
        cls = FormulaGrader if gk == 'F' else MatrixGrader
        grader = cls(answers=answer, variables=['x', 'd'], sample_from={'x': DiscreteSet(X), 'd': DiscreteSet(D)},
                     samples=n, failable_evals=k, tolerance=tol)

        def body(ch):
            try:
                return ('ok', grader(None, student))
            except Exception as e:
                return ('err', type(e).__name__, str(e))
        execs = 0
        verdicts = set()
        for ch, out in chooser.explore(body, bound=None):
            execs += 1
            xs = [v[1][v[2]] for v in ch.values if isinstance(v, tuple) and v[0] == 'choice' and v[1] == X]
            ds = [v[1][v[2]] for v in ch.values if isinstance(v, tuple) and v[0] == 'choice' and v[1] == D]
            failures = 0
            for i in range(n):
                tl = p * normf(xs[i])
                miss = missf(ds[i])
                if miss != 0 and tl != 0 and abs(miss - tl) <= 0.04 * tl:
                    raise HarnessError('guard band')
                if miss > tl:
                    failures += 1
            correct = failures <= k and not (n == 1 and failures >= 1)
            verdicts.add(correct)
            if out[0] != 'ok':
                return Result('raised', True, viol('zero:raised', '%r raised %r' % (case, out[1:])), execs)
            if (out[1]['grade_decimal'] == 1) != correct:
                return Result('wrong', True,
                              viol('zero:%s:%s' % (form, 'credit-for-miss' if out[1]['grade_decimal'] else 'no-credit-for-match'),
                                   '%s answer %r tolerance %r samples %d failable %d student %r; sampled x=%r d=%r: %d sample(s) out of '
                                   'tolerance (p%% of a zero value is 0) -> expected %s, got %r'
                                   % (cls.__name__, answer, tol, n, k, student, xs[:n], ds[:n], failures,
                                      'correct' if correct else 'incorrect', out[1]), correct, out[1]), execs)
        return Result('both' if len(verdicts) == 2 else 'one', len(verdicts) == 2, None, execs)


NUM_ANSWERS = [('10', 10), ('-4', -4), ('0.5', 0.5), ('2+3*i', 2 + 3j),
               # magnitudes: the last one only with relative tolerances (an absolute offset would be absorbed by rounding)
               ('3e-9', 3e-9), ('-2e20', -2e20)]
NUM_REL_ONLY = (5,)


class Numerical(Family):
    name = 'numerical_single_sample'
    rule = ('NumericalGrader (one sample, no failure tolerated): answers {10, -4, 0.5, 2+3i, 3e-9, -2e20 (relative only)} x student = answer + delta '
            'with delta from the tolerance-scaled offsets (incl. complex offsets separating modulus from component-wise '
            'comparison) x tolerances x credit {1, 0.5}')

    def cases(self, tier):
        tols = [0, 0.1, '0%', '10%', 1, '1%', '100%', '5%', '0.005%', '0.0125%', '0.002%', 1e-7, ' 2.5 % ',
                # other spellings / ranges of the option: above 100%, exponent, no leading digit, explicit sign, int > 1, float zero
                '250%', '1e-2%', '.5%', '+5%', 2, 0.0, '0.0%']
        for a in range(len(NUM_ANSWERS)):
            for tol in tols:
                if a in NUM_REL_ONLY and not isinstance(tol, str):
                    continue
                if tier == 'quick' and tols.index(tol) >= 13 and a in (1, 2):
                    continue
                if tier == 'quick' and a == 4 and tol not in (0, '0%', '10%', '0.005%', 1e-7, '250%'):
                    continue
                if tier == 'quick' and a == 5 and tol not in ('0%', '10%', '0.005%', '100%'):
                    continue
                for c in ((1, 0.5) if (a < 4 and tols.index(tol) < 13) else (1,)):
                    for j in range(9):
                        yield (a, tol, c, j)

    def check(self, case):
        a, tol, c, j = case
        atxt, aval = NUM_ANSWERS[a]
        mode, t = tol_value(tol)
        scale = 1.0 if mode == 'abs' else abs(aval)
        if t == 0:
            offs = [0, 1e-6, -1e-6, 1, 1e-6j, 0, 0, 0, 0]
        else:
            offs = [0, 0.5 * t, -0.5 * t, 1.5 * t, -1.5 * t, 100 * t, 0.5j * t, (0.8 + 0.8j) * t, (0.6 - 0.6j) * t]
        delta = offs[j] * scale
        if isinstance(delta, complex):
            student = '%s+(%r)+(%r)*i' % (atxt, delta.real, delta.imag)
        else:
            student = '%s+(%r)' % (atxt, delta)
        miss = abs(delta)
        tl = t if mode == 'abs' else t * abs(aval)
        correct = not (miss > tl)
        if miss != 0 and tl != 0 and abs(miss - tl) <= 0.04 * tl:
            raise HarnessError('guard band')
        grader = NumericalGrader(answers={'expect': atxt, 'grade_decimal': c}, tolerance=tol)
        try:
            res = grader(None, student)
        except Exception as e:
            return Result('raised', True, viol('numerical:raised', '%r raised %r' % (student, e)))
        exp = c if correct else 0
        if abs(res['grade_decimal'] - exp) > 1e-12:
            return Result('wrong', True,
                          viol('numerical:%s' % ('credit-for-miss' if res['grade_decimal'] > exp else 'no-credit-for-match'),
                               'NumericalGrader answer %s tolerance %r: student %r misses by %r (tolerance %r): expected grade %r, got %r'
                               % (atxt, tol, student, miss, tl, exp, res), exp, res))
        return Result('correct' if correct else 'incorrect', True)


INF_EXPRS = ['infty', '-infty', '1e308', 'x', '-x', 'infty+1', '2*infty', '-(-infty)']
INF_VALUE = {'infty': 'inf', '-infty': '-inf', '1e308': 'fin', 'x': 'fin', '-x': 'fin', 'infty+1': 'inf', '2*infty': 'inf',
             '-(-infty)': 'inf'}


class Infinity(Family):
    name = 'infinity'
    kind = 'CHOICE'
    rule = ('allow_inf=True: every (answer, student) pair from %s x tolerances {0.1, "100%%", "10%%", 0, infinite}: equal infinities '
            'match, an infinity never matches anything else' % INF_EXPRS)

    def cases(self, tier):
        for a in range(len(INF_EXPRS)):
            for s in range(len(INF_EXPRS)):
                for tol in (0.1, '100%', '10%', 0, 'inf'):
                    yield (a, s, tol)

    def check(self, case):
        a, s, tol = case
        tol = O.tol_config(tol)     # 'inf' = an infinite absolute tolerance: still only the same infinity matches
        ans, stu = INF_EXPRS[a], INF_EXPRS[s]
        va, vs = INF_VALUE[ans], INF_VALUE[stu]
        if va == 'fin' and vs == 'fin':
            return Result('finite-pair', False, None, 0)
        expect_match = (va == vs)
        grader = FormulaGrader(answers=ans, variables=['x'], sample_from={'x': DiscreteSet((3, 7))}, samples=2,
                               allow_inf=True, tolerance=tol)

        def body(ch):
            try:
                return ('ok', grader(None, stu))
            except Exception as e:
                return ('err', type(e).__name__, str(e))
        n = 0
        for ch, out in chooser.explore(body, bound=None):
            n += 1
            if out[0] != 'ok':
                return Result('raised', True, viol('infinity:raised', 'answer %r student %r raised %r' % (ans, stu, out[1:])), n)
            got = out[1]['grade_decimal'] == 1
            if got != expect_match:
                return Result('wrong', True,
                              viol('infinity:%s' % ('mismatch-credited' if got else 'same-infinity-refused'),
                                   'allow_inf grader, tolerance %r: answer %r student %r -> %r' % (tol, ans, stu, out[1]),
                                   expect_match, out[1]), n)
        return Result('match' if expect_match else 'nomatch', True, None, n)



# ----------------------------------------------------------------------------------------------------------------------
# generic engine for the families below: every RNG schedule of a grader whose variables / functions are drawn from
# pairwise different finite menus; the oracle (mcv/refs/c04_oracle.py) decides each sample from the values handed out.

def choice_draws(ch, menu):
    """the values handed out at the choice points whose menu is `menu`"""
    out = []
    for v in ch.values:
        if isinstance(v, tuple) and len(v) == 3 and v[0] == 'choice':
            seq = v[1]
            if len(seq) == len(menu) and all((a is b) if callable(a) else (not callable(b) and a == b)
                                             for a, b in zip(seq, menu)):
                out.append(seq[v[2]])
    return out


def explore_counting(grader, student, menus, n, k, tol, answers, stu_fn, per=None, sig='counting', label=''):
    """
    answers: [(exp_fn(env), credit)] in configured order (every answer is compared on n fresh samples);
    menus: {name: menu}; per: {name: draws per sample} (default 1);  env[name] = drawn value (or list of values).
    Returns (executions, set of expected grades, violation or None).
    """
    per = per or {}
    names = list(menus)
    for a, b in itertools.combinations(names, 2):
        if choice_draws_same(menus[a], menus[b]):
            raise HarnessError('menus of %s and %s coincide' % (a, b))

    def body(ch):
        try:
            return ('ok', grader(None, student))
        except Exception as e:
            return ('err', type(e).__name__, str(e))

    execs = 0
    grades = set()
    for ch, out in chooser.explore(body, bound=None):
        execs += 1
        draws = {nm: choice_draws(ch, menus[nm]) for nm in names}
        for nm in names:
            need = per.get(nm, 1) * n * len(answers)
            if len(draws[nm]) != need:
                raise HarnessError('%s: expected %d draws of %s, saw %d (points %r)' % (label, need, nm, len(draws[nm]), ch.points))
        grade = 0
        fails = []
        envs = []
        for ai, (exp_fn, credit) in enumerate(answers):
            failures = 0
            for i in range(n):
                env = {}
                for nm in names:
                    q = per.get(nm, 1)
                    base = (ai * n + i) * q
                    env[nm] = draws[nm][base] if q == 1 else draws[nm][base:base + q]
                envs.append(env)
                if not O.agree(exp_fn(env), stu_fn(env), tol)[0]:
                    failures += 1
            fails.append(failures)
            if O.verdict(failures, n, k):
                grade = max(grade, credit)
        grades.add(grade)
        shown = [dict((nm, getattr(v, '__name__', v)) for nm, v in e.items()) for e in envs]
        if out[0] != 'ok':
            return execs, grades, viol('%s:raised' % sig, '%s student %r with samples %r raised %s: %s'
                                       % (label, student, shown, out[1], out[2]), grade, out[1:])
        res = out[1]
        if abs(res['grade_decimal'] - grade) > 1e-12 or res['ok'] != O.ok_of(grade):
            return execs, grades, viol('%s:%s' % (sig, 'credit-for-miss' if res['grade_decimal'] > grade else 'no-credit-for-match'),
                                       '%s samples=%d failable_evals=%d student=%r; sampled %r: sample(s) out of tolerance per answer %r '
                                       '-> expected grade %r, got %r' % (label, n, k, student, shown, fails, grade, res),
                                       {'grade_decimal': grade, 'ok': O.ok_of(grade)}, res)
    return execs, grades, None


def choice_draws_same(m1, m2):
    return len(m1) == len(m2) and all((a is b) if callable(a) else (not callable(b) and a == b) for a, b in zip(m1, m2))


def counted(execs, grades, v, nontrivial=None):
    if v is not None:
        return Result('raised' if v['sig'].endswith(':raised') else 'wrong', True, v, execs) if isinstance(v, dict) else \
            Result('wrong', True, v, execs)
    return Result('both' if len(grades) >= 2 else ('all-credit' if grades != {0} else 'all-wrong'),
                  len(grades) >= 2 if nontrivial is None else nontrivial, None, execs)


# ---- arrays beyond 2-vectors: matrices, complex vectors, 3-vectors, a scalar answer inside MatrixGrader
S2, S3, S6 = math.sqrt(2), math.sqrt(3), math.sqrt(6)
ARRAY_FORMS = {
    # name: (answer, student, exp(x), stu(x, d))
    'mat_diag': ('[[x, 2*x], [0, -x]]', '[[x+d, 2*x], [0, -x+d]]',
                 lambda x: [[x, 2 * x], [0, -x]], lambda x, d: [[x + d, 2 * x], [0, -x + d]]),
    'mat_anti': ('[[x, 2*x], [0, -x]]', '[[x, 2*x+d], [d, -x]]',
                 lambda x: [[x, 2 * x], [0, -x]], lambda x, d: [[x, 2 * x + d], [d, -x]]),
    'mat_one': ('[[x, 2*x], [0, -x]]', '[[x, 2*x+d], [0, -x]]',
                lambda x: [[x, 2 * x], [0, -x]], lambda x, d: [[x, 2 * x + d], [0, -x]]),
    'mat_all': ('[[x, 2*x], [0, -x]]', '[[x+d, 2*x+d], [d, -x+d]]',
                lambda x: [[x, 2 * x], [0, -x]], lambda x, d: [[x + d, 2 * x + d], [d, -x + d]]),
    'mat_scale': ('[[x, 2*x], [0, -x]]', '(1+d)*[[x, 2*x], [0, -x]]',
                  lambda x: [[x, 2 * x], [0, -x]], lambda x, d: [[(1 + d) * x, (1 + d) * (2 * x)], [0, (1 + d) * (-x)]]),
    'cvec_imag': ('[x, i*x]', '[x+i*d, i*x+d]',
                  lambda x: [x, 1j * x], lambda x, d: [x + 1j * d, 1j * x + d]),
    'cvec_scale': ('[x, i*x]', '(1+i*d)*[x, i*x]',
                   lambda x: [x, 1j * x], lambda x, d: [(1 + 1j * d) * x, (1 + 1j * d) * (1j * x)]),
    'vec3': ('[x, 2*x, -2*x]', '[x+d, 2*x+d, -2*x+d]',
             lambda x: [x, 2 * x, -2 * x], lambda x, d: [x + d, 2 * x + d, -2 * x + d]),
    'vec3_scale': ('[x, 2*x, -2*x]', '[x, 2*x, -2*x]*(1+d)',
                   lambda x: [x, 2 * x, -2 * x], lambda x, d: [x * (1 + d), 2 * x * (1 + d), -2 * x * (1 + d)]),
    'mscalar': ('x', 'x+d', lambda x: x, lambda x, d: x + d),
    'mabs': ('[x, 2*x]', '[abs(x), 2*x]', lambda x: [x, 2 * x], lambda x, d: [abs(x), 2 * x]),
    'mat_abs': ('[[x, 2*x], [0, -x]]', '[[abs(x), 2*x], [0, -x]]',
                lambda x: [[x, 2 * x], [0, -x]], lambda x, d: [[abs(x), 2 * x], [0, -x]]),
}
ARRAY_X = (2, -4)
ARRAY_THOROUGH_ONLY = ('mat_anti', 'mat_one', 'mat_scale', 'cvec_scale', 'vec3_scale', 'mabs')


def array_dset(form, tol):
    """
    offsets scaled so that, at x=2, the Frobenius miss is c * tolerance for c in CS: c=1.25 separates the Frobenius norm
    from the spectral / max-abs norms (miss/sqrt(2) or less), c=0.8 from the nuclear / 1-norms (miss*sqrt(2) or more)
    """
    _, _, expf, stuf = ARRAY_FORMS[form]
    mode, t = O.tol_value(tol)
    if form in ('mabs', 'mat_abs'):
        return (0, 1)
    if t == 0:
        return (0, 1e-6, 1)
    unit = O.agree(expf(2), stuf(2, 1.0), 0, guard=False)[1]        # miss per unit d at x=2
    t2 = t if mode == 'abs' else t * O.frob(expf(2))
    cs = (0, 0.45, 0.8, 1.25, 3) if mode == 'abs' else (0, 0.8, 1.25, 2.2, 10)
    return tuple(c * t2 / unit for c in cs)


class ArrayNorms(Family):
    name = 'array_norms'
    kind = 'CHOICE'
    timeout = 300.0
    rule = ('MatrixGrader(max_array_dim=2): 2x2 matrix answers with the error on the diagonal / anti-diagonal / one entry / all '
            'entries / a common factor, complex vectors with imaginary errors, 3-vectors, a scalar answer, abs() branch variants; '
            'offsets at 0.45/0.8/1.25/3 x the tolerance in FROBENIUS measure (so that the spectral, max-abs, nuclear and 1-norms '
            'all decide differently somewhere) x tolerances x samples 1-2 x failable_evals; all sampled combinations of x in '
            '%r and d; non-trivial = both verdicts occur' % (ARRAY_X,))

    def cases(self, tier):
        tols = [0.1, '10%', 0] + ([1, '100%', '0.005%', '0%'] if tier == 'thorough' else [])
        nks = [(1, 0), (2, 0), (2, 1)] + ([(2, 2), (1, 1), (3, 1)] if tier == 'thorough' else [])
        for form in ARRAY_FORMS:
            if tier == 'quick' and form in ARRAY_THOROUGH_ONLY:
                continue
            for tol in tols:
                for (n, k) in nks:
                    if tier == 'quick' and (n, k) == (2, 0) and tol != 0:
                        continue
                    yield (form, tol, n, k)

    def check(self, case):
        form, tol, n, k = case
        answer, student, expf, stuf = ARRAY_FORMS[form]
        D = array_dset(form, tol)
        X = ARRAY_X
        if n >= 3:
            D = tuple(d for i, d in enumerate(D) if i in (0, 2, 3))
        grader = MatrixGrader(answers=answer, variables=['x', 'd'], max_array_dim=2,
                              sample_from={'x': DiscreteSet(X), 'd': DiscreteSet(D)},
                              samples=n, failable_evals=k, tolerance=tol)
        execs, grades, v = explore_counting(
            grader, student, {'x': X, 'd': D}, n, k, tol,
            [(lambda e: expf(e['x']), 1)], lambda e: stuf(e['x'], e['d']),
            sig='array:%s' % form, label='MatrixGrader answer %r tolerance %r' % (answer, tol))
        return counted(execs, grades, v)


# ---- options left at their documented defaults; the answer given in every accepted spelling
DEFAULT_TOL = {'F': '0.01%', 'M': '0.01%', 'N': '5%'}      # docs: FormulaGrader '0.01%' (MatrixGrader: as FormulaGrader), NumericalGrader '5%'
DEFAULT_SAMPLES = 5
DEFAULT_FAILABLE = 0
OMIT = [(), ('tolerance',), ('samples',), ('failable_evals',), ('tolerance', 'samples', 'failable_evals')]
SPECS = ['str', 'dict', 'tuple', 'cmp', 'fresh', 'dict-cmp-credit']


def answer_spec(spec, text):
    if spec == 'str':
        return text, 1
    if spec == 'dict':
        return {'expect': text}, 1                       # grade_decimal left at its default
    if spec == 'tuple':
        return (text,), 1
    if spec == 'cmp':
        return {'expect': {'comparer_params': [text], 'comparer': equality_comparer}}, 1
    if spec == 'fresh':
        return {'expect': {'comparer_params': [text], 'comparer': EqualityComparer()}}, 1
    if spec == 'dict-cmp-credit':
        return {'expect': {'comparer_params': [text], 'comparer': equality_comparer}, 'grade_decimal': 0.5}, 0.5
    raise HarnessError(spec)


class Defaults(Family):
    name = 'defaults_and_spellings'
    kind = 'CHOICE'
    timeout = 300.0
    rule = ('FormulaGrader / MatrixGrader with tolerance, samples, failable_evals passed or LEFT OUT (documented defaults 0.01%, '
            '5, 0) x the answer written as string / {expect} / tuple / explicit equality_comparer / a fresh EqualityComparer() / '
            'with credit 0.5; student answer*(1+d), d on both sides of the effective tolerance; all sampled combinations; plus '
            'NumericalGrader with its default 5% tolerance')

    def cases(self, tier):
        for cls in ('F', 'M'):
            for o in range(len(OMIT)):
                for spec in SPECS:
                    if tier == 'quick' and cls == 'M' and spec not in ('str', 'cmp', 'dict-cmp-credit'):
                        continue
                    yield (cls, o, spec)
        for spec in ('str', 'dict', 'cmp'):
            for j in range(7):
                yield ('N', spec, j)

    def check(self, case):
        if case[0] == 'N':
            _, spec, j = case
            student = ['10', '10.4', '9.6', '10.6', '9.4', '10+0.4*i', '10+0.6*i'][j]
            value = [10, 10.4, 9.6, 10.6, 9.4, 10 + 0.4j, 10 + 0.6j][j]
            ans, credit = answer_spec(spec, '10')
            correct = O.agree(10, value, DEFAULT_TOL['N'])[0]
            try:
                res = NumericalGrader(answers=ans)(None, student)
            except Exception as e:
                return Result('raised', True, viol('defaults:raised', 'NumericalGrader(answers=%r) student %r raised %r' % (ans, student, e)))
            exp = credit if correct else 0
            if abs(res['grade_decimal'] - exp) > 1e-12:
                return Result('wrong', True,
                              viol('defaults:numerical:%s' % ('credit-for-miss' if res['grade_decimal'] > exp else 'no-credit-for-match'),
                                   'NumericalGrader(answers=%r) with the default tolerance (5%%): student %r expected grade %r, got %r'
                                   % (ans, student, exp, res), exp, res), 1)
            return Result('correct' if correct else 'incorrect', True, None, 1)
        cls, o, spec = case
        omitted = OMIT[o]
        tol = DEFAULT_TOL[cls] if 'tolerance' in omitted else '1%'
        n = DEFAULT_SAMPLES if 'samples' in omitted else 2
        k = DEFAULT_FAILABLE if 'failable_evals' in omitted else 1
        p = O.tol_value(tol)[1]
        X = (2,) if n > 2 else (2, -4)
        D = (0.5 * p, 1.5 * p) if n > 2 else (0, 0.5 * p, -1.5 * p)
        text = 'x' if cls == 'F' else '[x, 2*x]'
        student = 'x*(1+d)' if cls == 'F' else '(1+d)*[x, 2*x]'
        expf = (lambda e: e['x']) if cls == 'F' else (lambda e: [e['x'], 2 * e['x']])
        stuf = (lambda e: e['x'] * (1 + e['d'])) if cls == 'F' else (lambda e: [(1 + e['d']) * e['x'], (1 + e['d']) * (2 * e['x'])])
        ans, credit = answer_spec(spec, text)
        opts = {'tolerance': tol, 'samples': n, 'failable_evals': k}
        for name in omitted:
            del opts[name]
        grader = (FormulaGrader if cls == 'F' else MatrixGrader)(
            answers=ans, variables=['x', 'd'], sample_from={'x': DiscreteSet(X), 'd': DiscreteSet(D)}, **opts)
        execs, grades, v = explore_counting(
            grader, student, {'x': X, 'd': D}, n, k, tol, [(expf, credit)], stuf,
            sig='defaults:%s' % ('+'.join(omitted) or 'explicit'),
            label='%s(answers=%r, %s) [not passed: %s]' % (type(grader).__name__, ans,
                                                          ', '.join('%s=%r' % kv for kv in sorted(opts.items())), ', '.join(omitted) or '-'))
        return counted(execs, grades, v)


# ---- author and student expressions are evaluated on the SAME sample, whatever kind of symbol is sampled
def f_ident(x):
    return x


def f_neg(x):
    return -x


def f_twice(x):
    return 2 * x


FUNCS = [f_ident, f_neg, f_twice]
SAME_X = (2, -4)
SAME_FORMS = {
    # name: (config kind, answer, student, exp(env), stu(env), draws of the second menu per sample)
    'func:same': ('func', 'f(x)', 'f(x)', lambda e: e['f'](e['x']), lambda e: e['f'](e['x']), 1),
    'func:odd': ('func', 'f(x)', '-f(-x)', lambda e: e['f'](e['x']), lambda e: -e['f'](-e['x']), 1),
    'func:x': ('func', 'f(x)', 'x', lambda e: e['f'](e['x']), lambda e: e['x'], 1),
    'func:-x': ('func', 'f(x)', '-x', lambda e: e['f'](e['x']), lambda e: -e['x'], 1),
    'func:ff': ('func', 'f(x)', 'f(f(x))', lambda e: e['f'](e['x']), lambda e: e['f'](e['f'](e['x'])), 1),
    'func:2x+d': ('func', 'f(x)', '2*x', lambda e: e['f'](e['x']), lambda e: 2 * e['x'], 1),
    # the answer applies the drawn function to constants only (uses no variable): it is still redrawn at every sample
    'func:const': ('func', 'f(2)+3', '3+f(2)', lambda e: e['f'](2) + 3, lambda e: 3 + e['f'](2), 1),
    'func:const5': ('func', 'f(2)+3', '5', lambda e: e['f'](2) + 3, lambda e: 5, 1),
    'func:constx': ('func', 'f(2)+3', 'x+3', lambda e: e['f'](2) + 3, lambda e: e['x'] + 3, 1),
    'num:same': ('num', 'a_{1}*x', 'x*a_{1}', lambda e: e['a'] * e['x'], lambda e: e['x'] * e['a'], 1),
    'num:pad': ('num', 'a_{1}*x', 'a_{1}*x+a_{2}-a_{2}', lambda e: e['a'][0] * e['x'], lambda e: e['a'][0] * e['x'], 2),
    # a_{1} and a_{2} are drawn from the same menu; which draw is which is left open: the miss |a1-a2|*|x| is symmetric
    'num:other': ('num', 'a_{1}*x', 'a_{2}*x', lambda e: e['a'][0] * e['x'], lambda e: e['a'][1] * e['x'], 2),
    'ivar:3': ('ivar', 'c*x', '3*x', lambda e: e['c'] * e['x'], lambda e: 3 * e['x'], 1),
    'ivar:5': ('ivar', 'c*x', 'x*5+0', lambda e: e['c'] * e['x'], lambda e: 5 * e['x'], 1),
    'dep:same': ('dep', 'y*x', 'x*y', lambda e: (2 * e['x'] + 1) * e['x'], lambda e: e['x'] * (2 * e['x'] + 1), 1),
    'dep:expanded': ('dep', 'y*x', '(2*x+1)*x', lambda e: (2 * e['x'] + 1) * e['x'], lambda e: (2 * e['x'] + 1) * e['x'], 1),
    'dep:5x': ('dep', 'y*x', '5*x', lambda e: (2 * e['x'] + 1) * e['x'], lambda e: 5 * e['x'], 1),
}
SAME_A = (3, 5)
SAME_C = (3, 5, 3.5)


class SameSample(Family):
    name = 'same_sample'
    kind = 'CHOICE'
    timeout = 300.0
    rule = ('the answer and the student formula see the same sample of every kind of sampled symbol: a function drawn from a list '
            'of three (f(x) vs f(x), -f(-x), x, -x, f(f(x)), 2*x agree exactly at the samples where the drawn function makes them '
            'equal), numbered variables, an instructor-only variable, a DependentSampler; tolerances {0, 0.1, 1%%} x samples 1-2 '
            '(3 in thorough) x failable_evals; all sampled combinations (x in %r)' % (SAME_X,))

    def cases(self, tier):
        nks = [(1, 0), (2, 0), (2, 1)] + ([(3, 0), (3, 1)] if tier == 'thorough' else [])
        for form in SAME_FORMS:
            for tol in (0, 0.1) + (('1%',) if tier == 'thorough' else ()):
                for (n, k) in nks:
                    if tier == 'quick' and (n, k) == (1, 0) and tol != 0:
                        continue
                    yield (form, tol, n, k)

    def check(self, case):
        form, tol, n, k = case
        kind, answer, student, expf, stuf, q = SAME_FORMS[form]
        X = SAME_X
        if kind == 'func':
            grader = FormulaGrader(answers=answer, variables=['x'], sample_from={'x': DiscreteSet(X)},
                                   user_functions={'f': list(FUNCS)}, samples=n, failable_evals=k, tolerance=tol)
            menus, per = {'x': X, 'f': FUNCS}, None
        elif kind == 'num':
            grader = FormulaGrader(answers=answer, variables=['x'], numbered_vars=['a'],
                                   sample_from={'x': DiscreteSet(X), 'a': DiscreteSet(SAME_A)},
                                   samples=n, failable_evals=k, tolerance=tol)
            menus, per = {'x': X, 'a': SAME_A}, {'a': q}
        elif kind == 'ivar':
            grader = FormulaGrader(answers=answer, variables=['x', 'c'], instructor_vars=['c'],
                                   sample_from={'x': DiscreteSet(X), 'c': DiscreteSet(SAME_C)},
                                   samples=n, failable_evals=k, tolerance=tol)
            menus, per = {'x': X, 'c': SAME_C}, None
        else:
            grader = FormulaGrader(answers=answer, variables=['x', 'y'],
                                   sample_from={'x': DiscreteSet(X), 'y': DependentSampler(depends=['x'], formula='2*x+1')},
                                   samples=n, failable_evals=k, tolerance=tol)
            menus, per = {'x': X}, None
        execs, grades, v = explore_counting(grader, student, menus, n, k, tol, [(expf, 1)], stuf, per=per,
                                            sig='same-sample:%s' % form,
                                            label='FormulaGrader answer %r tolerance %r (%s)' % (answer, tol, kind))
        always = form.split(':')[1] in ('same', 'odd', 'pad', 'expanded', 'const')
        return counted(execs, grades, v, nontrivial=True if always else None)


# ---- long runs: more samples than the full product can afford, every subset of failing samples, through an
# ---- author-defined recording sampling set (a VariableSamplingSet subclass), a fresh grader per execution
LONG_FORMS = {
    'offset': ('F', 'x', 'x+d', 0.1, lambda x: x, lambda x, d: x + d),
    'mscale': ('M', '[x, 2*x]', '(1+d)*[x, 2*x]', '10%', lambda x: [x, 2 * x], lambda x, d: [(1 + d) * x, (1 + d) * (2 * x)]),
}


class LongRuns(Family):
    name = 'long_runs'
    rule = ('samples n in 3..5 (6 in thorough) x failable_evals 0..n+1 x credit {1, 0.5} x debug {off, on}: EVERY subset of '
            'the n samples as the set of failing samples (2^n scripts), values handed out and recorded by an author-defined '
            'VariableSamplingSet subclass (x repeats, so equal (author, student) pairs recur); a new grader per script')

    def cases(self, tier):
        for form in LONG_FORMS:
            for n in (3, 4, 5) + ((6,) if tier == 'thorough' else ()):
                for k in range(0, n + 2):
                    for c in (1, 0.5):
                        for debug in (False, True):
                            if debug and (c != 1 or k not in ((0, 1, n) if n == 3 else (1,))):
                                continue
                            if tier == 'quick' and n >= 4 and (c != 1 or form != 'offset' or (n == 5 and (debug or k == 3))):
                                continue
                            yield (form, n, k, c, debug)

    def check(self, case):
        form, n, k, c, debug = case
        gk, answer, student, tol, expf, stuf = LONG_FORMS[form]
        p = O.tol_value(tol)[1]
        cls = FormulaGrader if gk == 'F' else MatrixGrader
        verdicts = set()
        for mask in range(2 ** n):
            sx = ScriptedSampler(values=[2, 2, -4])
            sd = ScriptedSampler(values=[(3 * p if (mask >> i) & 1 else (0.5 * p if i % 2 else 0)) for i in range(n)])
            grader = cls(answers={'expect': answer, 'grade_decimal': c}, variables=['x', 'd'], sample_from={'x': sx, 'd': sd},
                         samples=n, failable_evals=k, tolerance=tol, debug=debug)
            try:
                res = grader(None, student)
            except Exception as e:
                return Result('raised', True, viol('long:raised', '%r mask %s raised %r' % (case, bin(mask), e)), mask + 1)
            if len(sx.drawn) != n or len(sd.drawn) != n:
                raise HarnessError('expected %d draws, recorded %r / %r' % (n, sx.drawn, sd.drawn))
            failures = sum(1 for x, d in zip(sx.drawn, sd.drawn) if not O.agree(expf(x), stuf(x, d), tol)[0])
            if failures != bin(mask).count('1'):
                raise HarnessError('script and oracle disagree about the failing samples')
            correct = O.verdict(failures, n, k)
            verdicts.add(correct)
            exp = c if correct else 0
            if abs(res['grade_decimal'] - exp) > 1e-12 or res['ok'] != O.ok_of(exp):
                return Result('wrong', True,
                              viol('long:%s:%s' % (form, 'credit-for-miss' if res['grade_decimal'] > exp else 'no-credit-for-match'),
                                   '%s answer %r tolerance %r samples=%d failable_evals=%d credit=%r debug=%r student %r; recorded '
                                   'samples x=%r d=%r: %d out of tolerance -> expected grade %r, got ok=%r grade=%r'
                                   % (cls.__name__, answer, tol, n, k, c, debug, student, sx.drawn, sd.drawn, failures, exp,
                                      res['ok'], res['grade_decimal']), exp, {'ok': res['ok'], 'grade_decimal': res['grade_decimal']}),
                              mask + 1)
        return Result('both' if len(verdicts) == 2 else ('all-correct' if True in verdicts else 'all-wrong'),
                      len(verdicts) == 2, None, 2 ** n)


# ---- infinities that depend on the sample, counted against failable_evals; NumericalGrader with allow_inf
INFC_EXPRS = {
    'infty*x': lambda x: O.INF * x, '-infty*x': lambda x: -O.INF * x, 'infty': lambda x: O.INF, '-infty': lambda x: -O.INF,
    'x': lambda x: x, 'abs(x)': lambda x: abs(x), 'infty*abs(x)': lambda x: O.INF * abs(x), '3*x': lambda x: 3 * x,
}
INFC_ANSWERS = ['infty*x', '-infty*x', 'infty', 'x']
INFC_STUDENTS = ['infty*x', '-infty*x', 'infty', '-infty', 'x', 'abs(x)', 'infty*abs(x)', '3*x']
INFC_X = (3, -7)
NUMINF = [('infty', O.INF), ('-infty', -O.INF), ('1e150', 1e150), ('5', 5), ('infty+1', O.INF), ('-(-infty)', O.INF), ('-1e150', -1e150)]


class InfinityCounting(Family):
    name = 'infinity_counting'
    kind = 'CHOICE'
    timeout = 120.0
    rule = ('allow_inf=True, x drawn from %r so that infty*x is +infinity at some samples and -infinity at others: answers %s x '
            'students %s x tolerances {0.1, 100%%, infinite} x samples 2 x failable_evals 0..2 (a sample agrees iff both values are '
            'the same infinity, or both are finite and within tolerance); plus NumericalGrader(allow_inf=True) on every pair of %s'
            % (INFC_X, INFC_ANSWERS, INFC_STUDENTS, [a for a, _ in NUMINF]))

    def cases(self, tier):
        for a in range(len(INFC_ANSWERS)):
            for s in range(len(INFC_STUDENTS)):
                for tol in (0.1, '100%', 'inf'):
                    for (n, k) in ((2, 0), (2, 1), (2, 2), (1, 0)):
                        if tol == 'inf' and tier == 'quick' and (n, k) != (2, 0):
                            continue
                        yield ('F', a, s, tol, n, k)
        for a in range(len(NUMINF)):
            for s in range(len(NUMINF)):
                for tol in (0.1, '100%', 'inf', 0):
                    if tier == 'quick' and (max(a, s) >= 5 or tol == 0):
                        continue
                    yield ('N', a, s, tol)

    def check(self, case):
        if case[0] == 'N':
            _, a, s, tol = case
            (at, av), (st, sv) = NUMINF[a], NUMINF[s]
            if not (O.is_inf(av) or O.is_inf(sv)) and av != sv:
                return Result('finite-pair', False, None, 0)
            correct = O.agree(av, sv, tol)[0]
            try:
                res = NumericalGrader(answers=at, allow_inf=True, tolerance=O.tol_config(tol))(None, st)
            except Exception as e:
                return Result('raised', True, viol('infinity:numerical:raised', 'answer %r student %r raised %r' % (at, st, e)), 1)
            if (res['grade_decimal'] == 1) != correct or res['ok'] != correct:
                return Result('wrong', True,
                              viol('infinity:numerical:%s' % ('mismatch-credited' if res['grade_decimal'] else 'same-value-refused'),
                                   'NumericalGrader(allow_inf=True, tolerance=%r): answer %r student %r -> %r' % (tol, at, st, res),
                                   correct, res), 1)
            return Result('match' if correct else 'nomatch', True, None, 1)
        _, a, s, tol, n, k = case
        ans, stu = INFC_ANSWERS[a], INFC_STUDENTS[s]
        ef, sf = INFC_EXPRS[ans], INFC_EXPRS[stu]
        grader = FormulaGrader(answers=ans, variables=['x'], sample_from={'x': DiscreteSet(INFC_X)}, samples=n,
                               failable_evals=k, allow_inf=True, tolerance=O.tol_config(tol))
        execs, grades, v = explore_counting(grader, stu, {'x': INFC_X}, n, k, tol, [(lambda e: ef(e['x']), 1)],
                                            lambda e: sf(e['x']), sig='infinity:counting',
                                            label='FormulaGrader(allow_inf=True) answer %r tolerance %r' % (ans, tol))
        return counted(execs, grades, v, nontrivial=True)


# ---- several answers with different credits: the credit earned is that of the best answer whose count agrees
CREDIT_SETS = [('two', 1, 0.5), ('two', 0.5, 1), ('two', 0.5, 0.25), ('two', 0, 1), ('two', 1, 0), ('expect-tuple', 1, None),
               ('expect-tuple', 0.5, None)]


class AnswerCredit(Family):
    name = 'answer_credit'
    kind = 'CHOICE'
    timeout = 300.0
    rule = ('two configured answers x and x+1 with credits (1,.5) (.5,1) (.5,.25) (0,1) (1,0), or one answer whose expect is the '
            'tuple (x, x+1); student x+d with d drawn from (0, 1, 0.3, 1.04): each answer is compared on its own n samples and the '
            'student earns the largest credit among the answers whose count of failing samples is within failable_evals; '
            'FormulaGrader and MatrixGrader (vector answers), samples 1-2, failable_evals 0..1, all sampled combinations')

    def cases(self, tier):
        for cls in ('F', 'M'):
            for ci in range(len(CREDIT_SETS)):
                if tier == 'quick' and cls == 'M' and ci not in (1, 5):
                    continue
                for (n, k) in ((1, 0), (2, 0), (2, 1)):
                    if tier == 'quick' and (n, k) == (2, 0) and ci >= 2:
                        continue
                    yield (cls, ci, n, k)

    def check(self, case):
        cls, ci, n, k = case
        kind, c1, c2 = CREDIT_SETS[ci]
        tol = 0.1
        X = (2,)
        D = (0, 1, 0.3, 1.04) if n == 1 else (0, 1, 0.3)
        if cls == 'F':
            a1, a2, student = 'x', 'x+1', 'x+d'
            e1, e2, sf = (lambda e: e['x']), (lambda e: e['x'] + 1), (lambda e: e['x'] + e['d'])
        else:
            a1, a2, student = '[x, 2*x]', '[x+1, 2*x]', '[x+d, 2*x]'
            e1, e2, sf = (lambda e: [e['x'], 2 * e['x']]), (lambda e: [e['x'] + 1, 2 * e['x']]), (lambda e: [e['x'] + e['d'], 2 * e['x']])
        if kind == 'two':
            answers = ({'expect': a1, 'grade_decimal': c1}, {'expect': a2, 'grade_decimal': c2})
            model = [(e1, c1), (e2, c2)]
        else:
            answers = {'expect': (a1, a2), 'grade_decimal': c1}
            model = [(e1, c1), (e2, c1)]
        grader = (FormulaGrader if cls == 'F' else MatrixGrader)(
            answers=answers, variables=['x', 'd'], sample_from={'x': DiscreteSet(X), 'd': DiscreteSet(D)},
            samples=n, failable_evals=k, tolerance=tol)
        execs, grades, v = explore_counting(grader, student, {'x': X, 'd': D}, n, k, tol, model, sf,
                                            sig='answer-credit:%s' % kind,
                                            label='%s answers=%r tolerance %r' % (type(grader).__name__, answers, tol))
        return counted(execs, grades, v)



# ---- rewrites of array / complex / numerical answers
MAT = '[[x, 2*x], [0, -x]]'
REWRITE_SETS = {
    # key: (grader kind, answer, equivalent formulas, formulas that differ by >= 19% at every sample)
    'matrix': ('M', MAT,
               ['x*[[1, 2], [0, -1]]', '[[1, 2], [0, -1]]*x', MAT + '*I', 'I*' + MAT, MAT + '+0*I', 'trans(trans(' + MAT + '))',
                '[[x, x+x], [0, 0-x]]', '-[[-x, -2*x], [0, x]]', MAT + '^1', ' [ [ x , 2*x ] , [ 0 , -x ] ] ', '(' + MAT + ')',
                MAT + '/1', '[[x, 2*x], [0, -x]]+[[1, 1], [1, 1]]-[[1, 1], [1, 1]]'],
               ['trans(' + MAT + ')', '[[x, 2*x], [0, x]]', '2*' + MAT, '-' + MAT, '[[x, 2*x], [x, -x]]', MAT + '+I*x', '0*' + MAT]),
    'vector': ('M', '[x, 2*x]',
               ['x*[1, 2]', '[x, 2*x]+[0, 0]', '[2*x, 4*x]/2', '[x, x+x]', '-[-x, -2*x]', '[1, 2]*x*1'],
               ['[2*x, x]', '[x, -2*x]', '[x, 3*x]', '[0, 0]', '[x, 2*x]*1.5']),
    'complex': ('F', 'z*(y+i)',
                ['z*y+z*i', '(y+i)*z', 'i*z+y*z', 'z*(y+i)+0*i', '-(-z)*(y+i)', 'z*(i+y)*1'],
                ['z*(y-i)', 'conj(z)*(y+i)', 'z*y', 'i*z*(y+i)', 'abs(z)*(y+i)']),
    'number': ('N', '10', ['5+5', '1e1', '20/2', '10.0', ' 10 ', '2*5', '10+0*i', '(10)', '100^0.5*1', '10.000'],
               ['5', '-10', '10*i', '12.5', '7.5', '0', '100']),
}
RW_X = (2, -4, 10)
RW_Z = (1 + 2j, -3j)
RW_Y = (3, -5)


class ArrayRewrites(Family):
    name = 'array_rewrites'
    kind = 'CHOICE'
    timeout = 120.0
    rule = ('equivalence-preserving rewrites (exact in floats) of a 2x2 matrix answer, a vector answer (MatrixGrader, identity_dim=2), '
            'a complex-valued formula (z drawn from %r) and a NumericalGrader answer must earn full credit, formulas that differ by '
            '>= 19%% at every sample none: tolerances {0, 0%%, 0.01%%, 10%%} x samples 1-2 x failable_evals < samples, all sampled '
            'combinations' % (RW_Z,))

    def cases(self, tier):
        for key in REWRITE_SETS:
            gk, _, same, diff = REWRITE_SETS[key]
            for tol in ((0, '10%') if tier == 'quick' else (0, '0%', '0.01%', '10%')):
                for (n, k) in (((1, 0),) if gk == 'N' else (((2, 0), (2, 1)) if tier == 'quick' else ((1, 0), (2, 0), (2, 1), (3, 1)))):
                    if tier == 'quick' and gk != 'N' and (tol, k) not in ((0, 0), ('10%', 1)):
                        continue
                    for i in range(len(same) + len(diff)):
                        yield (key, tol, n, k, i)

    def check(self, case):
        key, tol, n, k, i = case
        gk, answer, same, diff = REWRITE_SETS[key]
        equivalent = i < len(same)
        student = same[i] if equivalent else diff[i - len(same)]
        if gk == 'M':
            grader = MatrixGrader(answers=answer, variables=['x'], sample_from={'x': DiscreteSet(RW_X)}, max_array_dim=2,
                                  identity_dim=2, samples=n, failable_evals=k, tolerance=tol)
        elif gk == 'F':
            grader = FormulaGrader(answers=answer, variables=['z', 'y'], sample_from={'z': DiscreteSet(RW_Z), 'y': DiscreteSet(RW_Y)},
                                   samples=n, failable_evals=k, tolerance=tol)
        else:
            grader = NumericalGrader(answers=answer, tolerance=tol)

        def body(ch):
            try:
                return ('ok', grader(None, student))
            except Exception as e:
                return ('err', type(e).__name__, str(e))
        execs = 0
        for ch, out in chooser.explore(body, bound=None):
            execs += 1
            if out[0] != 'ok':
                return Result('raised', True, viol('array-rewrites:raised', '%s answer %r student %r raised %r'
                                                   % (type(grader).__name__, answer, student, out[1:])), execs)
            g = out[1]['grade_decimal']
            if (g == 1) != equivalent or out[1]['ok'] != equivalent:
                return Result('wrong', True,
                              viol('array-rewrites:%s:%s' % (key, 'equivalent-formula-not-credited' if equivalent else 'different-formula-credited'),
                                   '%s answer %r tolerance %r samples %d failable_evals %d: student %r %s but got %r (choices %r)'
                                   % (type(grader).__name__, answer, tol, n, k, student,
                                      'is identical to the answer' if equivalent else 'differs from the answer at every sample',
                                      out[1], ch.choices), equivalent, out[1]), execs)
        return Result('credited' if equivalent else 'refused', True, None, execs)


def families(tier):
    return [SampleCounting(), Rewrites(), Numerical(), Infinity(), ZeroExpected(),
            ArrayNorms(), Defaults(), SameSample(), LongRuns(), InfinityCounting(), AnswerCredit(), ArrayRewrites()]
