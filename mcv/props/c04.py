"""
C04 -- a formula is marked correct exactly when enough samples agree within tolerance.

CHOICE engine, full product: the variables are sampled from DiscreteSets, the explorer owns
random.choice, and for every configuration EVERY combination of sampled values (x_i, d_i),
i < samples, is executed.  The oracle counts the samples whose miss exceeds the tolerance.
"""
import math
import itertools
from ..core import Family, Result, viol, HarnessError
from .. import chooser

from mitxgraders import FormulaGrader, NumericalGrader, MatrixGrader, DiscreteSet

PROPERTY = 'C04'
RULE = ('per configuration (grader kind x student form x tolerance x samples x failable_evals x credit) the full '
        'product of sampled values is executed; a configuration is non-trivial when both verdicts (credit / no '
        'credit) occur among its executions or when it pins the boundary (exact equality at tolerance 0)')
EXPLANATION = ('states = distinct (configuration, RNG schedule) executions; transitions = grader calls; '
               'the RNG is an explored environment, every schedule runs the real grader')
ASSUMPTIONS = ['guard band: no sampled miss lies within 4% of the tolerance (asserted by the harness)',
               'DiscreteSet draws are the only RNG use in these configurations (any other draw is a harness error)',
               'oracle: failures = #{i: |expected_i - student_i| > tol_i}, tol_i = t or p*|expected_i| (Frobenius)']

XS_REAL = (2, -4, 10)
XS_CPLX = (1 + 2j, -3j)
XS_SMALL = (2, -4)


def tol_value(tol):
    """returns ('abs', t) or ('pct', p)"""
    if isinstance(tol, str):
        return ('pct', float(tol.strip()[:-1]) / 100.0)
    return ('abs', float(tol))


def dset(kind, form, tol, small):
    """the sampled 'd' values for this configuration (the oracle decides each from first principles)"""
    mode, t = tol_value(tol)
    if form == 'abs':
        return (0,)
    if t == 0:
        ds = [0, 1e-6, -1e-6, 1]
    elif kind == 'complex':
        ds = [0, 0.5j * t, (0.8 + 0.8j) * t, (0.6 - 0.6j) * t, 1.5 * t, 100 * t]
    else:
        ds = [0, 0.5 * t, -0.5 * t, 1.5 * t, -1.5 * t, 100 * t]
        if form == 'mboth':
            ds += [0.8 * t, 0.6 * t]
        if mode == 'pct' and t >= 0.1 and form in ('scale', 'mscale'):
            ds += [1.05 * t]
    if small:
        ds = [d for i, d in enumerate(ds) if i in (0, 1, 4, 5, 6)]
    return tuple(ds)


FORMS = {
    # name: (grader class key, answer, student formula, miss(x,d), author_norm(x))
    'offset': ('F', 'x', 'x+d', lambda x, d: abs(d), lambda x: abs(x)),
    'scale': ('F', 'x', 'x*(1+d)', lambda x, d: abs(x) * abs(d), lambda x: abs(x)),
    'abs': ('F', 'x', 'abs(x)', lambda x, d: abs(abs(x) - x), lambda x: abs(x)),
    'moffset': ('M', '[x, 2*x]', '[x+d, 2*x]', lambda x, d: abs(d), lambda x: math.sqrt(5) * abs(x)),
    'mboth': ('M', '[x, 2*x]', '[x+d, 2*x+d]', lambda x, d: math.sqrt(2) * abs(d), lambda x: math.sqrt(5) * abs(x)),
    'mscale': ('M', '[x, 2*x]', '[x*(1+d), 2*x*(1+d)]', lambda x, d: math.sqrt(5) * abs(x) * abs(d),
               lambda x: math.sqrt(5) * abs(x)),
}


def forms_for(tol):
    mode, t = tol_value(tol)
    if t == 0:
        return ['offset', 'scale', 'abs', 'moffset', 'mscale']
    if mode == 'abs':
        return ['offset', 'abs', 'moffset', 'mboth']
    return ['scale', 'abs', 'mscale']


class SampleCounting(Family):
    name = 'sample_counting'
    kind = 'CHOICE'
    timeout = 600.0
    rule = ('kinds {real, complex} x student forms {x+d, x*(1+d), abs(x), [x+d,2x], [x+d,2x+d], scaled vector} x '
            'tolerances x samples n x failable_evals 0..n+1 x answer credit {1, 0.5}; ALL |X|^n*|D|^n sampled value '
            'combinations per configuration; non-trivial = both verdicts occur or exact-equality boundary pinned')

    def cases(self, tier):
        tols = [0, 0.1, '0%', '10%', '0.005%'] + ([1, '1%', '100%', '0.0125%'] if tier == 'thorough' else [])
        ns = [1, 2, 3] if tier == 'thorough' else [1, 2]
        for kind in ('real', 'complex'):
            for tol in tols:
                for form in forms_for(tol):
                    if kind == 'complex' and form == 'abs':
                        continue
                    for n in ns:
                        for k in range(0, n + 2):
                            for c in (1, 0.5):
                                yield (kind, form, tol, n, k, c)

    def check(self, case):
        kind, form, tol, n, k, c = case
        gk, answer, student, missf, normf = FORMS[form]
        small = n >= 3
        X = (XS_CPLX if kind == 'complex' else (XS_SMALL if small else XS_REAL))
        D = dset(kind, form, tol, small)
        cls = FormulaGrader if gk == 'F' else MatrixGrader
        grader = cls(answers={'expect': answer, 'grade_decimal': c}, variables=['x', 'd'],
                     sample_from={'x': DiscreteSet(X), 'd': DiscreteSet(D)},
                     samples=n, failable_evals=k, tolerance=tol)
        mode, t = tol_value(tol)

        def body(ch):
            try:
                return ('ok', grader(None, student))
            except Exception as e:
                return ('err', type(e).__name__, str(e))

        execs = 0
        verdicts = set()
        for ch, out in chooser.explore(body, bound=None):
            execs += 1
            xs = [v[1][v[2]] for v in ch.values if isinstance(v, tuple) and v[0] == 'choice' and v[1] == X]
            dsn = [v[1][v[2]] for v in ch.values if isinstance(v, tuple) and v[0] == 'choice' and v[1] == D]
            if len(xs) < n or (len(dsn) < n and form != 'abs'):
                raise HarnessError('expected %d draws of x and d, saw %d/%d (points %r)' % (n, len(xs), len(dsn), ch.points))
            if X == D:
                raise HarnessError('X and D coincide')
            failures = 0
            for i in range(n):
                x = xs[i]
                d = dsn[i] if i < len(dsn) else 0
                miss = missf(x, d)
                tl = t if mode == 'abs' else t * normf(x)
                if miss != 0 and tl != 0 and abs(miss - tl) <= 0.04 * tl:
                    raise HarnessError('guard band violated: miss %r tol %r' % (miss, tl))
                if miss > tl:
                    failures += 1
            correct = failures <= k and not (n == 1 and failures >= 1)
            exp_grade = c if correct else 0
            verdicts.add(correct)
            if out[0] != 'ok':
                return Result('raised', True,
                              viol('counting:raised', '%r with samples x=%r d=%r raised %s: %s' % (case, xs, dsn, out[1], out[2]),
                                   exp_grade, out[1:]), execs)
            res = out[1]
            exp_ok = {1: True, 0: False}.get(exp_grade, 'partial')
            if abs(res['grade_decimal'] - exp_grade) > 1e-12 or res['ok'] != exp_ok:
                return Result('wrong', True,
                              viol('counting:%s:%s' % (form, 'credit-for-miss' if res['grade_decimal'] > exp_grade else 'no-credit-for-match'),
                                   '%s tolerance=%r samples=%d failable=%d credit=%r student=%r; sampled x=%r d=%r: %d sample(s) '
                                   'out of tolerance -> expected grade %r, got %r'
                                   % (cls.__name__, tol, n, k, c, student, xs[:n], dsn[:n], failures, exp_grade, res),
                                   {'grade_decimal': exp_grade, 'ok': exp_ok}, res), execs)
        nontriv = len(verdicts) == 2 or t == 0
        return Result('both' if len(verdicts) == 2 else ('all-correct' if True in verdicts else 'all-wrong'),
                      nontriv, None, execs)


REWRITES = ['x*(y+1)', 'x*y+x', '(y+1)*x', 'x*(y+1)+0', '0+x*(y+1)', '1*x*(y+1)', 'x*(y+1)*1', ' x * ( y + 1 ) ',
            '((x))*((y+1))', 'x*(1+y)', 'x*(y+1)/1', 'x*(y+1)^1', '-(-x*(y+1))', 'x*(y+1)-0', '\tx*(y+1)\n',
            'x*y+x*1', '(x*y+x)']
NONREWRITES = ['x*(y+1)+10*x', 'x*y', 'x*(y-1)', '-x*(y+1)', 'x*(y+1)*1.5', 'x*(y+1)/2']


class Rewrites(Family):
    name = 'rewrites'
    kind = 'CHOICE'
    timeout = 120.0
    rule = ('answer x*(y+1) with x in (2,-4,10), y in (3,-5) (exact in floats): %d equivalence-preserving rewrites must '
            'earn full credit and %d different formulas (off by >= 25%% at every sample) none, at every tolerance incl. 0 '
            'and every failable_evals < samples, over ALL sampled value combinations'
            % (len(REWRITES), len(NONREWRITES)))

    def cases(self, tier):
        tols = [0, '0%', 0.1, '10%', '0.01%']
        ns = [1, 2] if tier == 'quick' else [1, 2, 3]
        for tol in tols:
            for n in ns:
                for k in range(0, n):
                    for i in range(len(REWRITES) + len(NONREWRITES)):
                        yield (tol, n, k, i)

    def check(self, case):
        tol, n, k, i = case
        same = i < len(REWRITES)
        student = REWRITES[i] if same else NONREWRITES[i - len(REWRITES)]
        X, Y = (2, -4, 10), (3, -5)
        grader = FormulaGrader(answers={'expect': 'x*(y+1)', 'grade_decimal': 1}, variables=['x', 'y'],
                               sample_from={'x': DiscreteSet(X), 'y': DiscreteSet(Y)}, samples=n,
                               failable_evals=k, tolerance=tol)

        def body(ch):
            try:
                return ('ok', grader(None, student))
            except Exception as e:
                return ('err', type(e).__name__, str(e))
        execs = 0
        for ch, out in chooser.explore(body, bound=None):
            execs += 1
            if out[0] != 'ok':
                return Result('raised', True, viol('rewrites:raised', '%r raised %s' % (student, out[1:]), None, out[1:]), execs)
            g = out[1]['grade_decimal']
            if same and g != 1:
                return Result('wrong', True,
                              viol('rewrites:equivalent-formula-not-credited',
                                   'tolerance %r samples %d failable %d: %r is identical to the answer x*(y+1) but got %r (choices %r)'
                                   % (tol, n, k, student, out[1], ch.choices), 1, out[1]), execs)
            if not same and g != 0:
                return Result('wrong', True,
                              viol('rewrites:different-formula-credited',
                                   'tolerance %r samples %d failable %d: %r differs from x*(y+1) everywhere but got %r (choices %r)'
                                   % (tol, n, k, student, out[1], ch.choices), 0, out[1]), execs)
        return Result('credited' if same else 'refused', True, None, execs)


class ZeroExpected(Family):
    name = 'zero_expected_percentage'
    kind = 'CHOICE'
    timeout = 300.0
    rule = ('percentage tolerance when the author\'s value is exactly zero at a sample (p% of 0 is 0: only an exact match agrees there): '
            'answers x, x*(x-3), [x, 2*x] with x drawn from (0, 3), students answer+d / entrywise +d with d drawn from (0, 0.3p, 30p); '
            'all sampled combinations x tolerances {1%, 10%, 100%} x samples 1-2 x failable_evals 0..2; plus NumericalGrader answers 0 and 0*i')

    FORMS = {
        'x': ('F', 'x', 'x+d', lambda x: abs(x), lambda d: abs(d)),
        'xx3': ('F', 'x*(x-3)', 'x*(x-3)+d', lambda x: abs(x * (x - 3)), lambda d: abs(d)),
        'vec': ('M', '[x, 2*x]', '[x+d, 2*x]', lambda x: math.sqrt(5) * abs(x), lambda d: abs(d)),
    }

    def cases(self, tier):
        for form in ('x', 'xx3', 'vec'):
            for tol in ('1%', '10%', '100%'):
                for n in (1, 2):
                    for k in range(0, n + 1):
                        yield (form, tol, n, k)
        for tol in ('1%', '10%', '100%', '0%', 0.01):
            for j in range(6):
                yield ('num', tol, j)

    def check(self, case):
        if case[0] == 'num':
            _, tol, j = case
            mode, t = tol_value(tol)
            answer = ['0', '0*i', '2-2', '0', '0', '0'][j]
            student = ['0', '0', '0.0', '0.004', '-1e-9', '0.004*i'][j]
            miss = [0, 0, 0, 0.004, 1e-9, 0.004][j]
            tl = 0.0 if mode == 'pct' else t
            correct = not (miss > tl)
            try:
                res = NumericalGrader(answers=answer, tolerance=tol)(None, student)
            except Exception as e:
                return Result('raised', True, viol('zero:raised', '%r' % e))
            if (res['grade_decimal'] == 1) != correct:
                return Result('wrong', True,
                              viol('zero:numerical:%s' % ('credit-for-miss' if res['grade_decimal'] else 'no-credit-for-match'),
                                   'NumericalGrader answer %r tolerance %r student %r: expected %s, got %r'
                                   % (answer, tol, student, 'correct' if correct else 'incorrect', res), correct, res))
            return Result('correct' if correct else 'incorrect', True)
        form, tol, n, k = case
        gk, answer, student, normf, missf = self.FORMS[form]
        mode, p = tol_value(tol)
        X = (0, 3)
        D = (0, 0.3 * p, 30 * p)
        cls = FormulaGrader if gk == 'F' else MatrixGrader
        grader = cls(answers=answer, variables=['x', 'd'], sample_from={'x': DiscreteSet(X), 'd': DiscreteSet(D)},
                     samples=n, failable_evals=k, tolerance=tol)

        def body(ch):
            try:
                return ('ok', grader(None, student))
            except Exception as e:
                return ('err', type(e).__name__, str(e))
        execs = 0
        verdicts = set()
        for ch, out in chooser.explore(body, bound=None):
            execs += 1
            xs = [v[1][v[2]] for v in ch.values if isinstance(v, tuple) and v[0] == 'choice' and v[1] == X]
            ds = [v[1][v[2]] for v in ch.values if isinstance(v, tuple) and v[0] == 'choice' and v[1] == D]
            failures = 0
            for i in range(n):
                tl = p * normf(xs[i])
                miss = missf(ds[i])
                if miss != 0 and tl != 0 and abs(miss - tl) <= 0.04 * tl:
                    raise HarnessError('guard band')
                if miss > tl:
                    failures += 1
            correct = failures <= k and not (n == 1 and failures >= 1)
            verdicts.add(correct)
            if out[0] != 'ok':
                return Result('raised', True, viol('zero:raised', '%r raised %r' % (case, out[1:])), execs)
            if (out[1]['grade_decimal'] == 1) != correct:
                return Result('wrong', True,
                              viol('zero:%s:%s' % (form, 'credit-for-miss' if out[1]['grade_decimal'] else 'no-credit-for-match'),
                                   '%s answer %r tolerance %r samples %d failable %d student %r; sampled x=%r d=%r: %d sample(s) out of '
                                   'tolerance (p%% of a zero value is 0) -> expected %s, got %r'
                                   % (cls.__name__, answer, tol, n, k, student, xs[:n], ds[:n], failures,
                                      'correct' if correct else 'incorrect', out[1]), correct, out[1]), execs)
        return Result('both' if len(verdicts) == 2 else 'one', len(verdicts) == 2, None, execs)


NUM_ANSWERS = [('10', 10), ('-4', -4), ('0.5', 0.5), ('2+3*i', 2 + 3j)]


class Numerical(Family):
    name = 'numerical_single_sample'
    rule = ('NumericalGrader (one sample, no failure tolerated): answers {10, -4, 0.5, 2+3i} x student = answer + delta '
            'with delta from the tolerance-scaled offsets (incl. complex offsets separating modulus from component-wise '
            'comparison) x tolerances x credit {1, 0.5}')

    def cases(self, tier):
        tols = [0, 0.1, '0%', '10%', 1, '1%', '100%', '5%', '0.005%', '0.0125%', '0.002%', 1e-7, ' 2.5 % ']
        for a in range(len(NUM_ANSWERS)):
            for tol in tols:
                for c in (1, 0.5):
                    for j in range(9):
                        yield (a, tol, c, j)

    def check(self, case):
        a, tol, c, j = case
        atxt, aval = NUM_ANSWERS[a]
        mode, t = tol_value(tol)
        scale = 1.0 if mode == 'abs' else abs(aval)
        if t == 0:
            offs = [0, 1e-6, -1e-6, 1, 1e-6j, 0, 0, 0, 0]
        else:
            offs = [0, 0.5 * t, -0.5 * t, 1.5 * t, -1.5 * t, 100 * t, 0.5j * t, (0.8 + 0.8j) * t, (0.6 - 0.6j) * t]
        delta = offs[j] * scale
        if isinstance(delta, complex):
            student = '%s+(%r)+(%r)*i' % (atxt, delta.real, delta.imag)
        else:
            student = '%s+(%r)' % (atxt, delta)
        miss = abs(delta)
        tl = t if mode == 'abs' else t * abs(aval)
        correct = not (miss > tl)
        if miss != 0 and tl != 0 and abs(miss - tl) <= 0.04 * tl:
            raise HarnessError('guard band')
        grader = NumericalGrader(answers={'expect': atxt, 'grade_decimal': c}, tolerance=tol)
        try:
            res = grader(None, student)
        except Exception as e:
            return Result('raised', True, viol('numerical:raised', '%r raised %r' % (student, e)))
        exp = c if correct else 0
        if abs(res['grade_decimal'] - exp) > 1e-12:
            return Result('wrong', True,
                          viol('numerical:%s' % ('credit-for-miss' if res['grade_decimal'] > exp else 'no-credit-for-match'),
                               'NumericalGrader answer %s tolerance %r: student %r misses by %r (tolerance %r): expected grade %r, got %r'
                               % (atxt, tol, student, miss, tl, exp, res), exp, res))
        return Result('correct' if correct else 'incorrect', True)


INF_EXPRS = ['infty', '-infty', '1e308', 'x', '-x', 'infty+1', '2*infty', '-(-infty)']
INF_VALUE = {'infty': 'inf', '-infty': '-inf', '1e308': 'fin', 'x': 'fin', '-x': 'fin', 'infty+1': 'inf', '2*infty': 'inf',
             '-(-infty)': 'inf'}


class Infinity(Family):
    name = 'infinity'
    kind = 'CHOICE'
    rule = ('allow_inf=True: every (answer, student) pair from %s x tolerances {0.1, "100%%", "10%%", 0}: equal infinities '
            'match, an infinity never matches anything else' % INF_EXPRS)

    def cases(self, tier):
        for a in range(len(INF_EXPRS)):
            for s in range(len(INF_EXPRS)):
                for tol in (0.1, '100%', '10%', 0):
                    yield (a, s, tol)

    def check(self, case):
        a, s, tol = case
        ans, stu = INF_EXPRS[a], INF_EXPRS[s]
        va, vs = INF_VALUE[ans], INF_VALUE[stu]
        if va == 'fin' and vs == 'fin':
            return Result('finite-pair', False, None, 0)
        expect_match = (va == vs)
        grader = FormulaGrader(answers=ans, variables=['x'], sample_from={'x': DiscreteSet((3, 7))}, samples=2,
                               allow_inf=True, tolerance=tol)

        def body(ch):
            try:
                return ('ok', grader(None, stu))
            except Exception as e:
                return ('err', type(e).__name__, str(e))
        n = 0
        for ch, out in chooser.explore(body, bound=None):
            n += 1
            if out[0] != 'ok':
                return Result('raised', True, viol('infinity:raised', 'answer %r student %r raised %r' % (ans, stu, out[1:])), n)
            got = out[1]['grade_decimal'] == 1
            if got != expect_match:
                return Result('wrong', True,
                              viol('infinity:%s' % ('mismatch-credited' if got else 'same-infinity-refused'),
                                   'allow_inf grader, tolerance %r: answer %r student %r -> %r' % (tol, ans, stu, out[1]),
                                   expect_match, out[1]), n)
        return Result('match' if expect_match else 'nomatch', True, None, n)


def families(tier):
    return [SampleCounting(), Rewrites(), Numerical(), Infinity(), ZeroExpected()]
