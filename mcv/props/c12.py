"""
C12 -- every random draw satisfies all constraints its sampling set declares.

Engine CHOICE: the library's random number source (numpy.random.random_sample / rand / randint,
random.choice) is owned by mcv.chooser; every draw is a choice point with a finite menu.  One *case* is one
sampler configuration; `check(case)` builds the real sampler and executes `gen_sample()` once for every
schedule of environment answers in the stated set (full product of the menus, or all schedules with at most
`bound` non-default answers where a rejection loop makes the product infinite), and judges every sample with
the reference model in mcv/refs/c12_ref.py.
"""
import os
import math
import itertools

import numpy as np

from ..core import Family, Result, viol
from ..chooser import run_with, explore, ONE_MINUS, SCALAR_MENU
from ..refs import c12_ref as R

PROPERTY = 'C12'
RULE = ('one case = one sampler configuration from the option grids of the families below (cartesian products, '
        'fixed order); inside a case the RNG is an enumerated environment: integers / discrete members are '
        'enumerated completely, scalar uniforms come from the menu {golden-ratio value, 0, 1-2^-53, 1/4, 3/4} '
        '(scalar samplers, vectors, identity multiples additionally 1/2, 2^-53, 1/3), array draws from 4 generic fills (two counter-based streams, "extremes", '
        '"small") and, for RandomFunction only, 5 constant fills that put all sinusoids at their maximum '
        'simultaneously.  A case is non-trivial when the explored answers exercise a boundary of the declared '
        'set (interval ends reached, supremum schedule executed, a symmetry/trace/determinant/triangular/'
        'non-default-norm constraint present, constructor refusal expected)')
EXPLANATION = ('states = sampler configurations; transitions = executions of the real gen_sample() (and, for '
               'random functions, evaluations of the drawn function on a 3^input_dim grid) under one schedule '
               'of environment answers; every execution runs the implementation itself')
ASSUMPTIONS = [
    'numpy is trusted for elementwise arithmetic on plain ndarrays; determinants are additionally recomputed by '
    'a pure-Python Gaussian elimination',
    'guard bands: 1e-9 relative on interval/norm/modulus bounds, 1e-9*max(1,(|M|_F/sqrt n)^n) on determinants, '
    '1e-9*max(1,|M|_F) on traces, 1e-12*max|M| on symmetry, 1e-9 relative on the random-function bound',
    'almost-sure contracts (norm, determinant) are explored with generic array fills only; measure-zero '
    'degenerate fills (all entries equal) are not legal environment answers for them.  The generic "small" fill '
    '(all uniforms within 1e-3 of 1/2) is a legal, if improbable, answer; failures that need it carry their own '
    'signature (square:det0:tiny-raw-matrix)',
    'OrthogonalMatrices / UnitaryMatrices need scipy, which is absent: not sampled',
    'array fills are PRNG-derived but deterministic menu items keyed by VERIF_SEED, the round number and the '
    'choice index; the set of cases does not depend on VERIF_SEED',
    'random functions are evaluated at real arguments only (grid {-2.5, 0, 1}^input_dim)',
]

EXT_MENU = ('golden', 0.0, ONE_MINUS, 0.25, 0.75, 0.5, 2.0 ** -53, 1.0 / 3)

INTERVALS = [[1, 5], [5, 1], [-3, -1], [2, 2], [0, 0], [-1e-9, 1e9]]
INT_INTERVALS = [[1, 5], [5, 1], [-3, -1], [2, 2], [0, 0], [-2, 4], [0, 1], [3, -3]]
HALF_PI = math.pi / 2
ARG_INTERVALS = INTERVALS + [[0, HALF_PI], [-math.pi, math.pi], [HALF_PI, -HALF_PI]]
NORMS = [[1, 5], [10, 20], [3, 3], [5, 1]]


def _seed_from_env():
    return int(os.environ.get('VERIF_SEED', '0') or 0)


class SeededFamily(Family):
    """remembers VERIF_SEED (it only selects the default RNG answers, never the set of cases)"""
    kind = 'CHOICE'
    timeout = 300.0
    timeout_sig = 'exploration-of-one-configuration-timed-out'   # all schedules of one case share the watchdog

    def run_slice(self, tier, seed, w, W):
        self.seed = seed
        return super(SeededFamily, self).run_slice(tier, seed, w, W)

    def setup(self, tier):
        if not hasattr(self, 'seed'):
            self.seed = _seed_from_env()
        import mitxgraders
        from mitxgraders.helpers.calc import MathArray
        from mitxgraders.exceptions import MITxError, ConfigError
        self.mg = mitxgraders
        self.MathArray = MathArray
        self.MITxError = MITxError
        self.ConfigError = ConfigError
        self.setup_more(tier)

    def setup_more(self, tier):
        pass

    def chooser_seed(self, rnd=0):
        return self.seed * 1009 + rnd


def explore_all(body, seed, allowed=None, **kw):
    """
    Full product of the menus (restricted by `allowed(position, kind, n) -> indices`), depth first.  If the
    body sets `chooser.mark`, only the choice points before the mark are branched on.
    """
    stack = [[]]
    while stack:
        prefix = stack.pop()
        ch, out = run_with(body, prefix, seed=seed, **kw)
        yield ch, out
        nxt = []
        limit = getattr(ch, 'mark', None)
        for i in range(len(prefix), len(ch.points)):
            if limit is not None and i >= limit:
                break
            kind, n = ch.points[i]
            alts = range(1, n) if allowed is None else [a for a in allowed(i, kind, n) if 0 < a < n]
            for alt in alts:
                nxt.append(ch.choices[:i] + [alt])
        stack.extend(reversed(nxt))


def guarded(fn):
    """body wrapper: ('ok', value) or ('raised', class name, message)"""
    def body(ch):
        try:
            return ('ok', fn(ch))
        except Exception as e:      # noqa: judged by the caller
            return ('raised', type(e).__name__, str(e)[:300])
    return body


def sched(ch):
    return {'choices': list(ch.choices), 'points': [p[0] for p in ch.points]}


# =========================================================================== scalar sampling sets

def make_interval(cls, pair, form):
    if form == 'list':
        return cls(list(pair))
    if form == 'kwargs':
        return cls(start=pair[0], stop=pair[1])
    return cls({'start': pair[0], 'stop': pair[1]})


class RealIntervalFam(SeededFamily):
    name = 'real_interval'
    rule = ('RealInterval over %r x 3 constructor forms (list, keywords, dict); all 8 answers of the scalar '
            'menu; sample must be a real scalar inside the closed interval (either order of the bounds); '
            'non-trivial = both ends of the interval were reached (within 1e-12 relative) or the set is a point'
            % (INTERVALS,))

    def cases(self, tier):
        for i in range(len(INTERVALS)):
            for form in ('list', 'kwargs', 'dict'):
                yield (i, form)

    def describe(self, case):
        return {'sampler': 'RealInterval', 'interval': INTERVALS[case[0]], 'form': case[1]}

    def check(self, case):
        i, form = case
        pair = INTERVALS[i]
        try:
            s = make_interval(self.mg.RealInterval, pair, form)
        except Exception as e:
            return Result('constructor-raised', True,
                          viol('real_interval:constructor-raises', repr(e), 'a sampler', repr(e)), 0)
        n = 0
        vals = []
        for ch, out in explore_all(guarded(lambda ch: s.gen_sample()), self.chooser_seed(),
                                   scalar_menu=EXT_MENU):
            n += 1
            if out[0] != 'ok':
                return Result('raised', True, viol('real_interval:gen_sample-raises', '%s: %s' % out[1:3],
                                                   'a sample', {'sched': sched(ch)}), n)
            why = R.interval_problem(out[1], pair, 'sample')
            if why:
                return Result('outside', True, viol('real_interval:outside', why, 'in %r' % (R.ordered(pair),),
                                                    {'sample': repr(out[1]), 'sched': sched(ch)}), n)
            vals.append(float(out[1]))
        lo, hi = R.ordered(pair)
        span = max(abs(lo), abs(hi), 1.0)
        ends = (min(vals) - lo <= 1e-12 * span, hi - max(vals) <= 1e-12 * span)
        outcome = 'point' if lo == hi else 'span lo-reached=%s hi-reached=%s' % ends
        return Result(outcome, all(ends), None, n)


class IntegerRangeFam(SeededFamily):
    name = 'integer_range'
    rule = ('IntegerRange over %r x 3 constructor forms; every answer of randint is enumerated; each sample '
            'must be an integer within the range and the set of all samples must be exactly {lo..hi} (both '
            'endpoints attainable); non-trivial = range with more than one member' % (INT_INTERVALS,))

    def cases(self, tier):
        for i in range(len(INT_INTERVALS)):
            for form in ('list', 'kwargs', 'dict'):
                yield (i, form)

    def describe(self, case):
        return {'sampler': 'IntegerRange', 'interval': INT_INTERVALS[case[0]], 'form': case[1]}

    def check(self, case):
        i, form = case
        pair = INT_INTERVALS[i]
        lo, hi = R.ordered(pair)
        try:
            s = make_interval(self.mg.IntegerRange, pair, form)
        except Exception as e:
            return Result('constructor-raised', True,
                          viol('integer_range:constructor-raises', repr(e), 'a sampler', repr(e)), 0)
        n = 0
        seen = set()
        for ch, out in explore_all(guarded(lambda ch: s.gen_sample()), self.chooser_seed()):
            n += 1
            if out[0] != 'ok':
                return Result('raised', True, viol('integer_range:gen_sample-raises', '%s: %s' % out[1:3],
                                                   'a sample', {'sched': sched(ch)}), n)
            why = R.integer_problem(out[1], pair)
            if why:
                return Result('outside', True, viol('integer_range:outside', why, 'integer in [%d, %d]' % (lo, hi),
                                                    {'sample': repr(out[1]), 'sched': sched(ch)}), n)
            seen.add(int(out[1]))
        want = set(range(lo, hi + 1))
        if seen != want:
            missing = sorted(want - seen)
            return Result('unattainable', True,
                          viol('integer_range:member-unattainable',
                               'over all answers of the integer RNG the members %r are never produced' % missing,
                               sorted(want), sorted(seen)), n)
        return Result('all %d members' % len(want), lo < hi, None, n)


def pair_cases(first, second):
    for i in range(len(first)):
        for j in range(len(second)):
            yield (i, j)


class ComplexRectangleFam(SeededFamily):
    name = 'complex_rectangle'
    rule = ('ComplexRectangle(re=I, im=J) for all ordered pairs I, J of %r; full 8x8 product of the scalar menu; '
            'sample must be a complex scalar with real part in I and imaginary part in J; non-trivial = not both '
            'intervals are points' % (INTERVALS,))

    def cases(self, tier):
        return pair_cases(INTERVALS, INTERVALS)

    def describe(self, case):
        return {'sampler': 'ComplexRectangle', 're': INTERVALS[case[0]], 'im': INTERVALS[case[1]]}

    def check(self, case):
        re, im = INTERVALS[case[0]], INTERVALS[case[1]]
        try:
            s = self.mg.ComplexRectangle(re=list(re), im=list(im))
        except Exception as e:
            return Result('constructor-raised', True,
                          viol('complex_rectangle:constructor-raises', repr(e), 'a sampler', repr(e)), 0)
        n = 0
        for ch, out in explore_all(guarded(lambda ch: s.gen_sample()), self.chooser_seed(),
                                   scalar_menu=EXT_MENU):
            n += 1
            if out[0] != 'ok':
                return Result('raised', True, viol('complex_rectangle:gen_sample-raises', '%s: %s' % out[1:3],
                                                   'a sample', {'sched': sched(ch)}), n)
            why = R.rectangle_problem(out[1], re, im)
            if why:
                return Result('outside', True, viol('complex_rectangle:outside', why, 're in %r, im in %r' % (re, im),
                                                    {'sample': repr(out[1]), 'sched': sched(ch)}), n)
        pt = (re[0] == re[1]) + (im[0] == im[1])
        return Result(('rectangle', 'segment', 'point')[pt], pt < 2, None, n)


class ComplexSectorFam(SeededFamily):
    name = 'complex_sector'
    rule = ('ComplexSector(modulus=I, argument=J) for all pairs of I in %r and J in those plus [0,pi/2], '
            '[-pi,pi], [pi/2,-pi/2]; full 8x8 product of the scalar menu; sample z must equal m*exp(i*t) for '
            'some m in I and t in J (phase compared modulo 2 pi, tolerance 1e-9); non-trivial = the argument '
            'interval is narrower than 2 pi and the modulus interval is not {0}' % (INTERVALS,))

    def cases(self, tier):
        return pair_cases(INTERVALS, ARG_INTERVALS)

    def describe(self, case):
        return {'sampler': 'ComplexSector', 'modulus': INTERVALS[case[0]], 'argument': ARG_INTERVALS[case[1]]}

    def check(self, case):
        mod, arg = INTERVALS[case[0]], ARG_INTERVALS[case[1]]
        try:
            s = self.mg.ComplexSector(modulus=list(mod), argument=list(arg))
        except Exception as e:
            return Result('constructor-raised', True,
                          viol('complex_sector:constructor-raises', repr(e), 'a sampler', repr(e)), 0)
        n = 0
        for ch, out in explore_all(guarded(lambda ch: s.gen_sample()), self.chooser_seed(),
                                   scalar_menu=EXT_MENU):
            n += 1
            if out[0] != 'ok':
                return Result('raised', True, viol('complex_sector:gen_sample-raises', '%s: %s' % out[1:3],
                                                   'a sample', {'sched': sched(ch)}), n)
            why = R.sector_problem(out[1], mod, arg)
            if why:
                return Result('outside', True, viol('complex_sector:outside', why,
                                                    'modulus in %r, argument in %r' % (mod, arg),
                                                    {'sample': repr(out[1]), 'sched': sched(ch)}), n)
        wide = abs(arg[1] - arg[0]) >= 2 * math.pi - 1e-9
        zero = mod[0] == 0 and mod[1] == 0
        outcome = 'origin' if zero else ('annulus' if wide else ('arc' if mod[0] == mod[1] else
                                                                  ('ray' if arg[0] == arg[1] else 'sector')))
        return Result(outcome, not wide and not zero, None, n)


# =========================================================================== discrete sets / function lists

def _f_square(x):
    return x * x


def _f_cube(x):
    return x * x * x


def _f_two(x, y):
    return x + y


class _Callable(object):
    def __call__(self, x):
        return -x


class DiscreteSetFam(SeededFamily):
    name = 'discrete_set'
    rule = ('DiscreteSet over 10 member lists (single number, tuples of ints/floats/complex, duplicates, single '
            'MathArray, tuples of MathArrays, mixed numbers and arrays) and SpecificFunctions over 6 function lists; '
            'every answer of random.choice is enumerated; each sample must be one of the listed members (same '
            'object, or equal value) and the listed arrays must be unchanged afterwards; '
            'non-trivial = more than one distinct member')

    def setup_more(self, tier):
        MA = self.MathArray
        ident = MA([[1, 0], [0, 1]])
        arr = MA([[1, 2], [3, 4]])
        vec = MA([1, 2, 3])
        self.table = [
            ('DiscreteSet', 'single float', 3.142),
            ('DiscreteSet', 'odd ints', (1, 3, 5, 7, 9)),
            ('DiscreteSet', 'mixed numbers', (1, 1.5, 2 + 1j, -4)),
            ('DiscreteSet', 'duplicates', (2, 2, 3)),
            ('DiscreteSet', 'one-tuple', (0,)),
            ('DiscreteSet', 'single array', ident),
            ('DiscreteSet', 'two arrays', (ident, arr)),
            ('DiscreteSet', 'number and array', (1, ident)),
            ('DiscreteSet', 'vectors and number', (vec, MA([0, 0, 1]), 7.5)),
            ('DiscreteSet', 'numpy scalars', (np.float64(2.5), np.int64(3), np.complex128(1j))),
            ('SpecificFunctions', 'single lambda', lambda x: x * x),
            ('SpecificFunctions', 'cos sin', [np.cos, np.sin]),
            ('SpecificFunctions', 'sin cos tan', [np.sin, np.cos, np.tan]),
            ('SpecificFunctions', 'python defs', [_f_square, _f_cube, _f_two, abs]),
            ('SpecificFunctions', 'callable object', [_Callable(), _f_square]),
            ('SpecificFunctions', 'one-element list', [math.sin]),
        ]

    def cases(self, tier):
        return iter(range(16))

    def describe(self, case):
        if not hasattr(self, 'table'):
            return case
        cls, label, members = self.table[case]
        return {'sampler': cls, 'members': label, 'repr': repr(members)[:200]}

    def same(self, a, b):
        """the same object, or the same mathematical value (number == number, array == array entrywise)"""
        if a is b:
            return True
        if callable(a) or callable(b):
            return False
        arr_a, arr_b = isinstance(a, np.ndarray), isinstance(b, np.ndarray)
        if arr_a != arr_b:
            return False
        if arr_a:
            return (isinstance(a, self.MathArray) and a.shape == b.shape
                    and bool(np.all(np.asarray(a) == np.asarray(b))))
        return R.is_complex_scalar(a) and a == b

    def check(self, case):
        cls, label, members = self.table[case]
        mlist = list(members) if isinstance(members, (tuple, list)) else [members]
        snap = [np.array(m, copy=True) if isinstance(m, np.ndarray) else m for m in mlist]
        sig = 'discrete_set' if cls == 'DiscreteSet' else 'specific_functions'
        try:
            s = getattr(self.mg, cls)(members)
        except Exception as e:
            return Result('constructor-raised', True, viol(sig + ':constructor-raises', repr(e), 'a sampler', repr(e)), 0)
        n = 0
        hit = set()
        for ch, out in explore_all(guarded(lambda ch: s.gen_sample()), self.chooser_seed()):
            n += 1
            if out[0] != 'ok':
                return Result('raised', True, viol(sig + ':gen_sample-raises', '%s: %s' % out[1:3], 'a sample',
                                                   {'sched': sched(ch)}), n)
            idx = [k for k, m in enumerate(mlist) if self.same(out[1], m)]
            if not idx:
                return Result('not-member', True,
                              viol(sig + ':not-a-listed-member', 'sample %r is not one of the listed members' % (out[1],),
                                   label, {'sample': repr(out[1]), 'sched': sched(ch)}), n)
            hit.update(idx)
        for m, s0 in zip(mlist, snap):
            if isinstance(m, np.ndarray) and not (m.shape == s0.shape and np.all(np.asarray(m) == s0)):
                return Result('member-modified', True,
                              viol(sig + ':listed-array-modified', 'a listed array changed while sampling', repr(s0), repr(m)), n)
        distinct = sum(1 for k, m in enumerate(mlist) if not any(self.same(m, o) for o in mlist[:k]))
        return Result('%s %d/%d members drawn' % (cls, len(hit), len(mlist)), distinct > 1, None, n)


# =========================================================================== random functions

GRID_VALUES = (-2.5, 0.0, 1.0)
# positions in chooser.ARRAY_MENU + const fills: 0 streamA, 1 streamB, 2 extremes, 3 small, 4..8 const 0,.25,.5,.75,1-
CONST_IDX = (4, 5, 6, 7, 8)


def rf_configs(cplx):
    centers = (0, 1.5, -2 + 1j) if cplx else (0, 1.5)
    for input_dim in (1, 2, 3, 4):
        for output_dim in (1, 2, 3):
            for num_terms in (1, 3):
                for ci in range(len(centers)):
                    for amplitude in (0.5, 10):
                        yield (input_dim, output_dim, num_terms, ci, amplitude, cplx)


RF_CENTERS = (0, 1.5, -2 + 1j)


class RandomFunctionFam(SeededFamily):
    """
    quick:    amplitude draw {stream A, const 1-2^-53, const 0}, frequency draw {stream A, const 1/2, const 0},
              phase draw {stream A, const 1/4, const 3/4}; complex-phase draw {stream A, const 1/4}
    thorough: real functions: all 9 fills (4 generic + 5 constant) for each of the three draws;
              complex functions: {stream A, stream B, const 0, 1/4, 1/2, 1-2^-53} for the three draws and
              {stream A, const 1/4} for the complex-phase draw
    """
    def __init__(self, cplx, tier):
        self.cplx = cplx
        self.tier = tier
        self.name = 'random_function_complex' if cplx else 'random_function_real'
        self.rule = ('RandomFunction over input_dim 1-4 x output_dim 1-3 x num_terms {1,3} x center %s x amplitude '
                     '{0.5,10}, complex=%s; full product of the array-fill menus of the first draw (%s); the drawn '
                     'function is evaluated on the grid {-2.5,0,1}^input_dim, a second function is drawn, and the '
                     'first is re-evaluated; checked: callable, nin tag, library error for input_dim-1 and '
                     'input_dim+1 arguments, scalar vs MathArray(output_dim), real vs complex values, '
                     '|f(x)-center| <= amplitude, identical values on re-evaluation.  The constant fills '
                     '(amplitude draw 1-2^-53, frequency draw 1/2, phase draw 1/4) put every sinusoid at its maximum, '
                     'realising the supremum.  non-trivial = some explored schedule reached |f-center| > amplitude/2'
                     % ('{0,1.5,-2+1j}' if cplx else '{0,1.5}', cplx,
                        'stream A + 2 extremal constant fills per draw' if tier == 'quick' else
                        ('streams A, B + constants 0, 1/4, 1/2, 1-2^-53 per draw' if cplx else 'all 9 fills per draw')))

    def cases(self, tier):
        return rf_configs(self.cplx)

    def describe(self, case):
        input_dim, output_dim, num_terms, ci, amplitude, cplx = case
        return {'sampler': 'RandomFunction', 'input_dim': input_dim, 'output_dim': output_dim,
                'num_terms': num_terms, 'center': repr(RF_CENTERS[ci]), 'amplitude': amplitude, 'complex': bool(cplx)}

    def allowed(self, i, kind, n):
        """
        menu restriction per array draw of the first gen_sample (positions: amplitudes, [complex phases],
        frequencies, phases); see the class docstring.
        """
        role = i if not self.cplx else (i if i == 0 else i - 1 if i > 1 else 'cphase')
        if role == 'cphase':
            return (5,)
        if self.tier != 'quick':
            return (1, 4, 5, 6, 8) if self.cplx else range(1, n)
        return {0: (8, 4), 1: (6, 4), 2: (5, 7)}.get(role, CONST_IDX)

    def check(self, case):
        input_dim, output_dim, num_terms, ci, amplitude, cplx = case
        cplx = bool(cplx)
        center = RF_CENTERS[ci]
        cfg = dict(input_dim=input_dim, output_dim=output_dim, num_terms=num_terms, center=center,
                   amplitude=amplitude, complex=cplx)
        try:
            s = self.mg.RandomFunction(**cfg)
        except Exception as e:
            return Result('constructor-raised', True,
                          viol('random_function:constructor-raises', repr(e), 'a sampler', repr(e)), 0)
        grid = list(itertools.product(GRID_VALUES, repeat=input_dim))
        recheck = [grid[0], grid[len(grid) // 2], grid[-1]]
        MITxError = self.MITxError

        def body(ch):
            f = s.gen_sample()
            ch.mark = len(ch.points)
            v1 = [f(*x) for x in grid]
            g = s.gen_sample()
            g(*grid[-1])
            v2 = [f(*x) for x in recheck]
            arity = []
            for k in (input_dim - 1, input_dim + 1):
                try:
                    f(*([0.5] * k))
                    arity.append((k, None))
                except MITxError as e:
                    arity.append((k, 'library'))
                except Exception as e:      # noqa
                    arity.append((k, type(e).__name__))
            return f, v1, v2, arity

        n = 0
        worst = 0.0
        first = None
        for ch, out in explore_all(guarded(body), self.chooser_seed(), allowed=self.allowed, const_fills=True):
            n += 1 + len(grid)
            obs = {'config': self.describe(case), 'sched': sched(ch), 'seed': self.seed}
            if out[0] != 'ok':
                return Result('raised', True, viol('random_function:raises', '%s: %s' % out[1:3],
                                                   'a function with values', obs), n)
            f, v1, v2, arity = out[1]
            if not callable(f):
                return Result('not-callable', True, viol('random_function:not-callable', repr(f), 'callable', obs), n)
            if getattr(f, 'nin', None) != input_dim:
                return Result('nin', True, viol('random_function:nin-tag', 'function is tagged nin=%r for input_dim=%d'
                                                % (getattr(f, 'nin', None), input_dim), input_dim, obs), n)
            for k, how in arity:
                if how != 'library':
                    obs['arguments'] = k
                    return Result('arity', True,
                                  viol('random_function:wrong-arity-not-refused',
                                       'call with %d arguments for input_dim=%d %s' %
                                       (k, input_dim, 'returned a value' if how is None else 'raised %s' % how),
                                       'a library (MITxError) error', obs), n)
            # shape / type of every value
            for x, v in zip(grid, v1):
                bad = None
                if output_dim == 1:
                    if isinstance(v, np.ndarray) or np.ndim(v) != 0 or not isinstance(v, (float, complex, np.number)):
                        bad = 'output_dim=1 but value is %s %r' % (type(v).__name__, v)
                else:
                    if not isinstance(v, self.MathArray) or np.shape(v) != (output_dim,):
                        bad = 'output_dim=%d but value is %s of shape %r' % (output_dim, type(v).__name__, np.shape(v))
                if bad:
                    obs['x'] = list(x)
                    return Result('output-shape', True, viol('random_function:output-dimension', bad,
                                                             'scalar' if output_dim == 1 else 'MathArray(%d)' % output_dim, obs), n)
            arr = np.array([np.asarray(v) for v in v1])
            if not np.all(np.isfinite(arr)):
                return Result('not-finite', True, viol('random_function:not-finite', 'nan/inf value', 'finite', obs), n)
            if not cplx and (np.iscomplexobj(arr) and np.any(arr.imag != 0)):
                return Result('not-real', True, viol('random_function:not-real', 'real random function gave a complex value',
                                                     'real', obs), n)
            if cplx and not np.iscomplexobj(arr):
                return Result('not-complex', True, viol('random_function:not-complex',
                                                        'complex random function gave real-typed values', 'complex', obs), n)
            dev = np.abs(arr - center)
            m = float(dev.max())
            worst = max(worst, m / amplitude)
            if first is None:
                first = m / amplitude
            if m > amplitude * (1 + 1e-9):
                gi = int(np.argmax(dev.reshape(len(grid), -1).max(axis=1)))
                obs.update({'x': list(grid[gi]), 'value': repr(v1[gi]), 'max |f-center|': m})
                if input_dim >= 2 and m <= amplitude * input_dim * (1 + 1e-9):
                    sig = 'random_function:exceeds-amplitude:input_dim>=2'
                    msg = ('|f(x)-center| = %.6g > amplitude %g for input_dim=%d (within amplitude*input_dim: the sum '
                           'runs over num_terms*input_dim sinusoids but is scaled by amplitude/num_terms)'
                           % (m, amplitude, input_dim))
                else:
                    sig = 'random_function:exceeds-amplitude'
                    msg = '|f(x)-center| = %.6g > amplitude %g (input_dim=%d)' % (m, amplitude, input_dim)
                return Result('exceeds', True, viol(sig, msg, '<= %g' % amplitude, obs), n)
            # fixed once drawn
            k_of = {tuple(x): i for i, x in enumerate(grid)}
            for x, v in zip(recheck, v2):
                a, b = np.asarray(v1[k_of[tuple(x)]]), np.asarray(v)
                if a.shape != b.shape or not np.all(a == b):
                    obs.update({'x': list(x), 'first': repr(a.tolist()), 'again': repr(b.tolist())})
                    return Result('not-fixed', True,
                                  viol('random_function:not-fixed-once-drawn',
                                       'the drawn function changed its value at x after another function was drawn',
                                       repr(a.tolist()), obs), n)
        bucket = 'max|f-c|/amplitude: default schedule %.1f, over all schedules %.2f' % (
            math.floor((first or 0) * 10) / 10.0, math.floor(worst * 100) / 100.0)
        return Result(bucket, worst > 0.5, None, n)


# =========================================================================== array sampling sets

def judge_general(fam, sample, shape, want_complex, norm, triangular=None):
    bad = R.basic_array_problem(sample, fam.MathArray, shape, want_complex)
    if bad:
        return bad
    a = R.plain(sample)
    return R.norm_problem(a, norm) or (R.triangular_problem(a, triangular) if triangular else None)


class ArrayFam(SeededFamily):
    """shared driver: explore every schedule of one configuration, judge every sample"""
    sigbase = 'array'
    bound = None            # None = full product
    scalar_menu = EXT_MENU

    def rounds(self, tier):
        return 2 if tier == 'quick' else 8

    def build(self, case):
        raise NotImplementedError

    def judge(self, case, sample):
        raise NotImplementedError

    def nontrivial(self, case):
        return True

    def refine(self, case, bad, ch):
        """hook: make the signature of a failure more specific from the schedule that produced it"""
        return bad

    def outcome(self, case, stats):
        return 'ok'

    def check(self, case):
        rnd = case[-1]
        try:
            s = self.build(case)
        except Exception as e:
            return Result('constructor-raised', True,
                          viol(self.sigbase + ':constructor-raises', '%s: %s' % (type(e).__name__, e),
                               'a sampler', self.describe(case)), 0)
        n = 0
        stats = {'maxpoints': 0, 'minpoints': 10 ** 9}
        body = guarded(lambda ch: s.gen_sample())
        if self.bound is None:
            it = explore_all(body, self.chooser_seed(rnd), scalar_menu=self.scalar_menu)
        else:
            it = explore(body, bound=self.bound, seed=self.chooser_seed(rnd))
        for ch, out in it:
            n += 1
            stats['maxpoints'] = max(stats['maxpoints'], len(ch.points))
            stats['minpoints'] = min(stats['minpoints'], len(ch.points))
            obs = {'config': self.describe(case), 'sched': sched(ch), 'seed': self.seed}
            if out[0] != 'ok':
                tag = 'unable-to-construct' if 'Unable to construct' in out[2] else 'gen_sample-raises'
                return Result('raised', True, viol('%s:%s' % (self.sigbase, tag), '%s: %s' % out[1:3], 'a sample', obs), n)
            bad = self.judge(case, out[1])
            if bad:
                bad = self.refine(case, bad, ch)
                obs['sample'] = repr(np.asarray(out[1]).tolist())[:600]
                return Result(bad[0], True, viol('%s:%s' % (self.sigbase, bad[0]), bad[1], 'member of the declared set', obs), n)
        return Result(self.outcome(case, stats), self.nontrivial(case), None, n)


def shape_form(shape, form):
    if form == 'int':
        return shape[0]
    if form == 'list':
        return list(shape)
    return tuple(shape)


class VectorsFam(ArrayFam):
    name = 'vectors'
    sigbase = 'vectors'
    rule = ('RealVectors / ComplexVectors, 1-4 components given as int, tuple or list, norm in %r, R rounds of '
            'array fills; full product of 4 fills per array draw x 8 scalar answers for the norm; sample must be a '
            'MathArray of the declared shape, real resp. genuinely complex, Frobenius norm inside the interval; '
            'non-trivial = norm interval other than the default [1,5] or complex' % (NORMS,))

    def cases(self, tier):
        for rnd in range(self.rounds(tier)):
            for cplx in (0, 1):
                for k in (1, 2, 3, 4):
                    for form in ('int', 'tuple', 'list'):
                        for ni in range(len(NORMS)):
                            yield (cplx, k, form, ni, rnd)

    def describe(self, case):
        cplx, k, form, ni, rnd = case
        return {'sampler': 'ComplexVectors' if cplx else 'RealVectors', 'shape': shape_form((k,), form),
                'norm': NORMS[ni], 'round': rnd}

    def build(self, case):
        cplx, k, form, ni, rnd = case
        cls = self.mg.ComplexVectors if cplx else self.mg.RealVectors
        return cls(shape=shape_form((k,), form), norm=list(NORMS[ni]))

    def judge(self, case, sample):
        cplx, k, form, ni, rnd = case
        return judge_general(self, sample, (k,), bool(cplx), NORMS[ni])

    def nontrivial(self, case):
        return case[3] != 0 or bool(case[0])

    def outcome(self, case, stats):
        return '%s norm%r' % ('complex' if case[0] else 'real', tuple(NORMS[case[3]]))


TRI = (None, 'upper', 'lower')


class MatricesFam(ArrayFam):
    name = 'matrices'
    sigbase = 'matrices'
    scalar_menu = SCALAR_MENU
    rule = ('RealMatrices / ComplexMatrices of every shape m x n, m,n in 1..3, triangular in {None, upper, lower}, '
            'norm in %r; full product of fills x 5 norm answers; MathArray, shape, realness, norm, and exact zeros '
            'below (upper) / above (lower) the diagonal; non-trivial = triangular requested or non-default norm'
            % (NORMS[:3],))

    def cases(self, tier):
        for rnd in range(self.rounds(tier)):
            for cplx in (0, 1):
                for m in (1, 2, 3):
                    for n in (1, 2, 3):
                        for ti in range(3):
                            for ni in range(3):
                                yield (cplx, m, n, ti, ni, rnd)

    def describe(self, case):
        cplx, m, n, ti, ni, rnd = case
        return {'sampler': 'ComplexMatrices' if cplx else 'RealMatrices', 'shape': [m, n], 'triangular': TRI[ti],
                'norm': NORMS[ni], 'round': rnd}

    def build(self, case):
        cplx, m, n, ti, ni, rnd = case
        cls = self.mg.ComplexMatrices if cplx else self.mg.RealMatrices
        return cls(shape=[m, n] if rnd % 2 == 0 else (m, n), norm=list(NORMS[ni]), triangular=TRI[ti])

    def judge(self, case, sample):
        cplx, m, n, ti, ni, rnd = case
        return judge_general(self, sample, (m, n), bool(cplx), NORMS[ni], TRI[ti])

    def nontrivial(self, case):
        return case[3] != 0 or case[4] != 0

    def outcome(self, case, stats):
        return '%s %s' % ('complex' if case[0] else 'real', TRI[case[3]])


TENSOR_SHAPES = [(2, 2, 2), (1, 2, 3), (3, 1, 2), (2, 3, 4), (1, 1, 1), (2, 2, 2, 2), (1, 1, 1, 1), (2, 1, 3, 2),
                 (3, 2, 2, 3)]


class TensorsFam(ArrayFam):
    name = 'tensors'
    sigbase = 'tensors'
    scalar_menu = SCALAR_MENU
    rule = ('RealTensors / ComplexTensors over the shapes %r (3 and 4 axes), norm in %r; full product of fills x '
            '5 norm answers; MathArray, shape, realness, norm; non-trivial = non-default norm or 4 axes'
            % (TENSOR_SHAPES, NORMS[:3]))

    def cases(self, tier):
        for rnd in range(self.rounds(tier)):
            for cplx in (0, 1):
                for si in range(len(TENSOR_SHAPES)):
                    for ni in range(3):
                        yield (cplx, si, ni, rnd)

    def describe(self, case):
        cplx, si, ni, rnd = case
        return {'sampler': 'ComplexTensors' if cplx else 'RealTensors', 'shape': list(TENSOR_SHAPES[si]),
                'norm': NORMS[ni], 'round': rnd}

    def build(self, case):
        cplx, si, ni, rnd = case
        cls = self.mg.ComplexTensors if cplx else self.mg.RealTensors
        shape = TENSOR_SHAPES[si]
        return cls(shape=list(shape) if rnd % 2 == 0 else tuple(shape), norm=list(NORMS[ni]))

    def judge(self, case, sample):
        cplx, si, ni, rnd = case
        return judge_general(self, sample, TENSOR_SHAPES[si], bool(cplx), NORMS[ni])

    def nontrivial(self, case):
        return case[2] != 0 or len(TENSOR_SHAPES[case[1]]) == 4

    def outcome(self, case, stats):
        return '%s %d axes' % ('complex' if case[0] else 'real', len(TENSOR_SHAPES[case[1]]))


def identity_scalar_table():
    """(label, recipe, descriptor of the scalar set)"""
    t = [('default', ('default',), ('real', [1, 5])),
         ('list [1,3]', ('list', [1, 3]), ('real', [1, 3])),
         ('list [3,1]', ('list', [3, 1]), ('real', [3, 1]))]
    for p in INTERVALS:
        t.append(('RealInterval%r' % (p,), ('RealInterval', p), ('real', p)))
    for p in INT_INTERVALS[:6]:
        t.append(('IntegerRange%r' % (p,), ('IntegerRange', p), ('int', p)))
    for re, im in (([1, 5], [5, 1]), ([-3, -1], [2, 2]), ([0, 0], [0, 0]), ([2, 2], [-1e-9, 1e9])):
        t.append(('ComplexRectangle re=%r im=%r' % (re, im), ('ComplexRectangle', re, im), ('rect', re, im)))
    for mod, arg in (([1, 5], [0, HALF_PI]), ([0, 1], [-math.pi, math.pi]), ([2, 2], [-3, -1]), ([5, 1], [2, 2])):
        t.append(('ComplexSector modulus=%r argument=%r' % (mod, arg), ('ComplexSector', mod, arg), ('sector', mod, arg)))
    return t


class IdentityFam(ArrayFam):
    name = 'identity_multiples'
    sigbase = 'identity_multiples'
    rule = ('IdentityMatrixMultiples, dimension 2-4 (2-5 thorough) x every scalar sampler (default, list form, '
            'RealInterval x 6, IntegerRange x 6, ComplexRectangle x 4, ComplexSector x 4); all answers of the scalar / '
            'integer RNG; sample must be a MathArray of shape (d,d) with exactly zero off-diagonal, all diagonal '
            'entries identical, and that entry a member of the scalar sampler\'s declared set; non-trivial = always '
            '(the scalar set is a proper constraint)')

    def setup_more(self, tier):
        self.table = identity_scalar_table()

    def cases(self, tier):
        dims = (2, 3, 4) if tier == 'quick' else (2, 3, 4, 5)
        for d in dims:
            for k in range(len(identity_scalar_table())):
                yield (d, k, 0)

    def describe(self, case):
        return {'sampler': 'IdentityMatrixMultiples', 'dimension': case[0],
                'scalar': identity_scalar_table()[case[1]][0]}

    def build(self, case):
        d, k, _ = case
        recipe = self.table[k][1]
        if recipe[0] == 'default':
            return self.mg.IdentityMatrixMultiples(dimension=d)
        if recipe[0] == 'list':
            return self.mg.IdentityMatrixMultiples(dimension=d, sampler=list(recipe[1]))
        if recipe[0] in ('RealInterval', 'IntegerRange'):
            inner = getattr(self.mg, recipe[0])(list(recipe[1]))
        elif recipe[0] == 'ComplexRectangle':
            inner = self.mg.ComplexRectangle(re=list(recipe[1]), im=list(recipe[2]))
        else:
            inner = self.mg.ComplexSector(modulus=list(recipe[1]), argument=list(recipe[2]))
        return self.mg.IdentityMatrixMultiples(dimension=d, sampler=inner)

    def judge(self, case, sample):
        d, k, _ = case
        desc = self.table[k][2]
        if not isinstance(sample, self.MathArray):
            return ('not-matharray', 'sample is %s, not MathArray' % type(sample).__name__)
        a = R.plain(sample)
        if a.shape != (d, d):
            return ('shape', 'shape %r, declared %r' % (a.shape, (d, d)))
        for i in range(d):
            for j in range(d):
                if i != j and a[i, j] != 0:
                    return ('off-diagonal', 'entry [%d,%d] = %r is not zero' % (i, j, a[i, j]))
                if i == j and not (a[i, i] == a[0, 0]):
                    return ('diagonal-differs', 'diagonal entries %r and %r differ' % (a[0, 0], a[i, i]))
        v = a[0, 0].item()
        if desc[0] == 'int':
            # the matrix is scalar * eye (float): the multiple must be an integer of the range
            if v != int(v):
                return ('scalar-outside', 'multiple %r is not an integer' % (v,))
            v = int(v)
        elif desc[0] in ('rect', 'sector'):
            v = complex(v)
        why = R.scalar_problem(desc, v)
        if why:
            return ('scalar-outside', why)
        return None

    def outcome(self, case, stats):
        return self.table[case[1]][1][0]


# --------------------------------------------------------------------------- SquareMatrices

SQ_DIMS = (2, 3, 4, 5)
SQ_DETS = (None, 0, 1)


def sq_combos():
    for dim in SQ_DIMS:
        for sym in R.SYMMETRIES:
            for traceless in (False, True):
                for det in SQ_DETS:
                    for cplx in (False, True):
                        yield (dim, sym, traceless, det, cplx)


class SquareConstructorFam(SeededFamily):
    name = 'square_constructor'
    kind = 'ENUM'
    rule = ('all 288 SquareMatrices combinations dimension 2-5 x symmetry (6) x traceless x determinant {None,0,1} x '
            'complex; the constructor must raise ConfigError for exactly the documented refusals (zero determinant '
            'with traceless / complex antisymmetric / real antisymmetric in even dimension; unit determinant with '
            '2x2 traceless real diagonal / real symmetric / hermitian, odd-dimension antisymmetric / antihermitian) '
            'and accept the other 214; accepted (anti)hermitian configurations must record complex=True; '
            'non-trivial = determinant requested')

    def cases(self, tier):
        for c in sq_combos():
            yield [c[0], c[1], c[2], c[3], c[4]]

    def describe(self, case):
        dim, sym, traceless, det, cplx = case
        return {'sampler': 'SquareMatrices', 'dimension': dim, 'symmetry': sym, 'traceless': bool(traceless),
                'determinant': det, 'complex': bool(cplx)}

    def check(self, case):
        dim, sym, traceless, det, cplx = case
        refusal = R.square_refusal(dim, sym, traceless, det, cplx)
        try:
            s = self.mg.SquareMatrices(dimension=dim, symmetry=sym, traceless=bool(traceless), determinant=det,
                                       complex=bool(cplx))
            got = None
        except self.ConfigError as e:
            got = ('ConfigError', str(e))
        except Exception as e:
            return Result('other-error', True,
                          viol('square:constructor-error-not-ConfigError', '%s: %s' % (type(e).__name__, e),
                               'ConfigError or a sampler', self.describe(case)), 1)
        if refusal and got is None:
            return Result('accepted-excluded', True,
                          viol('square:constructor-accepts-excluded:' + refusal,
                               'combination documented as impossible/unsupported (%s) was accepted' % refusal,
                               'ConfigError', self.describe(case)), 1)
        if not refusal and got is not None:
            return Result('refused-allowed', True,
                          viol('square:constructor-refuses-allowed', 'an allowed combination was refused: %s' % got[1],
                               'a sampler', self.describe(case)), 1)
        if got is None:
            eff = bool(cplx) or sym in ('hermitian', 'antihermitian')
            if bool(s.config['complex']) != eff or tuple(s.config['shape']) != (dim, dim):
                return Result('config-wrong', True,
                              viol('square:config-not-normalised', 'config complex=%r shape=%r' %
                                   (s.config['complex'], s.config['shape']), {'complex': eff, 'shape': [dim, dim]},
                                   self.describe(case)), 1)
        return Result('refused:' + refusal if refusal else 'accepted', det is not None, None, 1)


SQ_NORMS = ([1, 5], [10, 20], [3, 3])


class SquareSamplesFam(ArrayFam):
    sigbase = 'square'

    def __init__(self, tier):
        self.tier = tier
        self.bound = 2
        self.name = 'square_samples'
        self.rule = ('every SquareMatrices combination the documentation allows (214 of 288) x norm {[1,5],[10,20]%s} '
                     '(norm only where determinant != 1) x R rounds of array fills; all schedules with at most %d '
                     'non-default answers (4 array fills, every eigenvalue index, 5 norm answers; the rejection loop '
                     'makes the full product infinite); sample must be a MathArray (d,d), real / genuinely complex, '
                     'symmetric / antisymmetric / (anti)hermitian to 1e-12 relative, exactly diagonal, |trace| <= '
                     '1e-9*scale, |det-1| resp. |det| <= 1e-9*scale (pure-Python elimination and numpy), Frobenius '
                     'norm inside the interval unless determinant=1; non-trivial = some symmetry, traceless or '
                     'determinant option set, or non-default norm'
                     % (',[3,3]' if tier != 'quick' else '', self.bound))

    def rounds(self, tier):
        return 2 if tier == 'quick' else 8

    def cases(self, tier):
        norms = (0, 1) if tier == 'quick' else (0, 1, 2)
        for rnd in range(self.rounds(tier)):
            for (dim, sym, traceless, det, cplx) in sq_combos():
                if R.square_refusal(dim, sym, traceless, det, cplx):
                    continue
                for ni in (norms if det != 1 else (0,)):
                    yield [dim, sym, int(traceless), det, int(cplx), ni, rnd]

    def describe(self, case):
        dim, sym, traceless, det, cplx, ni, rnd = case
        return {'sampler': 'SquareMatrices', 'dimension': dim, 'symmetry': sym, 'traceless': bool(traceless),
                'determinant': det, 'complex': bool(cplx), 'norm': SQ_NORMS[ni], 'round': rnd}

    def build(self, case):
        dim, sym, traceless, det, cplx, ni, rnd = case
        return self.mg.SquareMatrices(dimension=dim, symmetry=sym, traceless=bool(traceless), determinant=det,
                                      complex=bool(cplx), norm=list(SQ_NORMS[ni]))

    def judge(self, case, sample):
        dim, sym, traceless, det, cplx, ni, rnd = case
        eff = bool(cplx) or sym in ('hermitian', 'antihermitian')
        # a 2x2 antisymmetric matrix [[0,a],[-a,0]] with determinant a^2 = 1 is necessarily real
        forced_real = (dim == 2 and sym == 'antisymmetric' and det == 1)
        bad = R.basic_array_problem(sample, self.MathArray, (dim, dim), eff, forced_real)
        if bad:
            return bad
        a = R.plain(sample)
        bad = R.symmetry_problem(a, sym)
        if bad:
            return bad
        if traceless:
            bad = R.trace_problem(a)
            if bad:
                return bad
        if det is not None:
            bad = R.det_problem(a, det)
            if bad:
                return bad
        if det != 1:
            bad = R.norm_problem(a, SQ_NORMS[ni])
            if bad:
                return bad
        return None

    def refine(self, case, bad, ch):
        dim, sym, traceless, det, cplx, ni, rnd = case
        if bad[0] == 'det0':
            eff = bool(cplx) or sym in ('hermitian', 'antihermitian')
            arr = [c for (kind, _), c in zip(ch.points, ch.choices) if kind.startswith('array')]
            last = arr[-(2 if eff else 1):]
            if last and all(c == 3 for c in last):
                # all entries of the raw array within 1e-3 of each other: its determinant is below the
                # absolute 5e-13 short-cut although the matrix is not singular relative to its own size
                return ('det0:tiny-raw-matrix', bad[1] + ' [raw array entries all of size 1e-3 ("small" fill)]')
        return bad

    def nontrivial(self, case):
        dim, sym, traceless, det, cplx, ni, rnd = case
        return sym is not None or bool(traceless) or det is not None or ni != 0

    def outcome(self, case, stats):
        dim, sym, traceless, det, cplx, ni, rnd = case
        eff = bool(cplx) or sym in ('hermitian', 'antihermitian')
        base = (2 if eff else 1)
        retried = stats['maxpoints'] > base + 3
        return 'det=%s %s%s' % (det, 'traceless ' if traceless else '', 'retried' if retried else 'direct')


def families(tier):
    return [
        RealIntervalFam(),
        IntegerRangeFam(),
        ComplexRectangleFam(),
        ComplexSectorFam(),
        DiscreteSetFam(),
        RandomFunctionFam(False, tier),
        RandomFunctionFam(True, tier),
        VectorsFam(),
        MatricesFam(),
        TensorsFam(),
        IdentityFam(),
        SquareConstructorFam(),
        SquareSamplesFam(tier),
    ]
