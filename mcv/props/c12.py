"""
C12 -- every random draw satisfies all constraints its sampling set declares.

Engine CHOICE: the library's random number source (numpy.random.random_sample / rand / randint,
random.choice) is owned by mcv.chooser; every draw is a choice point with a finite menu.  One *case* is one
sampler configuration; `check(case)` builds the real sampler and executes `gen_sample()` once for every
schedule of environment answers in the stated set (full product of the menus, or all schedules with at most
`bound` non-default answers where a rejection loop makes the product infinite), and judges every sample with
the reference model in mcv/refs/c12_ref.py.
"""
import os
import math
import itertools

import numpy as np

from ..core import Family, Result, viol
from ..chooser import run_with, explore, ONE_MINUS, SCALAR_MENU
from ..refs import c12_ref as R

PROPERTY = 'C12'
RULE = ('one case = one sampler configuration from the option grids of the families below (cartesian products, '
        'fixed order); inside a case the RNG is an enumerated environment: integers / discrete members are '
        'enumerated completely, scalar uniforms come from the menu {golden-ratio value, 0, 1-2^-53, 1/4, 3/4} '
        '(scalar samplers, vectors, identity multiples additionally 1/2, 2^-53, 1/3), array draws from 4 generic fills (two counter-based streams, "extremes", '
        '"small") and, for RandomFunction only, 5 constant fills that put all sinusoids at their maximum '
        'simultaneously.  A case is non-trivial when the explored answers exercise a boundary of the declared '
        'set (interval ends reached, supremum schedule executed, a symmetry/trace/determinant/triangular/'
        'non-default-norm constraint present, constructor refusal expected).  Besides the option grids there are '
        'hand-written tables whose rows each pin one thing the grids pass explicitly: options left at their '
        'documented defaults and alternative spellings (defaults_and_forms, random_function_defaults_terms), '
        'sizes beyond the grids (array_sizes_beyond, square_*_beyond), several sampler objects alive at once '
        '(interleaved_samplers) and sets declared in a grader\'s short forms (declared_through_grader)')
EXPLANATION = ('states = sampler configurations; transitions = executions of the real gen_sample() (and, for '
               'random functions, evaluations of the drawn function on a 3^input_dim grid) under one schedule '
               'of environment answers; every execution runs the implementation itself')
ASSUMPTIONS = [
    'numpy is trusted for elementwise arithmetic on plain ndarrays; determinants are additionally recomputed by '
    'a pure-Python Gaussian elimination',
    'guard bands: 1e-9 relative on interval/norm/modulus bounds, 1e-9*max(1,(|M|_F/sqrt n)^n) on determinants, '
    '1e-9*max(1,|M|_F) on traces, 1e-12*max|M| on symmetry, 1e-9 relative on the random-function bound',
    'almost-sure contracts (norm, determinant) are explored with generic array fills only; measure-zero '
    'degenerate fills (all entries equal) are not legal environment answers for them.  The generic "small" fill '
    '(all uniforms within 1e-3 of 1/2) is a legal, if improbable, answer; failures that need it carry their own '
    'signature (square:det0:tiny-raw-matrix)',
    'OrthogonalMatrices / UnitaryMatrices need scipy, which is absent: not sampled',
    'array fills are PRNG-derived but deterministic menu items keyed by VERIF_SEED, the round number and the '
    'choice index; the set of cases does not depend on VERIF_SEED',
    'random functions are evaluated at real arguments only (grid {-2.5, 0, 1}^input_dim)',
]

EXT_MENU = ('golden', 0.0, ONE_MINUS, 0.25, 0.75, 0.5, 2.0 ** -53, 1.0 / 3)

INTERVALS = [[1, 5], [5, 1], [-3, -1], [2, 2], [0, 0], [-1e-9, 1e9]]
INT_INTERVALS = [[1, 5], [5, 1], [-3, -1], [2, 2], [0, 0], [-2, 4], [0, 1], [3, -3]]
HALF_PI = math.pi / 2
ARG_INTERVALS = INTERVALS + [[0, HALF_PI], [-math.pi, math.pi], [HALF_PI, -HALF_PI]]
NORMS = [[1, 5], [10, 20], [3, 3], [5, 1]]


def _seed_from_env():
    return int(os.environ.get('VERIF_SEED', '0') or 0)


class SeededFamily(Family):
    """remembers VERIF_SEED (it only selects the default RNG answers, never the set of cases)"""
    kind = 'CHOICE'
    timeout = 300.0
    timeout_sig = 'exploration-of-one-configuration-timed-out'   # all schedules of one case share the watchdog

    def run_slice(self, tier, seed, w, W):
        self.seed = seed
        return super(SeededFamily, self).run_slice(tier, seed, w, W)

    def setup(self, tier):
        if not hasattr(self, 'seed'):
            self.seed = _seed_from_env()
        import mitxgraders
        from mitxgraders.helpers.calc import MathArray
        from mitxgraders.exceptions import MITxError, ConfigError
        self.mg = mitxgraders
        self.MathArray = MathArray
        self.MITxError = MITxError
        self.ConfigError = ConfigError
        self.setup_more(tier)

    def setup_more(self, tier):
        pass

    def chooser_seed(self, rnd=0):
        return self.seed * 1009 + rnd


def explore_all(body, seed, allowed=None, **kw):
    """
    Full product of the menus (restricted by `allowed(position, kind, n) -> indices`), depth first.  If the
    body sets `chooser.mark`, only the choice points before the mark are branched on.
    """
    stack = [[]]
    while stack:
        prefix = stack.pop()
        ch, out = run_with(body, prefix, seed=seed, **kw)
        yield ch, out
        nxt = []
        limit = getattr(ch, 'mark', None)
        for i in range(len(prefix), len(ch.points)):
            if limit is not None and i >= limit:
                break
            kind, n = ch.points[i]
            alts = range(1, n) if allowed is None else [a for a in allowed(i, kind, n) if 0 < a < n]
            for alt in alts:
                nxt.append(ch.choices[:i] + [alt])
        stack.extend(reversed(nxt))


def guarded(fn):
    """body wrapper: ('ok', value) or ('raised', class name, message)"""
    def body(ch):
        try:
            return ('ok', fn(ch))
        except Exception as e:      # noqa: judged by the caller
            return ('raised', type(e).__name__, str(e)[:300])
    return body


def sched(ch):
    return {'choices': list(ch.choices), 'points': [p[0] for p in ch.points]}


# =========================================================================== scalar sampling sets

def make_interval(cls, pair, form):
    if form == 'list':
        return cls(list(pair))
    if form == 'kwargs':
        return cls(start=pair[0], stop=pair[1])
    return cls({'start': pair[0], 'stop': pair[1]})


class RealIntervalFam(SeededFamily):
    name = 'real_interval'
    rule = ('RealInterval over %r x 3 constructor forms (list, keywords, dict); all 8 answers of the scalar '
            'menu; sample must be a real scalar inside the closed interval (either order of the bounds); '
            'non-trivial = both ends of the interval were reached (within 1e-12 relative) or the set is a point'
            % (INTERVALS,))

    def cases(self, tier):
        for i in range(len(INTERVALS)):
            for form in ('list', 'kwargs', 'dict'):
                yield (i, form)

    def describe(self, case):
        return {'sampler': 'RealInterval', 'interval': INTERVALS[case[0]], 'form': case[1]}

    def check(self, case):
        i, form = case
        pair = INTERVALS[i]
        try:
            s = make_interval(self.mg.RealInterval, pair, form)
        except Exception as e:
            return Result('constructor-raised', True,
                          viol('real_interval:constructor-raises', repr(e), 'a sampler', repr(e)), 0)
        n = 0
        vals = []
        for ch, out in explore_all(guarded(lambda ch: s.gen_sample()), self.chooser_seed(),
                                   scalar_menu=EXT_MENU):
            n += 1
            if out[0] != 'ok':
                return Result('raised', True, viol('real_interval:gen_sample-raises', '%s: %s' % out[1:3],
                                                   'a sample', {'sched': sched(ch)}), n)
            why = R.interval_problem(out[1], pair, 'sample')
            if why:
                return Result('outside', True, viol('real_interval:outside', why, 'in %r' % (R.ordered(pair),),
                                                    {'sample': repr(out[1]), 'sched': sched(ch)}), n)
            vals.append(float(out[1]))
        lo, hi = R.ordered(pair)
        span = max(abs(lo), abs(hi), 1.0)
        ends = (min(vals) - lo <= 1e-12 * span, hi - max(vals) <= 1e-12 * span)
        outcome = 'point' if lo == hi else 'span lo-reached=%s hi-reached=%s' % ends
        return Result(outcome, all(ends), None, n)


class IntegerRangeFam(SeededFamily):
    name = 'integer_range'
    rule = ('IntegerRange over %r x 3 constructor forms; every answer of randint is enumerated; each sample '
            'must be an integer within the range and the set of all samples must be exactly {lo..hi} (both '
            'endpoints attainable); non-trivial = range with more than one member' % (INT_INTERVALS,))

    def cases(self, tier):
        for i in range(len(INT_INTERVALS)):
            for form in ('list', 'kwargs', 'dict'):
                yield (i, form)

    def describe(self, case):
        return {'sampler': 'IntegerRange', 'interval': INT_INTERVALS[case[0]], 'form': case[1]}

    def check(self, case):
        i, form = case
        pair = INT_INTERVALS[i]
        lo, hi = R.ordered(pair)
        try:
            s = make_interval(self.mg.IntegerRange, pair, form)
        except Exception as e:
            return Result('constructor-raised', True,
                          viol('integer_range:constructor-raises', repr(e), 'a sampler', repr(e)), 0)
        n = 0
        seen = set()
        for ch, out in explore_all(guarded(lambda ch: s.gen_sample()), self.chooser_seed()):
            n += 1
            if out[0] != 'ok':
                return Result('raised', True, viol('integer_range:gen_sample-raises', '%s: %s' % out[1:3],
                                                   'a sample', {'sched': sched(ch)}), n)
            why = R.integer_problem(out[1], pair)
            if why:
                return Result('outside', True, viol('integer_range:outside', why, 'integer in [%d, %d]' % (lo, hi),
                                                    {'sample': repr(out[1]), 'sched': sched(ch)}), n)
            seen.add(int(out[1]))
        want = set(range(lo, hi + 1))
        if seen != want:
            missing = sorted(want - seen)
            return Result('unattainable', True,
                          viol('integer_range:member-unattainable',
                               'over all answers of the integer RNG the members %r are never produced' % missing,
                               sorted(want), sorted(seen)), n)
        return Result('all %d members' % len(want), lo < hi, None, n)


def pair_cases(first, second):
    for i in range(len(first)):
        for j in range(len(second)):
            yield (i, j)


class ComplexRectangleFam(SeededFamily):
    name = 'complex_rectangle'
    rule = ('ComplexRectangle(re=I, im=J) for all ordered pairs I, J of %r; full 8x8 product of the scalar menu; '
            'sample must be a complex scalar with real part in I and imaginary part in J; non-trivial = not both '
            'intervals are points' % (INTERVALS,))

    def cases(self, tier):
        return pair_cases(INTERVALS, INTERVALS)

    def describe(self, case):
        return {'sampler': 'ComplexRectangle', 're': INTERVALS[case[0]], 'im': INTERVALS[case[1]]}

    def check(self, case):
        re, im = INTERVALS[case[0]], INTERVALS[case[1]]
        try:
            s = self.mg.ComplexRectangle(re=list(re), im=list(im))
        except Exception as e:
            return Result('constructor-raised', True,
                          viol('complex_rectangle:constructor-raises', repr(e), 'a sampler', repr(e)), 0)
        n = 0
        for ch, out in explore_all(guarded(lambda ch: s.gen_sample()), self.chooser_seed(),
                                   scalar_menu=EXT_MENU):
            n += 1
            if out[0] != 'ok':
                return Result('raised', True, viol('complex_rectangle:gen_sample-raises', '%s: %s' % out[1:3],
                                                   'a sample', {'sched': sched(ch)}), n)
            why = R.rectangle_problem(out[1], re, im)
            if why:
                return Result('outside', True, viol('complex_rectangle:outside', why, 're in %r, im in %r' % (re, im),
                                                    {'sample': repr(out[1]), 'sched': sched(ch)}), n)
        pt = (re[0] == re[1]) + (im[0] == im[1])
        return Result(('rectangle', 'segment', 'point')[pt], pt < 2, None, n)


class ComplexSectorFam(SeededFamily):
    name = 'complex_sector'
    rule = ('ComplexSector(modulus=I, argument=J) for all pairs of I in %r and J in those plus [0,pi/2], '
            '[-pi,pi], [pi/2,-pi/2]; full 8x8 product of the scalar menu; sample z must equal m*exp(i*t) for '
            'some m in I and t in J (phase compared modulo 2 pi, tolerance 1e-9); non-trivial = the argument '
            'interval is narrower than 2 pi and the modulus interval is not {0}' % (INTERVALS,))

    def cases(self, tier):
        return pair_cases(INTERVALS, ARG_INTERVALS)

    def describe(self, case):
        return {'sampler': 'ComplexSector', 'modulus': INTERVALS[case[0]], 'argument': ARG_INTERVALS[case[1]]}

    def check(self, case):
        mod, arg = INTERVALS[case[0]], ARG_INTERVALS[case[1]]
        try:
            s = self.mg.ComplexSector(modulus=list(mod), argument=list(arg))
        except Exception as e:
            return Result('constructor-raised', True,
                          viol('complex_sector:constructor-raises', repr(e), 'a sampler', repr(e)), 0)
        n = 0
        for ch, out in explore_all(guarded(lambda ch: s.gen_sample()), self.chooser_seed(),
                                   scalar_menu=EXT_MENU):
            n += 1
            if out[0] != 'ok':
                return Result('raised', True, viol('complex_sector:gen_sample-raises', '%s: %s' % out[1:3],
                                                   'a sample', {'sched': sched(ch)}), n)
            why = R.sector_problem(out[1], mod, arg)
            if why:
                return Result('outside', True, viol('complex_sector:outside', why,
                                                    'modulus in %r, argument in %r' % (mod, arg),
                                                    {'sample': repr(out[1]), 'sched': sched(ch)}), n)
        wide = abs(arg[1] - arg[0]) >= 2 * math.pi - 1e-9
        zero = mod[0] == 0 and mod[1] == 0
        outcome = 'origin' if zero else ('annulus' if wide else ('arc' if mod[0] == mod[1] else
                                                                  ('ray' if arg[0] == arg[1] else 'sector')))
        return Result(outcome, not wide and not zero, None, n)


# =========================================================================== discrete sets / function lists

def _f_square(x):
    return x * x


def _f_cube(x):
    return x * x * x


def _f_two(x, y):
    return x + y


class _Callable(object):
    def __call__(self, x):
        return -x


class DiscreteSetFam(SeededFamily):
    name = 'discrete_set'
    rule = ('DiscreteSet over 10 member lists (single number, tuples of ints/floats/complex, duplicates, single '
            'MathArray, tuples of MathArrays, mixed numbers and arrays) and SpecificFunctions over 6 function lists; '
            'every answer of random.choice is enumerated; each sample must be one of the listed members (same '
            'object, or equal value) and the listed arrays must be unchanged afterwards; '
            'non-trivial = more than one distinct member')

    def setup_more(self, tier):
        MA = self.MathArray
        ident = MA([[1, 0], [0, 1]])
        arr = MA([[1, 2], [3, 4]])
        vec = MA([1, 2, 3])
        self.table = [
            ('DiscreteSet', 'single float', 3.142),
            ('DiscreteSet', 'odd ints', (1, 3, 5, 7, 9)),
            ('DiscreteSet', 'mixed numbers', (1, 1.5, 2 + 1j, -4)),
            ('DiscreteSet', 'duplicates', (2, 2, 3)),
            ('DiscreteSet', 'one-tuple', (0,)),
            ('DiscreteSet', 'single array', ident),
            ('DiscreteSet', 'two arrays', (ident, arr)),
            ('DiscreteSet', 'number and array', (1, ident)),
            ('DiscreteSet', 'vectors and number', (vec, MA([0, 0, 1]), 7.5)),
            ('DiscreteSet', 'numpy scalars', (np.float64(2.5), np.int64(3), np.complex128(1j))),
            ('SpecificFunctions', 'single lambda', lambda x: x * x),
            ('SpecificFunctions', 'cos sin', [np.cos, np.sin]),
            ('SpecificFunctions', 'sin cos tan', [np.sin, np.cos, np.tan]),
            ('SpecificFunctions', 'python defs', [_f_square, _f_cube, _f_two, abs]),
            ('SpecificFunctions', 'callable object', [_Callable(), _f_square]),
            ('SpecificFunctions', 'one-element list', [math.sin]),
            # a single un-tupled array IS the one member of the set, whatever its shape
            ('DiscreteSet', 'single vector', vec),
            ('DiscreteSet', 'single vector of length 1', MA([4.0])),
            ('DiscreteSet', 'single row matrix', MA([[1, 2, 3]])),
            ('DiscreteSet', 'single complex vector', MA([1j, 2])),
        ]

    def cases(self, tier):
        return iter(range(20))

    def describe(self, case):
        if not hasattr(self, 'table'):
            return case
        cls, label, members = self.table[case]
        return {'sampler': cls, 'members': label, 'repr': repr(members)[:200]}

    def same(self, a, b):
        """the same object, or the same mathematical value (number == number, array == array entrywise)"""
        if a is b:
            return True
        if callable(a) or callable(b):
            return False
        arr_a, arr_b = isinstance(a, np.ndarray), isinstance(b, np.ndarray)
        if arr_a != arr_b:
            return False
        if arr_a:
            return (isinstance(a, self.MathArray) and a.shape == b.shape
                    and bool(np.all(np.asarray(a) == np.asarray(b))))
        return R.is_complex_scalar(a) and a == b

    def check(self, case):
        cls, label, members = self.table[case]
        mlist = list(members) if isinstance(members, (tuple, list)) else [members]
        snap = [np.array(m, copy=True) if isinstance(m, np.ndarray) else m for m in mlist]
        sig = 'discrete_set' if cls == 'DiscreteSet' else 'specific_functions'
        try:
            s = getattr(self.mg, cls)(members)
        except Exception as e:
            return Result('constructor-raised', True, viol(sig + ':constructor-raises', repr(e), 'a sampler', repr(e)), 0)
        n = 0
        hit = set()
        for ch, out in explore_all(guarded(lambda ch: s.gen_sample()), self.chooser_seed()):
            n += 1
            if out[0] != 'ok':
                return Result('raised', True, viol(sig + ':gen_sample-raises', '%s: %s' % out[1:3], 'a sample',
                                                   {'sched': sched(ch)}), n)
            idx = [k for k, m in enumerate(mlist) if self.same(out[1], m)]
            if not idx:
                return Result('not-member', True,
                              viol(sig + ':not-a-listed-member', 'sample %r is not one of the listed members' % (out[1],),
                                   label, {'sample': repr(out[1]), 'sched': sched(ch)}), n)
            hit.update(idx)
        for m, s0 in zip(mlist, snap):
            if isinstance(m, np.ndarray) and not (m.shape == s0.shape and np.all(np.asarray(m) == s0)):
                return Result('member-modified', True,
                              viol(sig + ':listed-array-modified', 'a listed array changed while sampling', repr(s0), repr(m)), n)
        distinct = sum(1 for k, m in enumerate(mlist) if not any(self.same(m, o) for o in mlist[:k]))
        return Result('%s %d/%d members drawn' % (cls, len(hit), len(mlist)), distinct > 1, None, n)


# =========================================================================== random functions

GRID_VALUES = (-2.5, 0.0, 1.0)
# positions in chooser.ARRAY_MENU + const fills: 0 streamA, 1 streamB, 2 extremes, 3 small, 4..8 const 0,.25,.5,.75,1-
CONST_IDX = (4, 5, 6, 7, 8)


def rf_configs(cplx):
    centers = (0, 1.5, -2 + 1j) if cplx else (0, 1.5)
    for input_dim in (1, 2, 3, 4):
        for output_dim in (1, 2, 3):
            for num_terms in (1, 3):
                for ci in range(len(centers)):
                    for amplitude in (0.5, 10):
                        yield (input_dim, output_dim, num_terms, ci, amplitude, cplx)


RF_CENTERS = (0, 1.5, -2 + 1j)


class RandomFunctionFam(SeededFamily):
    """
    quick:    amplitude draw {stream A, const 1-2^-53, const 0}, frequency draw {stream A, const 1/2, const 0},
              phase draw {stream A, const 1/4, const 3/4}; complex-phase draw {stream A, const 1/4}
    thorough: real functions: all 9 fills (4 generic + 5 constant) for each of the three draws;
              complex functions: {stream A, stream B, const 0, 1/4, 1/2, 1-2^-53} for the three draws and
              {stream A, const 1/4} for the complex-phase draw
    """
    def __init__(self, cplx, tier):
        self.cplx = cplx
        self.tier = tier
        self.name = 'random_function_complex' if cplx else 'random_function_real'
        self.rule = ('RandomFunction over input_dim 1-4 x output_dim 1-3 x num_terms {1,3} x center %s x amplitude '
                     '{0.5,10}, complex=%s; full product of the array-fill menus of the first draw (%s); the drawn '
                     'function is evaluated on the grid {-2.5,0,1}^input_dim, a second function is drawn from the same '
                     'sampler and (default schedule) one from another, differently configured sampler, and the first is re-evaluated, '
                     'again after the wrong-arity calls raised; checked: callable, nin tag, library error for input_dim-1 and '
                     'input_dim+1 arguments, scalar vs MathArray(output_dim), real vs complex values, '
                     '|f(x)-center| <= amplitude, identical values on re-evaluation.  The constant fills '
                     '(amplitude draw 1-2^-53, frequency draw 1/2, phase draw 1/4) put every sinusoid at its maximum, '
                     'realising the supremum.  non-trivial = some explored schedule reached |f-center| > amplitude/2'
                     % ('{0,1.5,-2+1j}' if cplx else '{0,1.5}', cplx,
                        'stream A + 2 extremal constant fills per draw' if tier == 'quick' else
                        ('streams A, B + constants 0, 1/4, 1/2, 1-2^-53 per draw' if cplx else 'all 9 fills per draw')))

    def cases(self, tier):
        return rf_configs(self.cplx)

    def describe(self, case):
        input_dim, output_dim, num_terms, ci, amplitude, cplx = case
        return {'sampler': 'RandomFunction', 'input_dim': input_dim, 'output_dim': output_dim,
                'num_terms': num_terms, 'center': repr(RF_CENTERS[ci]), 'amplitude': amplitude, 'complex': bool(cplx)}

    def allowed(self, i, kind, n):
        """
        menu restriction per array draw of the first gen_sample (positions: amplitudes, [complex phases],
        frequencies, phases); see the class docstring.
        """
        cplx = self.cur_cplx
        role = i if not cplx else (i if i == 0 else i - 1 if i > 1 else 'cphase')
        if role == 'cphase':
            return (5,)
        if self.tier != 'quick':
            return (1, 4, 5, 6, 8) if cplx else range(1, n)
        return {0: (8, 4), 1: (6, 4), 2: (5, 7)}.get(role, CONST_IDX)

    def config_of(self, case):
        """(keyword arguments handed to the constructor, the complete declared configuration)"""
        input_dim, output_dim, num_terms, ci, amplitude, cplx = case
        cfg = dict(input_dim=input_dim, output_dim=output_dim, num_terms=num_terms, center=RF_CENTERS[ci],
                   amplitude=amplitude, complex=bool(cplx))
        return cfg, cfg

    def check(self, case):
        given, cfg = self.config_of(case)
        input_dim, output_dim, num_terms = cfg['input_dim'], cfg['output_dim'], cfg['num_terms']
        center, amplitude, cplx = cfg['center'], cfg['amplitude'], bool(cfg['complex'])
        self.cur_cplx = cplx
        try:
            s = self.mg.RandomFunction(**given)
            # a second, differently configured sampler that is alive (and drawn from) at the same time
            other = self.mg.RandomFunction(input_dim=input_dim, output_dim=output_dim,
                                           center=complex(center).real + 100,
                                           amplitude=amplitude * 3, complex=not cplx, num_terms=num_terms + 1)
        except Exception as e:
            return Result('constructor-raised', True,
                          viol('random_function:constructor-raises', repr(e), 'a sampler', repr(e)), 0)
        grid = list(itertools.product(GRID_VALUES, repeat=input_dim))
        recheck = [grid[0], grid[len(grid) // 2], grid[-1]]
        MITxError = self.MITxError

        def body(ch):
            f = s.gen_sample()
            ch.mark = len(ch.points)
            v1 = [f(*x) for x in grid]
            g = s.gen_sample()
            g(*grid[-1])
            if not ch.prefix:
                # default schedule only (these draws lie after the mark and are never branched on)
                h = other.gen_sample()
                h(*grid[0])
            v2 = [f(*x) for x in recheck]
            arity = []
            for k in (input_dim - 1, input_dim + 1):
                try:
                    f(*([0.5] * k))
                    arity.append((k, None))
                except MITxError as e:
                    arity.append((k, 'library'))
                except Exception as e:      # noqa
                    arity.append((k, type(e).__name__))
            # ... and once more after the calls that raised
            v2 = v2 + [f(*x) for x in (recheck if not ch.prefix else recheck[:1])]
            return f, v1, v2, arity

        n = 0
        worst = 0.0
        first = None
        for ch, out in explore_all(guarded(body), self.chooser_seed(), allowed=self.allowed, const_fills=True):
            n += 1 + len(grid)
            obs = {'config': self.describe(case), 'sched': sched(ch), 'seed': self.seed}
            if out[0] != 'ok':
                return Result('raised', True, viol('random_function:raises', '%s: %s' % out[1:3],
                                                   'a function with values', obs), n)
            f, v1, v2, arity = out[1]
            if not callable(f):
                return Result('not-callable', True, viol('random_function:not-callable', repr(f), 'callable', obs), n)
            if getattr(f, 'nin', None) != input_dim:
                return Result('nin', True, viol('random_function:nin-tag', 'function is tagged nin=%r for input_dim=%d'
                                                % (getattr(f, 'nin', None), input_dim), input_dim, obs), n)
            for k, how in arity:
                if how != 'library':
                    obs['arguments'] = k
                    return Result('arity', True,
                                  viol('random_function:wrong-arity-not-refused',
                                       'call with %d arguments for input_dim=%d %s' %
                                       (k, input_dim, 'returned a value' if how is None else 'raised %s' % how),
                                       'a library (MITxError) error', obs), n)
            # shape / type of every value
            for x, v in zip(grid, v1):
                bad = None
                if output_dim == 1:
                    if isinstance(v, np.ndarray) or np.ndim(v) != 0 or not isinstance(v, (float, complex, np.number)):
                        bad = 'output_dim=1 but value is %s %r' % (type(v).__name__, v)
                else:
                    if not isinstance(v, self.MathArray) or np.shape(v) != (output_dim,):
                        bad = 'output_dim=%d but value is %s of shape %r' % (output_dim, type(v).__name__, np.shape(v))
                if bad:
                    obs['x'] = list(x)
                    return Result('output-shape', True, viol('random_function:output-dimension', bad,
                                                             'scalar' if output_dim == 1 else 'MathArray(%d)' % output_dim, obs), n)
            arr = np.array([np.asarray(v) for v in v1])
            if not np.all(np.isfinite(arr)):
                return Result('not-finite', True, viol('random_function:not-finite', 'nan/inf value', 'finite', obs), n)
            if not cplx and (np.iscomplexobj(arr) and np.any(arr.imag != 0)):
                return Result('not-real', True, viol('random_function:not-real', 'real random function gave a complex value',
                                                     'real', obs), n)
            if cplx and not np.iscomplexobj(arr):
                return Result('not-complex', True, viol('random_function:not-complex',
                                                        'complex random function gave real-typed values', 'complex', obs), n)
            dev = np.abs(arr - center)
            m = float(dev.max())
            worst = max(worst, m / amplitude)
            if first is None:
                first = m / amplitude
            if m > amplitude * (1 + 1e-9):
                gi = int(np.argmax(dev.reshape(len(grid), -1).max(axis=1)))
                obs.update({'x': list(grid[gi]), 'value': repr(v1[gi]), 'max |f-center|': m})
                if input_dim >= 2 and m <= amplitude * input_dim * (1 + 1e-9):
                    sig = 'random_function:exceeds-amplitude:input_dim>=2'
                    msg = ('|f(x)-center| = %.6g > amplitude %g for input_dim=%d (within amplitude*input_dim: the sum '
                           'runs over num_terms*input_dim sinusoids but is scaled by amplitude/num_terms)'
                           % (m, amplitude, input_dim))
                else:
                    sig = 'random_function:exceeds-amplitude'
                    msg = '|f(x)-center| = %.6g > amplitude %g (input_dim=%d)' % (m, amplitude, input_dim)
                return Result('exceeds', True, viol(sig, msg, '<= %g' % amplitude, obs), n)
            # fixed once drawn
            k_of = {tuple(x): i for i, x in enumerate(grid)}
            for x, v in zip(recheck + recheck, v2):
                a, b = np.asarray(v1[k_of[tuple(x)]]), np.asarray(v)
                if a.shape != b.shape or not np.all(a == b):
                    obs.update({'x': list(x), 'first': repr(a.tolist()), 'again': repr(b.tolist())})
                    return Result('not-fixed', True,
                                  viol('random_function:not-fixed-once-drawn',
                                       'the drawn function changed its value at x after other functions were drawn (same / another '
                                       'sampler) or after a call with the wrong number of arguments raised',
                                       repr(a.tolist()), obs), n)
        bucket = 'max|f-c|/amplitude: default schedule %.1f, over all schedules %.2f' % (
            math.floor((first or 0) * 10) / 10.0, math.floor(worst * 100) / 100.0)
        return Result(bucket, worst > 0.5, None, n)


# =========================================================================== array sampling sets

def judge_general(fam, sample, shape, want_complex, norm, triangular=None):
    bad = R.basic_array_problem(sample, fam.MathArray, shape, want_complex)
    if bad:
        return bad
    a = R.plain(sample)
    return R.norm_problem(a, norm) or (R.triangular_problem(a, triangular) if triangular else None)


class ArrayFam(SeededFamily):
    """shared driver: explore every schedule of one configuration, judge every sample"""
    sigbase = 'array'
    bound = None            # None = full product
    scalar_menu = EXT_MENU

    def rounds(self, tier):
        return 2 if tier == 'quick' else 8

    def build(self, case):
        raise NotImplementedError

    def judge(self, case, sample):
        raise NotImplementedError

    def nontrivial(self, case):
        return True

    def refine(self, case, bad, ch):
        """hook: make the signature of a failure more specific from the schedule that produced it"""
        return bad

    def outcome(self, case, stats):
        return 'ok'

    def check(self, case):
        rnd = case[-1]
        try:
            s = self.build(case)
        except Exception as e:
            return Result('constructor-raised', True,
                          viol(self.sigbase + ':constructor-raises', '%s: %s' % (type(e).__name__, e),
                               'a sampler', self.describe(case)), 0)
        n = 0
        stats = {'maxpoints': 0, 'minpoints': 10 ** 9}
        body = guarded(lambda ch: s.gen_sample())
        if self.bound is None:
            it = explore_all(body, self.chooser_seed(rnd), scalar_menu=self.scalar_menu)
        else:
            it = explore(body, bound=self.bound, seed=self.chooser_seed(rnd))
        for ch, out in it:
            n += 1
            stats['maxpoints'] = max(stats['maxpoints'], len(ch.points))
            stats['minpoints'] = min(stats['minpoints'], len(ch.points))
            obs = {'config': self.describe(case), 'sched': sched(ch), 'seed': self.seed}
            if out[0] != 'ok':
                tag = 'unable-to-construct' if 'Unable to construct' in out[2] else 'gen_sample-raises'
                return Result('raised', True, viol('%s:%s' % (self.sigbase, tag), '%s: %s' % out[1:3], 'a sample', obs), n)
            bad = self.judge(case, out[1])
            if bad:
                bad = self.refine(case, bad, ch)
                obs['sample'] = repr(np.asarray(out[1]).tolist())[:600]
                return Result(bad[0], True, viol('%s:%s' % (self.sigbase, bad[0]), bad[1], 'member of the declared set', obs), n)
        return Result(self.outcome(case, stats), self.nontrivial(case), None, n)


def shape_form(shape, form):
    if form == 'int':
        return shape[0]
    if form == 'list':
        return list(shape)
    return tuple(shape)


class VectorsFam(ArrayFam):
    name = 'vectors'
    sigbase = 'vectors'
    rule = ('RealVectors / ComplexVectors, 1-4 components given as int, tuple or list, norm in %r, R rounds of '
            'array fills; full product of 4 fills per array draw x 8 scalar answers for the norm; sample must be a '
            'MathArray of the declared shape, real resp. genuinely complex, Frobenius norm inside the interval; '
            'non-trivial = norm interval other than the default [1,5] or complex' % (NORMS,))

    def cases(self, tier):
        for rnd in range(self.rounds(tier)):
            for cplx in (0, 1):
                for k in (1, 2, 3, 4):
                    for form in ('int', 'tuple', 'list'):
                        for ni in range(len(NORMS)):
                            yield (cplx, k, form, ni, rnd)

    def describe(self, case):
        cplx, k, form, ni, rnd = case
        return {'sampler': 'ComplexVectors' if cplx else 'RealVectors', 'shape': shape_form((k,), form),
                'norm': NORMS[ni], 'round': rnd}

    def build(self, case):
        cplx, k, form, ni, rnd = case
        cls = self.mg.ComplexVectors if cplx else self.mg.RealVectors
        return cls(shape=shape_form((k,), form), norm=list(NORMS[ni]))

    def judge(self, case, sample):
        cplx, k, form, ni, rnd = case
        return judge_general(self, sample, (k,), bool(cplx), NORMS[ni])

    def nontrivial(self, case):
        return case[3] != 0 or bool(case[0])

    def outcome(self, case, stats):
        return '%s norm%r' % ('complex' if case[0] else 'real', tuple(NORMS[case[3]]))


TRI = (None, 'upper', 'lower')


class MatricesFam(ArrayFam):
    name = 'matrices'
    sigbase = 'matrices'
    scalar_menu = SCALAR_MENU
    rule = ('RealMatrices / ComplexMatrices of every shape m x n, m,n in 1..3, triangular in {None, upper, lower}, '
            'norm in %r; full product of fills x 5 norm answers; MathArray, shape, realness, norm, and exact zeros '
            'below (upper) / above (lower) the diagonal; non-trivial = triangular requested or non-default norm'
            % (NORMS[:3],))

    def cases(self, tier):
        for rnd in range(self.rounds(tier)):
            for cplx in (0, 1):
                for m in (1, 2, 3):
                    for n in (1, 2, 3):
                        for ti in range(3):
                            for ni in range(3):
                                yield (cplx, m, n, ti, ni, rnd)

    def describe(self, case):
        cplx, m, n, ti, ni, rnd = case
        return {'sampler': 'ComplexMatrices' if cplx else 'RealMatrices', 'shape': [m, n], 'triangular': TRI[ti],
                'norm': NORMS[ni], 'round': rnd}

    def build(self, case):
        cplx, m, n, ti, ni, rnd = case
        cls = self.mg.ComplexMatrices if cplx else self.mg.RealMatrices
        return cls(shape=[m, n] if rnd % 2 == 0 else (m, n), norm=list(NORMS[ni]), triangular=TRI[ti])

    def judge(self, case, sample):
        cplx, m, n, ti, ni, rnd = case
        return judge_general(self, sample, (m, n), bool(cplx), NORMS[ni], TRI[ti])

    def nontrivial(self, case):
        return case[3] != 0 or case[4] != 0

    def outcome(self, case, stats):
        return '%s %s' % ('complex' if case[0] else 'real', TRI[case[3]])


TENSOR_SHAPES = [(2, 2, 2), (1, 2, 3), (3, 1, 2), (2, 3, 4), (1, 1, 1), (2, 2, 2, 2), (1, 1, 1, 1), (2, 1, 3, 2),
                 (3, 2, 2, 3)]


class TensorsFam(ArrayFam):
    name = 'tensors'
    sigbase = 'tensors'
    scalar_menu = SCALAR_MENU
    rule = ('RealTensors / ComplexTensors over the shapes %r (3 and 4 axes), norm in %r; full product of fills x '
            '5 norm answers; MathArray, shape, realness, norm; non-trivial = non-default norm or 4 axes'
            % (TENSOR_SHAPES, NORMS[:3]))

    def cases(self, tier):
        for rnd in range(self.rounds(tier)):
            for cplx in (0, 1):
                for si in range(len(TENSOR_SHAPES)):
                    for ni in range(3):
                        yield (cplx, si, ni, rnd)

    def describe(self, case):
        cplx, si, ni, rnd = case
        return {'sampler': 'ComplexTensors' if cplx else 'RealTensors', 'shape': list(TENSOR_SHAPES[si]),
                'norm': NORMS[ni], 'round': rnd}

    def build(self, case):
        cplx, si, ni, rnd = case
        cls = self.mg.ComplexTensors if cplx else self.mg.RealTensors
        shape = TENSOR_SHAPES[si]
        return cls(shape=list(shape) if rnd % 2 == 0 else tuple(shape), norm=list(NORMS[ni]))

    def judge(self, case, sample):
        cplx, si, ni, rnd = case
        return judge_general(self, sample, TENSOR_SHAPES[si], bool(cplx), NORMS[ni])

    def nontrivial(self, case):
        return case[2] != 0 or len(TENSOR_SHAPES[case[1]]) == 4

    def outcome(self, case, stats):
        return '%s %d axes' % ('complex' if case[0] else 'real', len(TENSOR_SHAPES[case[1]]))


def identity_scalar_table():
    """(label, recipe, descriptor of the scalar set)"""
    t = [('default', ('default',), ('real', [1, 5])),
         ('list [1,3]', ('list', [1, 3]), ('real', [1, 3])),
         ('list [3,1]', ('list', [3, 1]), ('real', [3, 1]))]
    for p in INTERVALS:
        t.append(('RealInterval%r' % (p,), ('RealInterval', p), ('real', p)))
    for p in INT_INTERVALS[:6]:
        t.append(('IntegerRange%r' % (p,), ('IntegerRange', p), ('int', p)))
    for re, im in (([1, 5], [5, 1]), ([-3, -1], [2, 2]), ([0, 0], [0, 0]), ([2, 2], [-1e-9, 1e9])):
        t.append(('ComplexRectangle re=%r im=%r' % (re, im), ('ComplexRectangle', re, im), ('rect', re, im)))
    for mod, arg in (([1, 5], [0, HALF_PI]), ([0, 1], [-math.pi, math.pi]), ([2, 2], [-3, -1]), ([5, 1], [2, 2])):
        t.append(('ComplexSector modulus=%r argument=%r' % (mod, arg), ('ComplexSector', mod, arg), ('sector', mod, arg)))
    return t


class IdentityFam(ArrayFam):
    name = 'identity_multiples'
    sigbase = 'identity_multiples'
    rule = ('IdentityMatrixMultiples, dimension 2-4 (2-5 thorough) x every scalar sampler (default, list form, '
            'RealInterval x 6, IntegerRange x 6, ComplexRectangle x 4, ComplexSector x 4); all answers of the scalar / '
            'integer RNG; sample must be a MathArray of shape (d,d) with exactly zero off-diagonal, all diagonal '
            'entries identical, and that entry a member of the scalar sampler\'s declared set; non-trivial = always '
            '(the scalar set is a proper constraint)')

    def setup_more(self, tier):
        self.table = identity_scalar_table()

    def cases(self, tier):
        dims = (2, 3, 4) if tier == 'quick' else (2, 3, 4, 5)
        for d in dims:
            for k in range(len(identity_scalar_table())):
                yield (d, k, 0)

    def describe(self, case):
        return {'sampler': 'IdentityMatrixMultiples', 'dimension': case[0],
                'scalar': identity_scalar_table()[case[1]][0]}

    def build(self, case):
        d, k, _ = case
        recipe = self.table[k][1]
        if recipe[0] == 'default':
            return self.mg.IdentityMatrixMultiples(dimension=d)
        if recipe[0] == 'list':
            return self.mg.IdentityMatrixMultiples(dimension=d, sampler=list(recipe[1]))
        if recipe[0] in ('RealInterval', 'IntegerRange'):
            inner = getattr(self.mg, recipe[0])(list(recipe[1]))
        elif recipe[0] == 'ComplexRectangle':
            inner = self.mg.ComplexRectangle(re=list(recipe[1]), im=list(recipe[2]))
        else:
            inner = self.mg.ComplexSector(modulus=list(recipe[1]), argument=list(recipe[2]))
        return self.mg.IdentityMatrixMultiples(dimension=d, sampler=inner)

    def judge(self, case, sample):
        d, k, _ = case
        return R.identity_problem(sample, self.MathArray, d, self.table[k][2])

    def outcome(self, case, stats):
        return self.table[case[1]][1][0]


# --------------------------------------------------------------------------- SquareMatrices

SQ_DIMS = (2, 3, 4, 5)
SQ_DETS = (None, 0, 1)


def sq_combos():
    for dim in SQ_DIMS:
        for sym in R.SYMMETRIES:
            for traceless in (False, True):
                for det in SQ_DETS:
                    for cplx in (False, True):
                        yield (dim, sym, traceless, det, cplx)


class SquareConstructorFam(SeededFamily):
    name = 'square_constructor'
    kind = 'ENUM'
    rule = ('all 288 SquareMatrices combinations dimension 2-5 x symmetry (6) x traceless x determinant {None,0,1} x '
            'complex; the constructor must raise ConfigError for exactly the documented refusals (zero determinant '
            'with traceless / complex antisymmetric / real antisymmetric in even dimension; unit determinant with '
            '2x2 traceless real diagonal / real symmetric / hermitian, odd-dimension antisymmetric / antihermitian) '
            'and accept the other 214; accepted (anti)hermitian configurations must record complex=True; '
            'non-trivial = determinant requested')

    def cases(self, tier):
        for c in sq_combos():
            yield [c[0], c[1], c[2], c[3], c[4]]

    def describe(self, case):
        dim, sym, traceless, det, cplx = case
        return {'sampler': 'SquareMatrices', 'dimension': dim, 'symmetry': sym, 'traceless': bool(traceless),
                'determinant': det, 'complex': bool(cplx)}

    def check(self, case):
        dim, sym, traceless, det, cplx = case
        refusal = R.square_refusal(dim, sym, traceless, det, cplx)
        try:
            s = self.mg.SquareMatrices(dimension=dim, symmetry=sym, traceless=bool(traceless), determinant=det,
                                       complex=bool(cplx))
            got = None
        except self.ConfigError as e:
            got = ('ConfigError', str(e))
        except Exception as e:
            return Result('other-error', True,
                          viol('square:constructor-error-not-ConfigError', '%s: %s' % (type(e).__name__, e),
                               'ConfigError or a sampler', self.describe(case)), 1)
        if refusal and got is None:
            return Result('accepted-excluded', True,
                          viol('square:constructor-accepts-excluded:' + refusal,
                               'combination documented as impossible/unsupported (%s) was accepted' % refusal,
                               'ConfigError', self.describe(case)), 1)
        if not refusal and got is not None:
            return Result('refused-allowed', True,
                          viol('square:constructor-refuses-allowed', 'an allowed combination was refused: %s' % got[1],
                               'a sampler', self.describe(case)), 1)
        if got is None:
            eff = bool(cplx) or sym in ('hermitian', 'antihermitian')
            if bool(s.config['complex']) != eff or tuple(s.config['shape']) != (dim, dim):
                return Result('config-wrong', True,
                              viol('square:config-not-normalised', 'config complex=%r shape=%r' %
                                   (s.config['complex'], s.config['shape']), {'complex': eff, 'shape': [dim, dim]},
                                   self.describe(case)), 1)
        return Result('refused:' + refusal if refusal else 'accepted', det is not None, None, 1)


SQ_NORMS = ([1, 5], [10, 20], [3, 3])


class SquareSamplesFam(ArrayFam):
    sigbase = 'square'

    def __init__(self, tier):
        self.tier = tier
        self.bound = 2
        self.name = 'square_samples'
        self.rule = ('every SquareMatrices combination the documentation allows (214 of 288) x norm {[1,5],[10,20]%s} '
                     '(norm only where determinant != 1) x R rounds of array fills; all schedules with at most %d '
                     'non-default answers (4 array fills, every eigenvalue index, 5 norm answers; the rejection loop '
                     'makes the full product infinite); sample must be a MathArray (d,d), real / genuinely complex, '
                     'symmetric / antisymmetric / (anti)hermitian to 1e-12 relative, exactly diagonal, |trace| <= '
                     '1e-9*scale, |det-1| resp. |det| <= 1e-9*scale (pure-Python elimination and numpy), Frobenius '
                     'norm inside the interval unless determinant=1; non-trivial = some symmetry, traceless or '
                     'determinant option set, or non-default norm'
                     % (',[3,3]' if tier != 'quick' else '', self.bound))

    def rounds(self, tier):
        return 2 if tier == 'quick' else 8

    def cases(self, tier):
        norms = (0, 1) if tier == 'quick' else (0, 1, 2)
        for rnd in range(self.rounds(tier)):
            for (dim, sym, traceless, det, cplx) in sq_combos():
                if R.square_refusal(dim, sym, traceless, det, cplx):
                    continue
                for ni in (norms if det != 1 else (0,)):
                    yield [dim, sym, int(traceless), det, int(cplx), ni, rnd]

    def describe(self, case):
        dim, sym, traceless, det, cplx, ni, rnd = case
        return {'sampler': 'SquareMatrices', 'dimension': dim, 'symmetry': sym, 'traceless': bool(traceless),
                'determinant': det, 'complex': bool(cplx), 'norm': SQ_NORMS[ni], 'round': rnd}

    def build(self, case):
        dim, sym, traceless, det, cplx, ni, rnd = case
        return self.mg.SquareMatrices(dimension=dim, symmetry=sym, traceless=bool(traceless), determinant=det,
                                      complex=bool(cplx), norm=list(SQ_NORMS[ni]))

    def judge(self, case, sample):
        dim, sym, traceless, det, cplx, ni, rnd = case
        return R.square_problem(sample, self.MathArray, dim, sym, traceless, det, cplx, SQ_NORMS[ni])

    def refine(self, case, bad, ch):
        dim, sym, traceless, det, cplx, ni, rnd = case
        if bad[0] == 'det0':
            eff = bool(cplx) or sym in ('hermitian', 'antihermitian')
            arr = [c for (kind, _), c in zip(ch.points, ch.choices) if kind.startswith('array')]
            last = arr[-(2 if eff else 1):]
            if last and all(c == 3 for c in last):
                # all entries of the raw array within 1e-3 of each other: its determinant is below the
                # absolute 5e-13 short-cut although the matrix is not singular relative to its own size
                return ('det0:tiny-raw-matrix', bad[1] + ' [raw array entries all of size 1e-3 ("small" fill)]')
        return bad

    def nontrivial(self, case):
        dim, sym, traceless, det, cplx, ni, rnd = case
        return sym is not None or bool(traceless) or det is not None or ni != 0

    def outcome(self, case, stats):
        dim, sym, traceless, det, cplx, ni, rnd = case
        eff = bool(cplx) or sym in ('hermitian', 'antihermitian')
        base = (2 if eff else 1)
        retried = stats['maxpoints'] > base + 3
        return 'det=%s %s%s' % (det, 'traceless ' if traceless else '', 'retried' if retried else 'direct')


# =========================================================================== options left at their defaults, other spellings

PI = math.pi


def forms_table(mg):
    """
    (label, builder, descriptor of the DECLARED set written from the documentation: defaults RealInterval [1,5],
    IntegerRange [1,5], ComplexRectangle re [1,3] im [1,3], ComplexSector modulus [1,3] argument [0,pi/2], vectors
    shape (3,), matrices shape (2,2), norm [1,5], triangular None, dimension 2, sampler RealInterval([1,5]),
    symmetry None, traceless False, determinant None, complex False) -- or ('refused', why) where the documentation
    rules the configuration out.
    """
    RI, IR, CR, CS = mg.RealInterval, mg.IntegerRange, mg.ComplexRectangle, mg.ComplexSector
    RV, CV, RM, CM, RT, CT = (mg.RealVectors, mg.ComplexVectors, mg.RealMatrices, mg.ComplexMatrices,
                              mg.RealTensors, mg.ComplexTensors)
    IM, SM = mg.IdentityMatrixMultiples, mg.SquareMatrices
    t = [
        # ---- real intervals
        ('RealInterval()', lambda: RI(), ('real', [1, 5])),
        ('RealInterval({})', lambda: RI({}), ('real', [1, 5])),
        ('RealInterval(start=7)', lambda: RI(start=7), ('real', [5, 7])),
        ('RealInterval(start=-2)', lambda: RI(start=-2), ('real', [-2, 5])),
        ('RealInterval(stop=-2)', lambda: RI(stop=-2), ('real', [-2, 1])),
        ('RealInterval(stop=0)', lambda: RI(stop=0), ('real', [0, 1])),
        ('RealInterval(start=0)', lambda: RI(start=0), ('real', [0, 5])),
        ('RealInterval({start:7})', lambda: RI({'start': 7}), ('real', [5, 7])),
        ('RealInterval({stop:0.5})', lambda: RI({'stop': 0.5}), ('real', [0.5, 1])),
        ('RealInterval([2.5,-0.5])', lambda: RI([2.5, -0.5]), ('real', [-0.5, 2.5])),
        ('RealInterval([0.1,0.3])', lambda: RI([0.1, 0.3]), ('real', [0.1, 0.3])),
        ('RealInterval([1,1+1e-12])', lambda: RI([1, 1 + 1e-12]), ('real', [1, 1 + 1e-12])),
        ('RealInterval([1e15,1e15+2])', lambda: RI([1e15, 1e15 + 2]), ('real', [1e15, 1e15 + 2])),
        ('RealInterval([-1e-300,1e-300])', lambda: RI([-1e-300, 1e-300]), ('real', [-1e-300, 1e-300])),
        # PENDING-FINDING ('RealInterval([-1e308,1e308])': stop-start overflows, every draw is inf or nan) -- see FORMS_PENDING
        ('RealInterval([-1e308,1e308])', lambda: RI([-1e308, 1e308]), ('real', [-1e308, 1e308])),
        # ---- integer ranges
        ('IntegerRange()', lambda: IR(), ('int', [1, 5])),
        ('IntegerRange(start=7)', lambda: IR(start=7), ('int', [5, 7])),
        ('IntegerRange(stop=-2)', lambda: IR(stop=-2), ('int', [-2, 1])),
        ('IntegerRange(stop=0)', lambda: IR(stop=0), ('int', [0, 1])),
        ('IntegerRange(start=0)', lambda: IR(start=0), ('int', [0, 5])),
        ('IntegerRange({stop:3})', lambda: IR({'stop': 3}), ('int', [1, 3])),
        ('IntegerRange([-100,100])', lambda: IR([-100, 100]), ('int', [-100, 100])),
        ('IntegerRange([10**9,10**9+3])', lambda: IR([10 ** 9, 10 ** 9 + 3]), ('int', [10 ** 9, 10 ** 9 + 3])),
        # ---- complex rectangles
        ('ComplexRectangle()', lambda: CR(), ('rect', [1, 3], [1, 3])),
        ('ComplexRectangle(re=[4,1])', lambda: CR(re=[4, 1]), ('rect', [1, 4], [1, 3])),
        ('ComplexRectangle(im=[-5,0])', lambda: CR(im=[-5, 0]), ('rect', [1, 3], [-5, 0])),
        ('ComplexRectangle(re={4..1},im={-1..-2})',
         lambda: CR(re={'start': 4, 'stop': 1}, im={'start': -1, 'stop': -2}), ('rect', [1, 4], [-2, -1])),
        ('ComplexRectangle(re={start:7})', lambda: CR(re={'start': 7}), ('rect', [5, 7], [1, 3])),
        ('ComplexRectangle(im={stop:0})', lambda: CR(im={'stop': 0}), ('rect', [1, 3], [0, 1])),
        ('ComplexRectangle({re:[2,1]})', lambda: CR({'re': [2, 1]}), ('rect', [1, 2], [1, 3])),
        ('ComplexRectangle(re=[0,0])', lambda: CR(re=[0, 0]), ('rect', [0, 0], [1, 3])),
        # ---- complex sectors
        ('ComplexSector()', lambda: CS(), ('sector', [1, 3], [0, HALF_PI])),
        ('ComplexSector(modulus=[0,1])', lambda: CS(modulus=[0, 1]), ('sector', [0, 1], [0, HALF_PI])),
        ('ComplexSector(modulus=[5,4])', lambda: CS(modulus=[5, 4]), ('sector', [4, 5], [0, HALF_PI])),
        ('ComplexSector(argument=[-3,-1])', lambda: CS(argument=[-3, -1]), ('sector', [1, 3], [-3, -1])),
        ('ComplexSector(argument=[pi,pi])', lambda: CS(argument=[PI, PI]), ('sector', [1, 3], [PI, PI])),
        ('ComplexSector(argument=[0,0])', lambda: CS(argument=[0, 0]), ('sector', [1, 3], [0, 0])),
        ('ComplexSector(argument={4..1})', lambda: CS(argument={'start': 4, 'stop': 1}), ('sector', [1, 3], [1, 4])),
        ('ComplexSector(modulus={start:7})', lambda: CS(modulus={'start': 7}), ('sector', [5, 7], [0, HALF_PI])),
        ('ComplexSector(argument={start:2})', lambda: CS(argument={'start': 2}), ('sector', [1, 3], [2, 5])),
        ('ComplexSector({argument:[3pi/4,5pi/4]})', lambda: CS({'argument': [0.75 * PI, 1.25 * PI]}),
         ('sector', [1, 3], [0.75 * PI, 1.25 * PI])),
        # ---- vectors
        ('RealVectors()', lambda: RV(), ('array', (3,), False, [1, 5], None)),
        ('ComplexVectors()', lambda: CV(), ('array', (3,), True, [1, 5], None)),
        ('RealVectors(shape=2)', lambda: RV(shape=2), ('array', (2,), False, [1, 5], None)),
        ('ComplexVectors(shape=[4])', lambda: CV(shape=[4]), ('array', (4,), True, [1, 5], None)),
        ('RealVectors(norm=[10,20])', lambda: RV(norm=[10, 20]), ('array', (3,), False, [10, 20], None)),
        ('ComplexVectors(norm={20..10})', lambda: CV(norm={'start': 20, 'stop': 10}),
         ('array', (3,), True, [10, 20], None)),
        ('RealVectors(norm={start:7})', lambda: RV(norm={'start': 7}), ('array', (3,), False, [5, 7], None)),
        ('RealVectors(norm={stop:0.5})', lambda: RV(norm={'stop': 0.5}), ('array', (3,), False, [0.5, 1], None)),
        ('RealVectors(complex=False)', lambda: RV(complex=False), ('array', (3,), False, [1, 5], None)),
        ('ComplexVectors(complex=True)', lambda: CV(complex=True), ('array', (3,), True, [1, 5], None)),
        ('RealVectors(norm=[1e-9,2e-9])', lambda: RV(norm=[1e-9, 2e-9]), ('array', (3,), False, [1e-9, 2e-9], None)),
        ('ComplexVectors(norm=[1e9,2e9])', lambda: CV(norm=[1e9, 2e9]), ('array', (3,), True, [1e9, 2e9], None)),
        ('RealVectors({shape:2})', lambda: RV({'shape': 2}), ('array', (2,), False, [1, 5], None)),
        # ---- matrices
        ('RealMatrices()', lambda: RM(), ('array', (2, 2), False, [1, 5], None)),
        ('ComplexMatrices()', lambda: CM(), ('array', (2, 2), True, [1, 5], None)),
        ('RealMatrices(triangular=upper)', lambda: RM(triangular='upper'), ('array', (2, 2), False, [1, 5], 'upper')),
        ('ComplexMatrices(triangular=lower)', lambda: CM(triangular='lower'), ('array', (2, 2), True, [1, 5], 'lower')),
        ('RealMatrices(shape=(3,2))', lambda: RM(shape=(3, 2)), ('array', (3, 2), False, [1, 5], None)),
        ('ComplexMatrices(norm={start:7})', lambda: CM(norm={'start': 7}), ('array', (2, 2), True, [5, 7], None)),
        ('RealMatrices(triangular=None)', lambda: RM(triangular=None, complex=False), ('array', (2, 2), False, [1, 5], None)),
        # ---- tensors
        ('RealTensors(shape=(2,1,2))', lambda: RT(shape=(2, 1, 2)), ('array', (2, 1, 2), False, [1, 5], None)),
        ('ComplexTensors(shape=[1,2,2])', lambda: CT(shape=[1, 2, 2]), ('array', (1, 2, 2), True, [1, 5], None)),
        ('RealTensors(norm={20..10})', lambda: RT(shape=(2, 2, 2), norm={'start': 20, 'stop': 10}),
         ('array', (2, 2, 2), False, [10, 20], None)),
        # ---- identity multiples: 'complex' and 'norm' are documented as ignored
        ('IdentityMatrixMultiples()', lambda: IM(), ('identity', 2, ('real', [1, 5]))),
        ('IdentityMatrixMultiples(sampler=[3,1])', lambda: IM(sampler=[3, 1]), ('identity', 2, ('real', [1, 3]))),
        ('IdentityMatrixMultiples(dimension=3)', lambda: IM(dimension=3), ('identity', 3, ('real', [1, 5]))),
        ('IdentityMatrixMultiples(complex=True)', lambda: IM(complex=True), ('identity', 2, ('real', [1, 5]))),
        ('IdentityMatrixMultiples(norm=[10,20])', lambda: IM(norm=[10, 20]), ('identity', 2, ('real', [1, 5]))),
        ('IdentityMatrixMultiples(norm,complex,IntegerRange)',
         lambda: IM(norm=[10, 20], complex=True, dimension=3, sampler=IR([-1, 1])), ('identity', 3, ('int', [-1, 1]))),
        ('IdentityMatrixMultiples(sampler=ComplexRectangle())', lambda: IM(sampler=CR()),
         ('identity', 2, ('rect', [1, 3], [1, 3]))),
        ('IdentityMatrixMultiples(sampler=ComplexSector(),complex=False)', lambda: IM(sampler=CS(), complex=False),
         ('identity', 2, ('sector', [1, 3], [0, HALF_PI]))),
        ('IdentityMatrixMultiples(sampler=RealInterval())', lambda: IM(sampler=RI()), ('identity', 2, ('real', [1, 5]))),
        ('IdentityMatrixMultiples(sampler=IntegerRange(stop=0))', lambda: IM(sampler=IR(stop=0)),
         ('identity', 2, ('int', [0, 1]))),
        # ---- square matrices: one option given, all others left at their defaults
        ('SquareMatrices()', lambda: SM(), ('square', 2, None, False, None, False, [1, 5])),
        ('SquareMatrices(dimension=3)', lambda: SM(dimension=3), ('square', 3, None, False, None, False, [1, 5])),
        ('SquareMatrices(complex=True)', lambda: SM(complex=True), ('square', 2, None, False, None, True, [1, 5])),
        ('SquareMatrices(traceless=True)', lambda: SM(traceless=True), ('square', 2, None, True, None, False, [1, 5])),
        ('SquareMatrices(determinant=0)', lambda: SM(determinant=0), ('square', 2, None, False, 0, False, [1, 5])),
        ('SquareMatrices(determinant=1)', lambda: SM(determinant=1), ('square', 2, None, False, 1, False, [1, 5])),
        ('SquareMatrices(determinant=0.0)', lambda: SM(determinant=0.0, dimension=3),
         ('square', 3, None, False, 0, False, [1, 5])),
        ('SquareMatrices(determinant=1.0)', lambda: SM(determinant=1.0, dimension=3),
         ('square', 3, None, False, 1, False, [1, 5])),
        ('SquareMatrices(determinant=None)', lambda: SM(determinant=None, symmetry=None),
         ('square', 2, None, False, None, False, [1, 5])),
        ('SquareMatrices(norm=[20,10])', lambda: SM(norm=[20, 10]), ('square', 2, None, False, None, False, [10, 20])),
        ('SquareMatrices(norm={start:7},determinant=0)', lambda: SM(norm={'start': 7}, determinant=0),
         ('square', 2, None, False, 0, False, [5, 7])),
        ('SquareMatrices({dimension:3,traceless:True})', lambda: SM({'dimension': 3, 'traceless': True}),
         ('square', 3, None, True, None, False, [1, 5])),
    ]
    for sym in R.SYMMETRIES[1:]:
        t.append(('SquareMatrices(symmetry=%s)' % sym, (lambda sym=sym: SM(symmetry=sym)),
                  ('square', 2, sym, False, None, False, [1, 5])))
        t.append(('SquareMatrices(symmetry=%s,dimension=3,norm=[10,20])' % sym,
                  (lambda sym=sym: SM(symmetry=sym, dimension=3, norm=[10, 20])),
                  ('square', 3, sym, False, None, False, [10, 20])))
    # ---- documented restrictions: the constructor must refuse
    DS = mg.DiscreteSet
    t += [
        ('RealVectors(complex=True)', lambda: RV(complex=True), ('refused', 'RealVectors: complex is always False')),
        ('ComplexVectors(complex=False)', lambda: CV(complex=False), ('refused', 'ComplexVectors: complex is always True')),
        ('RealMatrices(complex=True)', lambda: RM(complex=True), ('refused', 'RealMatrices: complex is always False')),
        ('ComplexMatrices(complex=False)', lambda: CM(complex=False), ('refused', 'ComplexMatrices: complex is always True')),
        ('RealTensors(complex=True)', lambda: RT(shape=(2, 2, 2), complex=True), ('refused', 'RealTensors: complex is always False')),
        ('ComplexTensors(complex=False)', lambda: CT(shape=(2, 2, 2), complex=False), ('refused', 'ComplexTensors: complex is always True')),
        ('RealVectors(shape=(2,2))', lambda: RV(shape=(2, 2)), ('refused', 'vector shape must have length 1')),
        ('RealMatrices(shape=3)', lambda: RM(shape=3), ('refused', 'matrix shape must have length 2')),
        ('ComplexMatrices(shape=(2,2,2))', lambda: CM(shape=(2, 2, 2)), ('refused', 'matrix shape must have length 2')),
        ('RealTensors(shape=(2,2))', lambda: RT(shape=(2, 2)), ('refused', 'tensor shape needs at least 3 dimensions')),
        ('RealTensors()', lambda: RT(), ('refused', 'tensor shape is required')),
        ('RealVectors(shape=0)', lambda: RV(shape=0), ('refused', 'shape entries are positive integers')),
        ('RealMatrices(shape=(2,0))', lambda: RM(shape=(2, 0)), ('refused', 'shape entries are positive integers')),
        ('RealMatrices(triangular=diagonal)', lambda: RM(triangular='diagonal'), ('refused', 'triangular in None/upper/lower')),
        ('SquareMatrices(dimension=1)', lambda: SM(dimension=1), ('refused', 'dimension minimum 2')),
        ('IdentityMatrixMultiples(dimension=1)', lambda: IM(dimension=1), ('refused', 'dimension minimum 2')),
        ('SquareMatrices(determinant=2)', lambda: SM(determinant=2), ('refused', 'determinant in None/0/1')),
        ('SquareMatrices(determinant=-1)', lambda: SM(determinant=-1), ('refused', 'determinant in None/0/1')),
        ('SquareMatrices(symmetry=upper)', lambda: SM(symmetry='upper'), ('refused', 'unknown symmetry')),
        ('IdentityMatrixMultiples(sampler=DiscreteSet)', lambda: IM(sampler=DS((1, 2))), ('refused', 'sampler must be a scalar sampling set')),
        ('IdentityMatrixMultiples(sampler=(1,2))', lambda: IM(sampler=(1, 2)), ('refused', 'sampler must be a scalar sampling set')),
        ('IdentityMatrixMultiples(sampler=RealVectors)', lambda: IM(sampler=RV()), ('refused', 'sampler must be a scalar sampling set')),
        ('IntegerRange([1.5,3])', lambda: IR([1.5, 3]), ('refused', 'integer range needs integers')),
        ('RealInterval([1,2,3])', lambda: RI([1, 2, 3]), ('refused', 'interval needs exactly two bounds')),
        ('RealInterval([1])', lambda: RI([1]), ('refused', 'interval needs exactly two bounds')),
        ('RealInterval([1j,2])', lambda: RI([1j, 2]), ('refused', 'interval bounds are real')),
        ('DiscreteSet(())', lambda: DS(()), ('refused', 'non-empty tuple of values')),
        ('SpecificFunctions([])', lambda: mg.SpecificFunctions([]), ('refused', 'non-empty list of functions')),
        ('RandomFunction(input_dim=0)', lambda: mg.RandomFunction(input_dim=0), ('refused', 'positive dimensions')),
        ('RandomFunction(amplitude=0)', lambda: mg.RandomFunction(amplitude=0), ('refused', 'positive amplitude')),
        ('RandomFunction(amplitude=-1)', lambda: mg.RandomFunction(amplitude=-1), ('refused', 'positive amplitude')),
    ]
    return t


# rows whose failure on the unchanged library is a reported, undecided finding: skipped
FORMS_PENDING = ('RealInterval([-1e308,1e308])',)   # PENDING-FINDING


FORMS_ROWS = 126        # len(forms_table(mitxgraders)) - len(FORMS_PENDING); verified in setup


class FormsFam(SeededFamily):
    name = 'defaults_and_forms'
    rule = ('every sampler class built with options LEFT OUT (all of them, all but one), with partial start/stop '
            'dictionaries, dictionary instead of list bounds, reversed dictionaries, a positional config dictionary, '
            'explicitly passed default values, float spellings of the determinant, tiny / huge / rounding-distance '
            'bounds, and the "ignored" complex / norm flags of IdentityMatrixMultiples (%d rows); the declared set of '
            'each row is written down from the documented defaults.  Scalar rows: full product of the 8-answer menu '
            '(integers: every answer, and the set of draws must be the whole range); array rows: full product of 4 '
            'fills x 8 norm answers; SquareMatrices rows: all schedules with at most 2 non-default answers.  Rows the '
            'documentation rules out must be refused by the constructor.  non-trivial = always (each row pins a '
            'default or a spelling)' % FORMS_ROWS)

    def setup_more(self, tier):
        self.rows = forms_table(self.mg)
        self.by_label = dict((r[0], r) for r in self.rows)
        if len(self.by_label) != len(self.rows) or len(self.rows) - len(FORMS_PENDING) != FORMS_ROWS:
            raise RuntimeError('forms_table: duplicate label or FORMS_ROWS out of date (%d rows)' % len(self.rows))

    def cases(self, tier):
        import mitxgraders
        for r in forms_table(mitxgraders):
            if r[0] in FORMS_PENDING:
                continue
            yield r[0]

    def describe(self, case):
        return {'construction': case}

    def check(self, case):
        label, build, desc = self.by_label[case]
        sig = 'forms:' + label.split('(')[0]
        try:
            s = build()
        except Exception as e:
            if desc[0] == 'refused':
                return Result('refused', True, None, 1)
            return Result('constructor-raised', True,
                          viol(sig + ':constructor-raises', '%s raised %s: %s' % (label, type(e).__name__, str(e)[:200]),
                               'a sampler for ' + repr(desc), label), 1)
        if desc[0] == 'refused':
            return Result('accepted-excluded', True,
                          viol(sig + ':constructor-accepts-excluded', '%s was accepted (%s)' % (label, desc[1]),
                               'an error from the constructor', label), 1)
        body = guarded(lambda ch: s.gen_sample())
        if desc[0] == 'square':
            it = explore(body, bound=2, seed=self.chooser_seed())
        else:
            it = explore_all(body, self.chooser_seed(), scalar_menu=EXT_MENU)
        n = 0
        seen = set()
        for ch, out in it:
            n += 1
            obs = {'construction': label, 'declared': repr(desc), 'sched': sched(ch), 'seed': self.seed}
            if out[0] != 'ok':
                return Result('raised', True, viol(sig + ':gen_sample-raises', '%s: %s' % out[1:3], 'a sample', obs), n)
            bad = R.declared_problem(desc, out[1], self.MathArray)
            if bad:
                obs['sample'] = repr(np.asarray(out[1]).tolist())[:400]
                return Result(bad[0], True, viol('%s:%s' % (sig, bad[0]), bad[1], 'member of the declared set', obs), n)
            if desc[0] == 'int':
                seen.add(int(out[1]))
            elif desc[0] == 'identity' and desc[2][0] == 'int':
                seen.add(int(R.plain(out[1])[0, 0]))
        idesc = desc if desc[0] == 'int' else (desc[2] if desc[0] == 'identity' and desc[2][0] == 'int' else None)
        if idesc is not None:
            lo, hi = R.ordered(idesc[1])
            want = set(range(lo, hi + 1))
            if seen != want:
                return Result('unattainable', True,
                              viol(sig + ':member-unattainable', 'over all answers of the integer RNG the members %r are '
                                   'never produced' % sorted(want - seen)[:10], sorted(want)[:20], sorted(seen)[:20]), n)
        return Result(desc[0], True, None, n)


# =========================================================================== random functions: defaults, other term counts

RF_DEFAULTS = dict(input_dim=1, output_dim=1, num_terms=3, center=0, amplitude=10, complex=False)
RF_FULL = dict(input_dim=2, output_dim=2, num_terms=2, center=-1.5, amplitude=0.5, complex=True)


def rf_extra_rows(tier):
    """(label, keyword arguments given); everything not given is declared by the documented defaults"""
    rows = [('all defaults', {})]
    for k, v in (('input_dim', 2), ('input_dim', 3), ('output_dim', 2), ('num_terms', 1), ('num_terms', 2), ('num_terms', 5),
                 ('num_terms', 8), ('center', 1.5), ('center', -7.25), ('amplitude', 0.5), ('amplitude', 3),
                 ('amplitude', 1e-6), ('amplitude', 1e6), ('complex', True), ('complex', False)):
        rows.append(('only %s=%r' % (k, v), {k: v}))
    for k in sorted(RF_FULL):
        rows.append(('all but %s' % k, dict((a, b) for a, b in RF_FULL.items() if a != k)))
    for num_terms in (2, 5):
        for input_dim in ((1, 2) if tier == 'quick' else (1, 2, 3)):
            for output_dim in (1, 3):
                for cplx in (False, True):
                    rows.append(('terms=%d in=%d out=%d complex=%s' % (num_terms, input_dim, output_dim, cplx),
                                 dict(num_terms=num_terms, input_dim=input_dim, output_dim=output_dim, complex=cplx,
                                      center=1.5, amplitude=0.5)))
    rows += [('center=1e3 amplitude=0.5', dict(center=1e3, amplitude=0.5, input_dim=2)),
             ('complex center=3j', dict(center=3j, complex=True, num_terms=2)),
             ('amplitude=1e-6 complex', dict(amplitude=1e-6, complex=True, input_dim=2, num_terms=2, center=-2 + 1j))]
    if tier != 'quick':
        for num_terms in (4, 7):
            for input_dim in (1, 2, 3):
                for cplx in (False, True):
                    rows.append(('terms=%d in=%d out=2 complex=%s' % (num_terms, input_dim, cplx),
                                 dict(num_terms=num_terms, input_dim=input_dim, output_dim=2, complex=cplx)))
        rows += [('in=5 out=4 terms=5 complex', dict(input_dim=5, output_dim=4, num_terms=5, amplitude=0.5, complex=True)),
                 ('in=5 out=1 terms=1 complex', dict(input_dim=5, num_terms=1, complex=True)),
                 ('in=1 out=6 terms=2', dict(output_dim=6, num_terms=2, center=1.5))]
    return rows


class RandomFunctionExtraFam(RandomFunctionFam):
    """same judgement as RandomFunctionFam; the configuration comes from a table of keyword arguments"""
    def __init__(self, tier):
        self.tier = tier
        self.cplx = None
        self.name = 'random_function_defaults_terms'
        self.rule = ('RandomFunction built from %d keyword tables: no option given; exactly one option given; all but one '
                     'given; num_terms in {2,5,8%s} (the other families use 1 and the default 3) x input_dim x output_dim x '
                     'complex; amplitudes 1e-6, 3, 1e6; centers -7.25, 1e3, 3j%s.  Whatever is left out is declared by the '
                     'documented defaults (input_dim 1, output_dim 1, num_terms 3, center 0, amplitude 10, real).  '
                     'Same menus, evaluations and judgements as random_function_real/complex.  non-trivial = some '
                     'explored schedule reached |f-center| > amplitude/2'
                     % (len(rf_extra_rows(tier)), ',4,7' if tier != 'quick' else '',
                        '; input_dim 5, output_dim 4 and 6' if tier != 'quick' else ''))

    def setup_more(self, tier):
        self.rows = dict(rf_extra_rows(tier))

    def cases(self, tier):
        for label, _ in rf_extra_rows(tier):
            yield label

    def config_of(self, case):
        if not hasattr(self, 'rows'):
            self.rows = dict(rf_extra_rows('thorough'))
        given = dict(self.rows[case])
        cfg = dict(RF_DEFAULTS)
        cfg.update(given)
        return given, cfg

    def describe(self, case):
        given, cfg = self.config_of(case)
        d = dict((k, repr(v)) for k, v in cfg.items())
        d.update({'sampler': 'RandomFunction', 'given': sorted(given)})
        return d


# =========================================================================== sizes just beyond the other families' bounds

BEYOND_SHAPES = [(5,), (6,), (9,), (4, 4), (1, 4), (4, 1), (5, 2), (2, 5), (4, 3), (2, 1, 2, 1, 2), (5, 1, 1)]
BEYOND_NORMS = [[10, 20], [20, 10], {'start': 0.5, 'stop': 0.25}]


class BeyondFam(ArrayFam):
    name = 'array_sizes_beyond'
    sigbase = 'beyond'
    scalar_menu = SCALAR_MENU
    rule = ('vectors with 5, 6, 9 components, matrices 4x4, 1x4, 4x1, 5x2, 2x5, 4x3 (x triangular None/upper/lower), '
            'tensors with 5 axes and 5x1x1; real and complex; norm [10,20], reversed [20,10] (thorough), and the reversed '
            'dictionary {start: 0.5, stop: 0.25}; full product of 4 fills per array draw x 5 norm answers; same judgement as '
            'vectors / matrices / tensors; non-trivial = always (non-default norm)')

    def cases(self, tier):
        for rnd in range(1 if tier == 'quick' else 4):
            for cplx in (0, 1):
                for si, shape in enumerate(BEYOND_SHAPES):
                    for ti in (range(3) if len(shape) == 2 else (0,)):
                        for ni in ((0, 2) if tier == 'quick' else range(len(BEYOND_NORMS))):
                            yield (cplx, si, ti, ni, rnd)

    def describe(self, case):
        cplx, si, ti, ni, rnd = case
        kind = {1: 'Vectors', 2: 'Matrices'}.get(len(BEYOND_SHAPES[si]), 'Tensors')
        return {'sampler': ('Complex' if cplx else 'Real') + kind, 'shape': list(BEYOND_SHAPES[si]),
                'triangular': TRI[ti], 'norm': BEYOND_NORMS[ni], 'round': rnd}

    def build(self, case):
        cplx, si, ti, ni, rnd = case
        shape = BEYOND_SHAPES[si]
        kind = {1: 'Vectors', 2: 'Matrices'}.get(len(shape), 'Tensors')
        cls = getattr(self.mg, ('Complex' if cplx else 'Real') + kind)
        norm = BEYOND_NORMS[ni]
        kw = dict(shape=tuple(shape), norm=dict(norm) if isinstance(norm, dict) else list(norm))
        if kind == 'Matrices':
            kw['triangular'] = TRI[ti]
        return cls(**kw)

    def judge(self, case, sample):
        cplx, si, ti, ni, rnd = case
        norm = BEYOND_NORMS[ni]
        pair = [norm['start'], norm['stop']] if isinstance(norm, dict) else norm
        return judge_general(self, sample, BEYOND_SHAPES[si], bool(cplx), pair, TRI[ti])

    def outcome(self, case, stats):
        return '%s %d axes %s' % ('complex' if case[0] else 'real', len(BEYOND_SHAPES[case[1]]), TRI[case[2]])


SQ_BEYOND_DIMS = (6, 7, 10, 11)


class SquareConstructorBeyondFam(SquareConstructorFam):
    name = 'square_constructor_beyond'
    rule = ('the same refusal table as square_constructor for dimensions %r (even / odd beyond the sampled range): '
            '72 combinations each; non-trivial = determinant requested' % (SQ_BEYOND_DIMS,))

    def cases(self, tier):
        for dim in SQ_BEYOND_DIMS:
            for c in sq_combos():
                if c[0] == SQ_DIMS[0]:
                    yield [dim, c[1], c[2], c[3], c[4]]


class SquareSamplesBeyondFam(SquareSamplesFam):
    def __init__(self, tier):
        SquareSamplesFam.__init__(self, tier)
        self.name = 'square_samples_beyond'
        self.bound = 1 if tier == 'quick' else 2
        self.rule = ('SquareMatrices of dimension %s: every allowed combination %sx norm [10,20] (norm only where '
                     'determinant != 1), one round of fills, all schedules with at most %d non-default answers; same '
                     'judgement as square_samples'
                     % ('6 and 7', 'with a determinant or traceless option ' if tier == 'quick' else '', self.bound))

    def cases(self, tier):
        for (d0, sym, traceless, det, cplx) in sq_combos():
            if d0 != SQ_DIMS[0]:
                continue
            for dim in (6, 7):
                if R.square_refusal(dim, sym, traceless, det, cplx):
                    continue
                if tier == 'quick' and det is None and not traceless:
                    continue
                yield [dim, sym, int(traceless), det, int(cplx), (1 if det != 1 else 0), 0]


# =========================================================================== several samplers alive at the same time

def interleave_table(mg):
    """(label, [(builder, descriptor), ...]) -- objects are built first, then drawn from in turn, twice round"""
    RI, IR, CR, CS = mg.RealInterval, mg.IntegerRange, mg.ComplexRectangle, mg.ComplexSector
    shared_pair = [4, 1]
    shared_dict = {'start': 20, 'stop': 10}
    inner = RI([-3, -1])
    return [
        ('two RealIntervals', [(lambda: RI([1, 5]), ('real', [1, 5])), (lambda: RI([-3, -1]), ('real', [-3, -1])),
                               (lambda: RI(), ('real', [1, 5]))]),
        ('two IntegerRanges', [(lambda: IR([5, 1]), ('int', [1, 5])), (lambda: IR([-3, -1]), ('int', [-3, -1])),
                               (lambda: IR(), ('int', [1, 5]))]),
        ('RealInterval and IntegerRange, same bounds', [(lambda: RI([0, 1]), ('real', [0, 1])),
                                                        (lambda: IR([0, 1]), ('int', [0, 1]))]),
        ('two ComplexRectangles', [(lambda: CR(re=[1, 5], im=[-3, -1]), ('rect', [1, 5], [-3, -1])),
                                   (lambda: CR(re=[-3, -1], im=[2, 2]), ('rect', [-3, -1], [2, 2])),
                                   (lambda: CR(), ('rect', [1, 3], [1, 3]))]),
        ('two ComplexSectors', [(lambda: CS(modulus=[1, 5], argument=[-3, -1]), ('sector', [1, 5], [-3, -1])),
                                (lambda: CS(modulus=[2, 2], argument=[0, HALF_PI]), ('sector', [2, 2], [0, HALF_PI])),
                                (lambda: CS(), ('sector', [1, 3], [0, HALF_PI]))]),
        ('one list object for re and im, and for a second rectangle',
         [(lambda: CR(re=shared_pair, im=shared_pair), ('rect', [1, 4], [1, 4])),
          (lambda: CR(re=shared_pair), ('rect', [1, 4], [1, 3])),
          (lambda: RI(shared_pair), ('real', [1, 4]))]),
        ('one norm dictionary for three array samplers',
         [(lambda: mg.RealVectors(norm=shared_dict), ('array', (3,), False, [10, 20], None)),
          (lambda: mg.ComplexMatrices(norm=shared_dict), ('array', (2, 2), True, [10, 20], None)),
          (lambda: mg.SquareMatrices(norm=shared_dict, symmetry='symmetric'),
           ('square', 2, 'symmetric', False, None, False, [10, 20]))]),
        ('vectors with different norms and shapes',
         [(lambda: mg.RealVectors(shape=2, norm=[10, 20]), ('array', (2,), False, [10, 20], None)),
          (lambda: mg.RealVectors(), ('array', (3,), False, [1, 5], None)),
          (lambda: mg.ComplexVectors(shape=4, norm=[3, 3]), ('array', (4,), True, [3, 3], None))]),
        ('matrices with different triangular options',
         [(lambda: mg.RealMatrices(triangular='upper'), ('array', (2, 2), False, [1, 5], 'upper')),
          (lambda: mg.RealMatrices(triangular='lower', shape=(3, 3), norm=[10, 20]),
           ('array', (3, 3), False, [10, 20], 'lower')),
          (lambda: mg.RealMatrices(), ('array', (2, 2), False, [1, 5], None))]),
        ('square matrices with different options',
         [(lambda: mg.SquareMatrices(symmetry='hermitian', determinant=0, dimension=3, norm=[10, 20]),
           ('square', 3, 'hermitian', False, 0, False, [10, 20])),
          (lambda: mg.SquareMatrices(), ('square', 2, None, False, None, False, [1, 5])),
          (lambda: mg.SquareMatrices(symmetry='antisymmetric', traceless=True, dimension=4, determinant=1),
           ('square', 4, 'antisymmetric', True, 1, False, [1, 5])),
          (lambda: mg.SquareMatrices(symmetry='diagonal', complex=True), ('square', 2, 'diagonal', False, None, True, [1, 5]))]),
        ('identity multiples: default sampler, own sampler, shared inner sampler',
         [(lambda: mg.IdentityMatrixMultiples(), ('identity', 2, ('real', [1, 5]))),
          (lambda: mg.IdentityMatrixMultiples(sampler=inner, dimension=3), ('identity', 3, ('real', [-3, -1]))),
          (lambda: mg.IdentityMatrixMultiples(sampler=inner), ('identity', 2, ('real', [-3, -1]))),
          (lambda: mg.IdentityMatrixMultiples(sampler=[10, 20]), ('identity', 2, ('real', [10, 20]))),
          (lambda: inner, ('real', [-3, -1])),
          (lambda: mg.IdentityMatrixMultiples(dimension=4), ('identity', 4, ('real', [1, 5])))]),
        ('discrete sets', [(lambda: mg.DiscreteSet((1, 3, 5)), ('member', [1, 3, 5])),
                           (lambda: mg.DiscreteSet((2, 4)), ('member', [2, 4])),
                           (lambda: mg.DiscreteSet(0), ('member', [0]))]),
    ]


class InterleaveFam(SeededFamily):
    name = 'interleaved_samplers'

    def __init__(self, tier):
        self.bound = 1 if tier == 'quick' else 2
        self.rule = self.rule_text % self.bound

    rule_text = ('12 groups of 2-6 sampler objects (same class with different options, a default-configured one among them, '
            'one list / dictionary / inner sampler object handed to several constructors) are all built first and then '
            'drawn from in turn, twice round; all schedules with at most %d non-default RNG answers; every draw must '
            'lie in the set declared for ITS sampler, and the shared configuration objects must be unchanged; '
            'non-trivial = always (a sampler that picks up another one\'s options is distinguishable)')

    def setup_more(self, tier):
        self.rows = None

    def cases(self, tier):
        import mitxgraders
        for label, _ in interleave_table(mitxgraders):
            yield label

    def describe(self, case):
        return {'group': case}

    def check(self, case):
        group = dict(interleave_table(self.mg))[case]
        try:
            objs = [b() for b, _ in group]
        except Exception as e:
            return Result('constructor-raised', True,
                          viol('interleave:constructor-raises', '%s: %s' % (type(e).__name__, str(e)[:200]), 'samplers', case), 1)
        descs = [d for _, d in group]
        snapshot = repr([getattr(o, 'config', None) for o in objs])

        def body(ch):
            out = []
            for rnd in range(2):
                for k, o in enumerate(objs):
                    out.append((k, o.gen_sample()))
            return out

        n = 0
        for ch, out in explore(guarded(body), bound=self.bound, seed=self.chooser_seed(), scalar_menu=EXT_MENU):
            n += 1
            obs = {'group': case, 'sched': sched(ch), 'seed': self.seed}
            if out[0] != 'ok':
                return Result('raised', True, viol('interleave:gen_sample-raises', '%s: %s' % out[1:3], 'samples', obs), n)
            for pos, (k, sample) in enumerate(out[1]):
                bad = R.declared_problem(descs[k], sample, self.MathArray)
                if bad:
                    obs.update({'draw': pos, 'sampler': k, 'declared': repr(descs[k]),
                                'sample': repr(np.asarray(sample).tolist())[:300]})
                    return Result(bad[0], True, viol('interleave:%s' % bad[0], 'sampler #%d of the group: %s' % (k, bad[1]),
                                                     'member of its own declared set', obs), n)
        after = repr([getattr(o, 'config', None) for o in objs])
        if after != snapshot:
            return Result('config-changed', True,
                          viol('interleave:configuration-changed-by-sampling', 'a sampler configuration changed while sampling',
                               snapshot[:500], after[:500]), n)
        return Result('%d samplers' % len(objs), True, None, n)


# =========================================================================== the same sets declared through a grader

def grader_table(mg):
    """
    (label, grader builder, expression to sample for, {variable: descriptor}, {function name: allowed functions or 'rf'})
    -- sampling sets declared in the short forms a grader accepts (list = interval, tuple / number = discrete set,
    nothing = RealInterval [1,5]; list of functions = SpecificFunctions)
    """
    FG, MGr = mg.FormulaGrader, mg.MatrixGrader
    sin, cos = np.sin, np.cos
    rows = [
        ('FormulaGrader: lists, tuple, number, default',
         lambda: FG(answers='x+y+z+w', variables=['x', 'y', 'z', 'w', 'u'],
                    sample_from={'x': [5, 1], 'y': (2, 3), 'z': 7, 'u': [-3, -1]}, samples=2),
         'x+y+z+w+u', {'x': ('real', [1, 5]), 'y': ('member', [2, 3]), 'z': ('member', [7]), 'w': ('real', [1, 5]),
                       'u': ('real', [-3, -1])}, {}),
        ('FormulaGrader: no sample_from at all',
         lambda: FG(answers='a+b', variables=['a', 'b'], samples=3), 'a+b',
         {'a': ('real', [1, 5]), 'b': ('real', [1, 5])}, {}),
        ('FormulaGrader: falsy members and zero-width interval',
         lambda: FG(answers='a+b+c', variables=['a', 'b', 'c'], sample_from={'a': 0, 'b': (0, 0.0), 'c': [0, 0]}, samples=2),
         'a+b+c', {'a': ('member', [0]), 'b': ('member', [0]), 'c': ('real', [0, 0])}, {}),
        ('FormulaGrader: sampler objects next to short forms',
         lambda: FG(answers='a+b+c+d', variables=['a', 'b', 'c', 'd'],
                    sample_from={'a': mg.IntegerRange([3, -3]), 'b': mg.ComplexRectangle(re=[4, 1], im=[0, 0]),
                                 'c': mg.ComplexSector(modulus=[2, 2]), 'd': [10, 20]}, samples=2),
         'a+b+c+d', {'a': ('int', [-3, 3]), 'b': ('rect', [1, 4], [0, 0]), 'c': ('sector', [2, 2], [0, HALF_PI]),
                     'd': ('real', [10, 20])}, {}),
        ('FormulaGrader: numbered variable with a list, plain default',
         lambda: FG(answers='a_{1}+a_{2}+b', variables=['b'], numbered_vars=['a'], sample_from={'a': [-3, -1]}, samples=2),
         'a_{1}+a_{2}+b', {'a_{1}': ('real', [-3, -1]), 'a_{2}': ('real', [-3, -1]), 'b': ('real', [1, 5])}, {}),
        ('FormulaGrader: function list and random function',
         lambda: FG(answers='f(x)+g(x)+h(x)', variables=['x'], samples=2,
                    user_functions={'f': [sin, cos], 'g': mg.RandomFunction(center=1.5, amplitude=0.5), 'h': [_f_square]}),
         'f(x)+g(x)+h(x)', {'x': ('real', [1, 5])}, {'f': [sin, cos], 'g': ('rf', 1.5, 0.5), 'h': [_f_square]}),
        ('MatrixGrader: array samplers and defaults',
         lambda: MGr(answers='A*v+c*v', variables=['A', 'v', 'c', 'B'], samples=2,
                     sample_from={'A': mg.RealMatrices(triangular='upper'), 'v': mg.ComplexVectors(shape=2, norm=[10, 20]),
                                  'B': mg.SquareMatrices(symmetry='antisymmetric', dimension=3)}),
         'A*v+c*v+trans(B)', {'A': ('array', (2, 2), False, [1, 5], 'upper'), 'v': ('array', (2,), True, [10, 20], None),
                              'c': ('real', [1, 5]), 'B': ('square', 3, 'antisymmetric', False, None, False, [1, 5])}, {}),
        ('MatrixGrader: identity multiples with list sampler',
         lambda: MGr(answers='I*v', variables=['I', 'v'], samples=2,
                     sample_from={'I': mg.IdentityMatrixMultiples(dimension=3, sampler=[3, 1]), 'v': mg.RealVectors()}),
         'I*v', {'I': ('identity', 3, ('real', [1, 3])), 'v': ('array', (3,), False, [1, 5], None)}, {}),
    ]
    return rows


class ViaGraderFam(SeededFamily):
    name = 'declared_through_grader'

    def __init__(self, tier):
        self.bound = 1 if tier == 'quick' else 2
        self.rule = self.rule_text % self.bound

    rule_text = ('8 graders (FormulaGrader, MatrixGrader) whose sample_from / user_functions use the short forms (list = '
            'interval, tuple or single number = discrete set, variable not mentioned = RealInterval [1,5], list of '
            'functions = function list) next to sampler objects; the draws are observed in the dictionaries returned by '
            'gen_var_and_func_samples (2-3 samples per call); all schedules with at most %d non-default RNG answers; '
            'every value must lie in the set its declaration describes, every sampled function must be a listed one '
            '(random function: |g(x)-center| <= amplitude on 3 points); non-trivial = always')

    def cases(self, tier):
        import mitxgraders
        for r in grader_table(mitxgraders):
            yield r[0]

    def describe(self, case):
        return {'grader': case}

    def check(self, case):
        row = [r for r in grader_table(self.mg) if r[0] == case][0]
        label, build, expr, vdesc, fdesc = row
        try:
            g = build()
        except Exception as e:
            return Result('constructor-raised', True,
                          viol('via_grader:constructor-raises', '%s: %s' % (type(e).__name__, str(e)[:300]), 'a grader', case), 1)
        n = 0
        for ch, out in explore(guarded(lambda ch: g.gen_var_and_func_samples(expr)), bound=self.bound,
                               seed=self.chooser_seed(), scalar_menu=EXT_MENU):
            n += 1
            obs = {'grader': case, 'sched': sched(ch), 'seed': self.seed}
            if out[0] != 'ok':
                return Result('raised', True, viol('via_grader:sampling-raises', '%s: %s' % out[1:3], 'samples', obs), n)
            var_samples, func_samples = out[1]
            for k, d in enumerate(var_samples):
                for name, desc in sorted(vdesc.items()):
                    if name not in d:
                        return Result('missing', True, viol('via_grader:variable-missing', 'no value for %s in sample %d' % (name, k),
                                                            name, obs), n)
                    bad = R.declared_problem(desc, d[name], self.MathArray)
                    if bad:
                        obs.update({'variable': name, 'sample#': k, 'declared': repr(desc),
                                    'value': repr(np.asarray(d[name]).tolist())[:300]})
                        return Result(bad[0], True, viol('via_grader:%s' % bad[0], 'variable %s: %s' % (name, bad[1]),
                                                         'member of the declared set', obs), n)
            for k, d in enumerate(func_samples):
                for name, allowed in sorted(fdesc.items()):
                    f = d.get(name)
                    if isinstance(allowed, list):
                        if not any(f is a for a in allowed):
                            obs.update({'function': name, 'sample#': k})
                            return Result('not-listed', True, viol('via_grader:function-not-listed',
                                                                   'sampled function %r for %s is not a listed one' % (f, name),
                                                                   repr(allowed), obs), n)
                    else:
                        _, center, amplitude = allowed
                        vals = [f(x) for x in GRID_VALUES]
                        m = max(abs(v - center) for v in vals)
                        if not (m <= amplitude * (1 + 1e-9)):
                            obs.update({'function': name, 'sample#': k, 'max |g-center|': m})
                            return Result('exceeds', True, viol('via_grader:random-function-exceeds-amplitude',
                                                                '|g(x)-center| = %r > %r' % (m, amplitude), '<= %r' % amplitude, obs), n)
        return Result(label.split(':')[0], True, None, n)


def families(tier):
    return [
        RandomFunctionExtraFam(tier),       # first: its largest cases then overlap with the other families
        RealIntervalFam(),
        IntegerRangeFam(),
        ComplexRectangleFam(),
        ComplexSectorFam(),
        DiscreteSetFam(),
        RandomFunctionFam(False, tier),
        RandomFunctionFam(True, tier),
        VectorsFam(),
        MatricesFam(),
        TensorsFam(),
        IdentityFam(),
        SquareConstructorFam(),
        SquareSamplesFam(tier),
        FormsFam(),
        BeyondFam(),
        SquareConstructorBeyondFam(),
        SquareSamplesBeyondFam(tier),
        InterleaveFam(tier),
        ViaGraderFam(tier),
    ]
