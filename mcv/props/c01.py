"""
C01 -- every grader call returns a well-formed, self-consistent edX result.

ENUM: a finite configuration grammar per grader family (answer alternatives with partial credit,
messages, pinned ok, tuple-valued expect; wrong_msg; comparers; attempt-based credit and its
message flag; partial_credit; ordered; debug) x an input alphabet per family (a match for every
alternative, near misses, the empty string, unicode garbage; for lists every tuple of the right
length) x attempt numbers.  Every call that returns is checked against the structural invariants
of the statement (and, without debug, that no message quotes a stored answer the student did not type); calls that raise
are C02's business and only counted.

Further families: positional correspondence of entries and inputs (flat, interleaved groupings, nested lists); call
histories of a debug=False grader shared with a debug=True parent, including parent calls that raise; item graders
without configured answers called with the expect attribute edX passes (answers inferred, re-inferred, kept).
"""
import itertools
import numbers
import numpy as np
from ..core import Family, Result, viol, HarnessError
from ..fixtures import TableGrader
from .. import chooser

from mitxgraders import (StringGrader, FormulaGrader, NumericalGrader, MatrixGrader, SingleListGrader, ListGrader,
                         IntervalGrader, SumGrader, LinearCredit, GeometricCredit, ReciprocalCredit,
                         MatrixEntryComparer, LinearComparer)

PROPERTY = 'C01'
RULE = ('configuration grammar x input alphabet x attempts per grader family, all combinations; a case is one '
        'configuration, all its inputs x attempts are executed; non-trivial = at least two different result shapes '
        '(grades / ok values) occur among its calls')
EXPLANATION = 'states = distinct configurations; transitions = real grader calls (one per input x attempt)'
ASSUMPTIONS = ['calls that raise are not judged here (C02)',
               'stored answers in messages: judged for the kinds whose answers are distinctive strings (not the bare digits of the '
               'Numerical kinds); an answer the student typed himself may be echoed',
               'an entry that may have matched an alternative with pinned ok is only required to have ok in {True, False, "partial"}',
               'an ok pinned on an answer whose grade_decimal is not 1 is no pin: the ItemGrader documentation says it is ignored, '
               'so such an entry must be self-consistent like any other',
               'Sum graders return the single-entry form for their list of boxes; both forms are accepted for them',
               'debug markers: the fixed strings the debug log is made of ("MITx Grading Library Version", ...)']

DEBUG_MARKERS = ['MITx Grading Library Version', 'Running on edX using python', 'Student Response', 'Expect value inferred',
                 'Evaluation Data for Sample Number', 'Comparison Data for All', 'Attempt number', 'Maximum credit is',
                 'Summation Data for Sample', 'Integration Data for Sample', 'Debug Info', 'Using modified defaults',
                 'Functions available during evaluation', 'Comparer Function:']

ATTEMPTS_T = ['absent', 1, 2, 7, 0, -3]
ATTEMPTS_Q = ['absent', 1, 3, 0]


def credit_options(tier):
    opts = [('none', None), ('linear', LinearCredit()), ('geometric', GeometricCredit(factor=0.5)),
            ('const0', lambda n: 0), ('third', lambda n: 0.33333)]
    if tier == 'thorough':
        opts += [('const1', lambda n: 1), ('reciprocal', ReciprocalCredit()),
                 ('linear_min', LinearCredit(decrease_credit_after=1, minimum_credit=0.5, decrease_credit_steps=2))]
    return opts


def entry_problem(e, debug, pinned_possible, where):
    if not isinstance(e, dict):
        return 'entry-not-a-dict', '%s: %r' % (where, e)
    if sorted(e.keys()) != ['grade_decimal', 'msg', 'ok']:
        return 'entry-keys', '%s: keys %r' % (where, sorted(e.keys()))
    g = e['grade_decimal']
    if isinstance(g, bool) or not isinstance(g, numbers.Real):
        return 'grade-not-a-number', '%s: grade_decimal %r (%s)' % (where, g, type(g).__name__)
    if not (0 <= g <= 1) or g != g:
        return 'grade-out-of-range', '%s: grade_decimal %r' % (where, g)
    if not isinstance(e['msg'], str):
        return 'msg-not-a-string', '%s: msg %r' % (where, e['msg'])
    ok = e['ok']
    if not (ok is True or ok is False or ok == 'partial') or (isinstance(ok, str) and ok != 'partial'):
        return 'ok-not-in-domain', '%s: ok %r' % (where, ok)
    expect_ok = True if g == 1 else (False if g == 0 else 'partial')
    if ok != expect_ok or (ok is True) != (expect_ok is True):
        if not (pinned_possible and g == 1):
            return 'ok-inconsistent-with-grade', '%s: ok %r with grade_decimal %r' % (where, ok, g)
    if not debug:
        for mk in DEBUG_MARKERS:
            if mk in e['msg']:
                return 'debug-output-without-debug', '%s: msg contains %r' % (where, mk)
    return None


def result_problem(res, n_inputs, debug, pinned_possible, allow_single_for_list=False, entry_debug=None):
    """n_inputs None: single input; entry_debug: whether the graders producing the entries were configured with debug"""
    if entry_debug is None:
        entry_debug = debug
    if not isinstance(res, dict):
        return 'result-not-a-dict', repr(res)
    if n_inputs is None or (allow_single_for_list and 'input_list' not in res):
        return entry_problem(res, debug, pinned_possible, 'result')
    if sorted(res.keys()) != ['input_list', 'overall_message']:
        return 'list-result-keys', 'keys %r' % sorted(res.keys())
    if not isinstance(res['overall_message'], str):
        return 'overall-message-not-a-string', repr(res['overall_message'])
    if not debug:
        for mk in DEBUG_MARKERS:
            if mk in res['overall_message']:
                return 'debug-output-without-debug', 'overall_message contains %r' % mk
    if not isinstance(res['input_list'], list) or len(res['input_list']) != n_inputs:
        return 'entry-count', 'expected %d entries, got %r' % (n_inputs, res['input_list'])
    for i, e in enumerate(res['input_list']):
        p = entry_problem(e, entry_debug, pinned_possible, 'entry %d' % i)
        if p:
            return p
    return None


def stored_answer_leak(res, inp, secrets, skip_entries=False):
    """'the author's stored answers appear in messages only when debug=True': a stored answer that the student did not type
    must not be quoted by any message of a debug=False grader.  Returns the first (secret, message) found, or None."""
    typed = '\x00'.join(inp) if isinstance(inp, list) else inp
    if 'input_list' in res:
        texts = [res['overall_message']] + ([] if skip_entries else [e['msg'] for e in res['input_list']])
    else:
        texts = [res['msg']]
    for secret in secrets:
        if secret in typed:
            continue
        for t in texts:
            if secret in t:
                return secret, t
    return None


def call(g, inp, attempt):
    def body(ch):
        try:
            if attempt == 'absent':
                return ('ok', g(None, inp))
            return ('ok', g(None, inp, attempt=attempt))
        except Exception as e:
            return ('err', type(e).__name__)
    ch, out = chooser.run_with(body)
    return out


class ConfigFamily(Family):
    """a case = index into a deterministic list of configurations; all inputs x attempts are executed for it"""
    timeout = 120.0

    def configs(self, tier):
        raise NotImplementedError

    def setup(self, tier):
        self.tier = tier
        self.cfgs = list(self.configs(tier))

    def cases(self, tier):
        return iter(range(len(list(self.configs(tier)))))

    def describe(self, case):
        c = self.cfgs[case] if hasattr(self, 'cfgs') else list(self.configs('thorough'))[case]
        return c['label']

    def check(self, case):
        c = self.cfgs[case]
        try:
            g = c['make']()
        except Exception as e:
            raise HarnessError('configuration %s does not construct: %r' % (c['label'], e))
        attempts = ATTEMPTS_T if self.tier == 'thorough' else ATTEMPTS_Q
        calls = 0
        shapes = set()
        for inp in c['inputs']:
            n = len(inp) if isinstance(inp, list) else None
            for att in attempts:
                calls += 1
                out = call(g, inp, att)
                if out[0] != 'ok':
                    shapes.add('raised:' + out[1])
                    continue
                res = out[1]
                p = result_problem(res, n, c['debug'], c.get('pinned', False), c.get('allow_single', False),
                                   entry_debug=c.get('entry_debug'))
                if p:
                    return Result(p[0], True,
                                  viol('%s:%s' % (self.name, p[0]), '%s; input %r attempt %r: %s -> %r' % (c['label'], inp, att, p[1], res),
                                       None, res), calls)
                if c.get('secrets') and not c['debug']:
                    leak = stored_answer_leak(res, inp, c['secrets'], skip_entries=bool(c.get('entry_debug')))
                    if leak:
                        return Result('stored-answer-in-message', True,
                                      viol('%s:stored-answer-in-message' % self.name,
                                           '%s; input %r attempt %r: the stored answer %r, which the student did not type, is quoted by the '
                                           'message %r of a grader without debug' % (c['label'], inp, att, leak[0], leak[1]), None, res), calls)
                if 'input_list' in res:
                    shapes.add(tuple((e['ok'], round(e['grade_decimal'], 6)) for e in res['input_list']))
                else:
                    shapes.add((res['ok'], round(res['grade_decimal'], 6)))
        return Result('%d-shapes' % min(len(shapes), 6), len(shapes) > 1, None, calls)


def alt_pool(e1, e2, e3):
    """alternatives: full, half with msg, 0.3, zero credit with message, tuple-valued, pinned ok variants"""
    return [
        ('full', e1, False),
        ('half', {'expect': e2, 'grade_decimal': 0.5, 'msg': 'half credit'}, False),
        ('p3', {'expect': e3, 'grade_decimal': 0.3}, False),
        ('zero', {'expect': e3, 'grade_decimal': 0, 'msg': 'common mistake'}, False),
        ('tuple', {'expect': (e1, e3), 'grade_decimal': 1, 'msg': 'either'}, False),
        ('pinF', {'expect': e2, 'ok': False, 'msg': 'pinned false'}, True),
        ('pinP', {'expect': e1, 'ok': 'partial'}, True),
        ('pinT', {'expect': e3, 'ok': True, 'grade_decimal': 1}, True),
        # credits that are not 0 / not 1 but round to them at four decimals: ok must still be 'partial'
        ('tiny', {'expect': e3, 'grade_decimal': 0.00004, 'msg': 'tiny'}, False),
        ('almost', {'expect': e2, 'grade_decimal': 0.99996}, False),
        # EXTRA alternatives (index >= N_CORE, see subsets()): an ok that the author pinned on an answer whose credit is
        # not 1.  The ItemGrader class documentation ('grade_decimal: ... If set, overrides ok entry'; 'ok: ... Ignored if
        # grade_decimal is not 1') says the pin is ignored there, so the entry must stay self-consistent: no pin exemption
        ('pinThalf', {'expect': e2, 'ok': True, 'grade_decimal': 0.5}, False),
        ('pinPzero', {'expect': e3, 'ok': 'partial', 'grade_decimal': 0, 'msg': 'pinned partial, worth nothing'}, False),
    ]


N_CORE = 10


def subsets(pool, tier, slim=False):
    """core alternatives: every subset of <= 2 [thorough 3]; extra alternatives: alone [thorough: and paired with full / half / zero / pinF / pinP].
    slim (kinds that add a new code path, not a new credit structure): every alternative alone and paired with 'full'
    [thorough: every subset of <= 2]"""
    n = len(pool)
    if slim:
        for i in range(n):
            yield (i,)
        for combo in itertools.combinations(range(n), 2):
            if tier == 'thorough' or combo[0] == 0:
                yield combo
        return
    maxk = 2 if tier == 'quick' else 3
    for k in range(1, maxk + 1):
        for combo in itertools.combinations(range(N_CORE), k):
            yield combo
    for x in range(N_CORE, n):
        yield (x,)
    if tier == 'thorough':
        for x in range(N_CORE, n):
            for i in (0, 1, 3, 5, 6):       # full, half, zero, pinF, pinP
                yield (i, x)


def _chatty_comparer(comparer_params_eval, student_eval, utils):
    """an author-written comparer that always explains its verdict"""
    if utils.within_tolerance(comparer_params_eval[0], student_eval):
        return {'ok': True, 'grade_decimal': 1, 'msg': 'comparer says yes'}
    return {'ok': False, 'grade_decimal': 0, 'msg': 'comparer says no'}


def _forms_comparer(yes, half, no):
    """an author-written comparer that answers in one of the return forms a check function may use (True / False / 'partial' in any
    case / a dictionary with grade_decimal and optionally msg and ok; numpy booleans as numpy comparisons produce them):
    `yes` when the input equals the expected value, `half` when it is twice the expected value, `no` otherwise"""
    def comparer(comparer_params_eval, student_eval, utils):
        if utils.within_tolerance(comparer_params_eval[0], student_eval):
            return dict(yes) if isinstance(yes, dict) else yes
        if utils.within_tolerance(2 * comparer_params_eval[0], student_eval):
            return dict(half) if isinstance(half, dict) else half
        return dict(no) if isinstance(no, dict) else no
    return comparer


def _interval_parts():
    """IntervalGrader answers in the four-entry list form, brackets and bounds with their own alternatives, credits and messages
    (fresh lists on every call: the library validates these lists in place)"""
    return (['[', '1', '2', (']', {'expect': ')', 'grade_decimal': 0.5, 'msg': 'closed?'})],
            [('(', {'expect': '[', 'grade_decimal': 0, 'msg': 'open!'}), {'expect': '0', 'grade_decimal': 0.5},
             ('1', {'expect': '2', 'grade_decimal': 0.25, 'msg': 'hm'}), ']'],
            [{'expect': '[', 'msg': 'bracket fine'}, '0', {'expect': 'infty', 'grade_decimal': 0.99996}, ')'])


def _singlelist_parts():
    """SingleListGrader answers as lists whose items carry their own alternatives, credits and messages (fresh lists on every call)"""
    return (['a', {'expect': 'b', 'grade_decimal': 0.5, 'msg': 'b half'}],
            [('c', 'C'), {'expect': 'd', 'grade_decimal': 0, 'msg': 'd zero'}],
            [{'expect': 'e', 'ok': 'partial'}, ('f', {'expect': 'g', 'grade_decimal': 0.00004, 'msg': 'g tiny'})])


ITEM_KINDS = {
    'String': dict(secrets=['cat', 'dog', 'emu'], make=lambda **kw: StringGrader(**kw), e=('cat', 'dog', 'emu'),
                   inputs=['cat', 'dog', 'emu', ' Cat', '', 'ünï—²', 'cat dog']),
    # accept_any / accept_nonempty: the expect values are irrelevant, the matched answer's credit and ok are reported
    'StringAcceptAny': dict(make=lambda **kw: StringGrader(accept_any=True, min_words=1, explain_minimums='msg', **kw),
                            e=('cat', 'dog', 'emu'), inputs=['cat', 'anything at all', '', ' ', 'ünï—²']),
    'StringAcceptNonempty': dict(make=lambda **kw: StringGrader(accept_nonempty=True, min_length=3, explain_minimums=None, **kw),
                                 e=('cat', 'dog', 'emu'), inputs=['cat', 'ab', '', 'long enough', 'ünï—²']),
    'Formula': dict(secrets=['x+1', '2*x', 'x^2'], make=lambda **kw: FormulaGrader(variables=['x'], **kw), e=('x+1', '2*x', 'x^2'),
                    inputs=['1+x', 'x*2', 'x*x', 'x+1.00001', '', 'ünï—²', '0*x']),
    'Numerical': dict(make=lambda **kw: NumericalGrader(**kw), e=('2', '3', '5'),
                      inputs=['2', '3.0', '5', '2.05', '', 'ünï—²', '-2']),
    'Matrix': dict(secrets=['[1,2]', '[3,4]', '[5,6]'], make=lambda **kw: MatrixGrader(**kw), e=('[1,2]', '[3,4]', '[5,6]'),
                   inputs=['[1,2]', '[3,4]', '[5,6]', '[1,2.1]', '', 'ünï—²', '[0,0]']),
    'MatrixEntryFlat': dict(secrets=['[1,2]', '[3,4]', '[5,6]'], make=lambda **kw: MatrixGrader(entry_partial_credit=0.3, **kw), e=('[1,2]', '[3,4]', '[5,6]'),
                            inputs=['[1,2]', '[1,4]', '[5,0]', '[0,0]', '', '[1,2,3]']),
    'MatrixEntryProp': dict(secrets=['[[1,2],[3,4]]', '[[1,0],[0,1]]', '[[5,6],[7,8]]'], make=lambda **kw: MatrixGrader(entry_partial_credit='proportional', suppress_matrix_messages=True, **kw),
                            e=('[[1,2],[3,4]]', '[[1,0],[0,1]]', '[[5,6],[7,8]]'),
                            inputs=['[[1,2],[3,4]]', '[[1,2],[3,0]]', '[[1,0],[0,4]]', '[[0,0],[0,0]]', '[1,2]', '']),
    'FormulaLinear': dict(secrets=['x^2', 'x+1', '2*x'], make=lambda **kw: FormulaGrader(variables=['x'], **kw),
                          e=({'comparer': LinearComparer(proportional=0.5, offset=0.3, linear=0.1), 'comparer_params': ['x^2']},
                             {'comparer': LinearComparer(), 'comparer_params': ['x+1']},
                             {'comparer': LinearComparer(equals=0.8, proportional=0.2), 'comparer_params': ['2*x']}),
                          inputs=['x^2', '3*x^2', 'x^2+1', '2*x^2-1', 'x', '', 'x+1', '4*x']),
    # comparers that attach their own message to a full-credit verdict (the answer's credit / pinned ok still decide)
    'FormulaComparerMsg': dict(secrets=['x^2', 'x+1', '2*x'], make=lambda **kw: FormulaGrader(variables=['x'], **kw),
                          e=({'comparer': LinearComparer(equals_msg='spot on', proportional=0.5), 'comparer_params': ['x^2']},
                             {'comparer': LinearComparer(equals_msg='exactly'), 'comparer_params': ['x+1']},
                             {'comparer': _chatty_comparer, 'comparer_params': ['2*x']}),
                          inputs=['x^2', '3*x^2', 'x^2+1', '2*x^2-1', 'x', '', 'x+1', '4*x']),
    'SingleList': dict(secrets=['a,b', 'c,d', 'e,f'], make=lambda **kw: SingleListGrader(subgrader=StringGrader(), **kw), e=('a,b', 'c,d', 'e,f'),
                       inputs=['b,a', 'c,d', 'e,f', 'a', 'a,z', 'a,b,c', '', 'ünï—²', 'a,,b']),
    'SingleListNoPartial': dict(secrets=['a,b', 'c,d', 'e,f'], make=lambda **kw: SingleListGrader(subgrader=StringGrader(), partial_credit=False, ordered=True, **kw),
                                e=('a,b', 'c,d', 'e,f'), inputs=['a,b', 'b,a', 'c,d', 'a', 'a,b,c', '']),
    'Interval': dict(secrets=['[1,2]', '(0,1]', '[0,infty)'], make=lambda **kw: IntervalGrader(**kw), e=('[1,2]', '(0,1]', '[0,infty)'),
                     inputs=['[1,2]', '(1,2]', '(0,1]', '[0,infty)', '[1,3]', '', 'ünï—²']),
    # ---- slim kinds: a code path that builds or combines results which the kinds above do not reach, reduced credit grammar
    # shape mismatches graded wrong with an explanation instead of raised (MatrixGrader.check_response, the non-suppressed returns)
    'MatrixShapeExplained': dict(secrets=['[1,2]', '[3,4]', '[5,6]'], slim=True,
                                 make=lambda **kw: MatrixGrader(shape_errors=False,
                                                                answer_shape_mismatch=dict(is_raised=False, msg_detail='shape'), **kw),
                                 e=('[1,2]', '[3,4]', '[5,6]'),
                                 inputs=['[1,2]', '[3,4]', '[5,6]', '[1,2,3]', '[1,2]+[1,2,3]', '1', '[3,4]+[1,2]*[1,2,3]', '']),
    'MatrixShapeSilent': dict(secrets=['[1,2]', '[3,4]', '[5,6]'], slim=True, thorough_only=True,
                              make=lambda **kw: MatrixGrader(shape_errors=False, entry_partial_credit='proportional',
                                                             answer_shape_mismatch=dict(is_raised=False, msg_detail=None), **kw),
                              e=('[1,2]', '[3,4]', '[5,6]'),
                              inputs=['[1,2]', '[3,0]', '[5,6]', '[1,2,3]', '[1,2]+[1,2,3]', '1', '']),
    # a validation pattern: inputs that fail it are graded wrong with / without a message before any answer is looked at
    'StringValidationMsg': dict(secrets=['cat', 'dog', 'emu'], slim=True,
                                make=lambda **kw: StringGrader(validation_pattern='[a-z]+', explain_validation='msg', **kw),
                                e=('cat', 'dog', 'emu'), inputs=['cat', 'dog', 'emu', 'CAT', 'c4t', '', 'ünï—²', 'gnu']),
    'StringValidationQuiet': dict(slim=True, thorough_only=True,
                                  make=lambda **kw: StringGrader(validation_pattern='[a-z]+', explain_validation=None, accept_any=True,
                                                                 invalid_msg='', **kw),
                                  e=('cat', 'dog', 'emu'), inputs=['cat', 'CAT', 'c4t', '', 'ünï—²']),
    # comparers answering in every return form a check function may use (ItemGrader.standardize_cfn_return)
    'FormulaComparerForms': dict(secrets=['x^2', 'x+1', '2*x'], slim=True, make=lambda **kw: FormulaGrader(variables=['x'], **kw),
                                 e=({'comparer': _forms_comparer(np.True_, 'Partial', np.False_), 'comparer_params': ['x^2']},
                                    {'comparer': _forms_comparer({'grade_decimal': 1}, {'grade_decimal': 0.75, 'msg': 'three quarters'},
                                                                 {'grade_decimal': 0}), 'comparer_params': ['x+1']},
                                    {'comparer': _forms_comparer({'ok': True, 'grade_decimal': 1.0, 'msg': 'yes'}, 'partial',
                                                                 {'ok': False, 'grade_decimal': 0.0, 'msg': 'no'}),
                                     'comparer_params': ['2*x']}),
                                 inputs=['x^2', '2*x^2', 'x+1', '2*x+2', '2*x', '4*x', '3*x', '']),
    # the same through NumericalGrader (one sample, its own default comparer) and failable_evals through FormulaGrader
    'NumericalComparerForms': dict(slim=True, thorough_only=True, make=lambda **kw: NumericalGrader(**kw),
                                   e=({'comparer': _forms_comparer(True, 'partial', False), 'comparer_params': ['2']},
                                      {'comparer': _forms_comparer({'grade_decimal': 1, 'msg': 'one'}, {'grade_decimal': 0.00004},
                                                                   {'grade_decimal': 0, 'msg': 'nought'}), 'comparer_params': ['3']},
                                      {'comparer': _forms_comparer(np.True_, {'grade_decimal': 0.99996, 'msg': 'nearly'}, np.False_),
                                       'comparer_params': ['5']}),
                                   inputs=['2', '4', '3', '6', '5', '10', '7', '']),
    # answers given part by part: brackets / bounds / list items with their own alternatives, credits and messages
    'IntervalParts': dict(slim=True, make=lambda **kw: IntervalGrader(**kw), e=_interval_parts,
                          inputs=['[1,2]', '[1,2)', '(0,1]', '[0,2]', '[0,1]', '(1,2]', '[0,infty)', '[0,infty]', '(0,3)', '']),
    'IntervalPartsNoPartial': dict(slim=True, thorough_only=True,
                                   make=lambda **kw: IntervalGrader(partial_credit=False,
                                                                    subgrader=FormulaGrader(tolerance=1e-13, allow_inf=True), **kw),
                                   e=_interval_parts,
                                   inputs=['[1,2]', '[1,2)', '(0,1]', '[0,2]', '[0,1]', '[0,infty)', '(0,3)', '']),
    'SingleListParts': dict(slim=True, make=lambda **kw: SingleListGrader(subgrader=StringGrader(wrong_msg='item wrong'),
                                                                          missing_error=False, **kw),
                            e=_singlelist_parts,
                            inputs=['a,b', 'b,a', 'c,d', 'C,d', 'e,f', 'g,e', 'a', 'a,,b', ',', '', 'a,b,z,y,x', 'ünï—²,a']),
    'SingleListPartsOrdered': dict(slim=True, thorough_only=True,
                                   make=lambda **kw: SingleListGrader(subgrader=NumericalGrader(), ordered=True, partial_credit=False,
                                                                      delimiter=';', **kw),
                                   e=lambda: (['1', {'expect': '2', 'grade_decimal': 0.5, 'msg': 'two half'}],
                                              [('3', '30'), {'expect': '4', 'grade_decimal': 0, 'msg': 'four zero'}],
                                              ['5', ('6', {'expect': '7', 'grade_decimal': 0.99996})]),
                                   inputs=['1;2', '2;1', '3;4', '30;4', '5;6', '5;7', '1', '1;2;3', '']),
}


class ItemGraders(ConfigFamily):
    def __init__(self, kind):
        self.kind = kind
        self.name = 'item_' + kind
        if ITEM_KINDS[kind].get('slim'):
            self.rule = ('%s (slim: a result-building code path of its own, reduced credit grammar): each of the 12 alternatives alone and '
                         'paired with the full-credit one [thorough: every subset of <= 2] x wrong_msg W x attempt_based_credit (none, '
                         'Geometric, constant 0) x credit-message flag x debug (without attempt credit); inputs %r; attempts as below'
                         % (kind, ITEM_KINDS[kind]['inputs']))
            return
        self.rule = ('%s: every subset of <=3 [quick 2] of 10 alternatives (full / half+msg / 0.3 / zero+msg / tuple expect / '
                     'ok pinned False, partial, True / credit 0.00004 / credit 0.99996), plus 2 alternatives with an ok pinned on a credit '
                     'that is not 1 (ok True on 0.5, ok partial on 0: the pin is documented as ignored) alone [thorough: and paired with '
                     'full / half / zero / pinF / pinP] x wrong_msg x attempt_based_credit (none, Linear, Geometric, constants 1, 0, '
                     '0.33333 [+Reciprocal, Linear with minimum]) x credit-message flag x debug; inputs %r; attempts absent,1,2,7,0,-3'
                     % (kind, ITEM_KINDS[kind]['inputs']))

    def configs(self, tier):
        k = ITEM_KINDS[self.kind]
        if k.get('thorough_only') and tier != 'thorough':
            return
        fresh = k['e'] if callable(k['e']) else (lambda: k['e'])
        pool = alt_pool(*fresh())
        slim = k.get('slim', False)
        if slim:
            credits = [c for c in credit_options(tier) if c[0] in ('none', 'geometric', 'const0')]
        else:
            credits = credit_options(tier)
        for combo in subsets(pool, tier, slim):
            pinned = any(pool[i][2] for i in combo)
            for wm in (('W',) if slim else ('', 'W')):
                for cname, cfn in credits:
                    for cmsg in ((True,) if cfn is None else (True, False)):
                        for debug in (False, True):
                            if not slim and tier == 'quick' and debug and wm:
                                continue
                            if slim and debug and cfn is not None:
                                continue
                            label = '%s answers=%s wrong_msg=%r attempt_based_credit=%s msg=%s debug=%s' % (
                                self.kind, [pool[i][0] for i in combo], wm, cname, cmsg, debug)
                            # kinds whose expect values are lists (validated in place by the library) get fresh lists for every
                            # grader; the other kinds keep handing the same answer objects to all their graders
                            if callable(k['e']):
                                answers = (lambda combo=combo: (lambda p: tuple(p[i][1] for i in combo))(alt_pool(*fresh())))
                            else:
                                answers = (lambda fixed=tuple(pool[i][1] for i in combo): fixed)
                            yield dict(label=label, debug=debug, pinned=pinned, inputs=k['inputs'], secrets=k.get('secrets'),
                                       make=(lambda answers=answers, wm=wm, cfn=cfn, cmsg=cmsg, debug=debug:
                                             k['make'](answers=answers(), wrong_msg=wm,
                                                       attempt_based_credit=cfn, attempt_based_credit_msg=cmsg, debug=debug)))


WORDS = ['cat', 'dog', 'emu', '', 'ünï—²']


class ListGraders(ConfigFamily):
    name = 'list_graders'
    rule = ('ListGrader layouts (flat ordered / unordered over StringGrader with partial-credit alternatives; list of different '
            'subgraders; nested + grouped; SingleListGrader subgrader; two alternative answer lists; children / grandchildren / nested '
            'ListGrader / SingleListGrader child built with debug=True; Formula-LinearComparer + Matrix-entry-credit + Interval '
            'children) x partial_credit x attempt credit '
            'x message flag x debug; inputs: every tuple over {cat, dog, emu, empty, unicode garbage} of the right length')

    def layouts(self):
        half = {'expect': 'dog', 'grade_decimal': 0.5, 'msg': 'half'}
        pin = {'expect': 'emu', 'ok': 'partial'}
        sg = lambda: StringGrader(wrong_msg='w')
        return [
            ('flat2_unordered', 2, False, lambda **kw: ListGrader(answers=['cat', ('dog', half)], subgraders=sg(), **kw)),
            ('flat3_unordered', 3, False, lambda **kw: ListGrader(answers=['cat', half, ('emu', {'expect': 'cat', 'grade_decimal': 0.3})],
                                                                   subgraders=sg(), **kw)),
            ('flat3_ordered_pinned', 3, True, lambda **kw: ListGrader(answers=['cat', half, pin], subgraders=sg(), ordered=True, **kw)),
            ('two_lists', 2, False, lambda **kw: ListGrader(answers=(['cat', 'dog'], [half, 'emu']), subgraders=sg(), **kw)),
            ('subgrader_list', 2, False, lambda **kw: ListGrader(answers=['cat', {'expect': '2', 'grade_decimal': 0.5}],
                                                                  subgraders=[sg(), NumericalGrader()], ordered=True, **kw)),
            ('grouped_nested', 4, False, lambda **kw: ListGrader(answers=[['cat', 'dog'], ['emu', half]],
                                                                  subgraders=ListGrader(subgraders=sg()), grouping=[1, 2, 1, 2], **kw)),
            ('grouped_ordered_mixed', 3, False, lambda **kw: ListGrader(answers=['cat', ['dog', half]],
                                                                         subgraders=[sg(), ListGrader(subgraders=sg(), ordered=True)],
                                                                         ordered=True, grouping=[2, 1, 2], **kw)),
            ('singlelist_sub', 2, False, lambda **kw: ListGrader(answers=[['cat', 'dog'], ['emu', 'cat']],
                                                                  subgraders=SingleListGrader(subgrader=sg()), **kw)),
            # subgraders configured with debug=True below a parent that is not: the parent's own messages stay clean
            ('flat2_debug_child', 2, False, lambda **kw: ListGrader(answers=['cat', ('dog', half)],
                                                                     subgraders=StringGrader(wrong_msg='w', debug=True), **kw)),
            ('subgrader_list_debug_child', 2, False,
             lambda **kw: ListGrader(answers=['cat', {'expect': '2', 'grade_decimal': 0.5}],
                                     subgraders=[sg(), NumericalGrader(debug=True)], ordered=True, **kw)),
            ('grouped_nested_debug_grandchild', 4, False,
             lambda **kw: ListGrader(answers=[['cat', 'dog'], ['emu', half]],
                                     subgraders=ListGrader(subgraders=StringGrader(debug=True)), grouping=[1, 2, 1, 2], **kw)),
            # the nested ListGrader itself / a SingleListGrader child built with debug=True below a parent that is not
            ('grouped_nested_debug_inner_list', 4, False,
             lambda **kw: ListGrader(answers=[['cat', 'dog'], ['emu', half]],
                                     subgraders=ListGrader(subgraders=sg(), debug=True, partial_credit=False),
                                     grouping=[2, 1, 1, 2], **kw)),
            ('singlelist_sub_debug_child', 2, False,
             lambda **kw: ListGrader(answers=[['cat', 'dog'], ['emu', 'cat']],
                                     subgraders=SingleListGrader(subgrader=sg(), debug=True), **kw)),
            # children of the other item classes, each with a partial-credit mechanism of its own (entries carry the extra
            # keys those classes use internally)
            ('mixed_children', 3, False,
             lambda **kw: ListGrader(answers=[{'comparer': LinearComparer(proportional=0.5), 'comparer_params': ['x^2']},
                                              ('[1,2]', {'expect': '[3,4]', 'grade_decimal': 0.5, 'msg': 'second best'}),
                                              ['[', '1', '2', (']', {'expect': ')', 'grade_decimal': 0.5})]],
                                     subgraders=[FormulaGrader(variables=['x']),
                                                 MatrixGrader(entry_partial_credit='proportional', suppress_matrix_messages=True),
                                                 IntervalGrader()],
                                     ordered=True, **kw)),
        ]

    def configs(self, tier):
        for lname, n, pinned, mk in self.layouts():
            if n == 4 and tier == 'quick':
                words = WORDS[:3]
            else:
                words = WORDS
            if lname == 'singlelist_sub':
                words = ['cat,dog', 'dog,cat', 'emu', '', 'cat,emu,dog']
            if lname.startswith('singlelist_sub'):
                words = ['cat,dog', 'dog,cat', 'emu', '', 'cat,emu,dog']
            if lname.startswith('subgrader_list'):
                inputs = [[a, b] for a in WORDS for b in ('2', '2.05', '', 'ünï', '7')]
            elif lname == 'mixed_children':
                inputs = [[a, b, c] for a in ('x^2', '3*x^2', 'x', '') for b in ('[1,2]', '[1,0]', '[3,4]', '[1,2,3]')
                          for c in ('[1,2]', '[1,2)', '(1,3]', 'ünï—²')]
            else:
                inputs = [list(t) for t in itertools.product(words, repeat=n)]
            # the wrong number of input boxes: refused, or one entry per submitted input
            inputs = inputs + [inputs[0] + [inputs[0][0]], inputs[-1] + ['cat', 'dog'], inputs[0][:-1], inputs[1] + ['']]
            for pc in (True, False):
                for cname, cfn in credit_options(tier):
                    for cmsg in ((True,) if cfn is None else (True, False)):
                        for debug in (False, True):
                            if tier == 'quick' and debug and (not pc or cname not in ('none', 'linear')):
                                continue
                            label = 'ListGrader %s partial_credit=%s attempt_based_credit=%s msg=%s debug=%s' % (lname, pc, cname, cmsg, debug)
                            yield dict(label=label, debug=debug, pinned=pinned, inputs=inputs,
                                       secrets=(['x^2', '[3,4]'] if lname == 'mixed_children' else ['cat', 'dog', 'emu']),
                                       entry_debug=(True if 'debug_' in lname else None),
                                       make=(lambda mk=mk, pc=pc, cfn=cfn, cmsg=cmsg, debug=debug:
                                             mk(partial_credit=pc, attempt_based_credit=cfn, attempt_based_credit_msg=cmsg, debug=debug)))


class OtherGraders(ConfigFamily):
    name = 'sum_and_nested_singlelist'
    rule = ('SumGrader (4 boxes, and summand only) and nested SingleListGrader (outer ";" inner ",") x attempt credit x flag x debug; '
            'SumGrader inputs: right / wrong / re-indexed / blank / garbage in each box')

    def configs(self, tier):
        sum_inputs = [['1', '4', 'n^2', 'n'], ['4', '1', 'm^2', 'm'], ['0', '3', '(k+1)^2', 'k'], ['1', '4', 'n', 'n'],
                      ['1', '', 'n^2', 'n'], ['ünï', '4', 'n^2', 'n'], ['1', '4', 'n^2+', 'n'], ['1', '4', 'x', 'n']]
        for cname, cfn in credit_options(tier):
            for cmsg in ((True,) if cfn is None else (True, False)):
                for debug in (False, True):
                    yield dict(label='SumGrader 4 boxes credit=%s msg=%s debug=%s' % (cname, cmsg, debug), debug=debug, inputs=sum_inputs,
                               allow_single=True,
                               make=(lambda cfn=cfn, cmsg=cmsg, debug=debug:
                                     SumGrader(answers=dict(lower='1', upper='4', summand='n^2', summation_variable='n'),
                                               attempt_based_credit=cfn, attempt_based_credit_msg=cmsg, debug=debug)))
                    yield dict(label='SumGrader summand only credit=%s msg=%s debug=%s' % (cname, cmsg, debug), debug=debug,
                               inputs=['n^2', 'n*n', 'n', '', 'ünï', ['n^2']], allow_single=True,
                               make=(lambda cfn=cfn, cmsg=cmsg, debug=debug:
                                     SumGrader(answers=dict(lower='1', upper='4', summand='n^2', summation_variable='n'),
                                               input_positions={'summand': 1},
                                               attempt_based_credit=cfn, attempt_based_credit_msg=cmsg, debug=debug)))
                    yield dict(label='nested SingleListGrader credit=%s msg=%s debug=%s' % (cname, cmsg, debug), debug=debug,
                               inputs=['a,b;c,d', 'c,d;b,a', 'a;c,d', 'a,b', 'a,b;c,d;e', '', 'ünï;—', 'a,z;c,z'],
                               make=(lambda cfn=cfn, cmsg=cmsg, debug=debug:
                                     SingleListGrader(answers=[['a', 'b'], ['c', 'd']],
                                                      subgrader=SingleListGrader(subgrader=StringGrader(), delimiter=','),
                                                      delimiter=';', attempt_based_credit=cfn, attempt_based_credit_msg=cmsg, debug=debug)))


class PositionalTable(Family):
    name = 'list_entries_follow_inputs'
    rule = ('ListGrader over a TableGrader whose messages name the graded input: all 4^n input tuples over four inputs for the layouts '
            'flat n=2, flat n=3, grouped n=4 (two groups of two, interleaved grouping [1,2,1,2] and [2,1,1,2], nested ListGrader ordered / '
            'unordered) and grouped n=3 (list of subgraders: a TableGrader and a nested ListGrader, grouping [2,1,2]); outer ordered / '
            'unordered, attempt credit on/off: entry i must carry input i\'s name (positional correspondence)')

    LAYOUTS = ['flat2', 'flat3', 'nested1212', 'nested2112', 'mixed212']

    def setup(self, tier):
        table = {('A', 'p'): 1, ('B', 'q'): 1, ('C', 'r'): 1, ('A', 'q'): 0.5, ('B', 'r'): 0.25, ('C', 's'): 0.75}
        tg = lambda: TableGrader(table=table, name_pairs=True)
        self.g = {}
        for layout in self.LAYOUTS:
            for ordered in (False, True):
                for credit in (None, GeometricCredit(factor=0.5)):
                    if layout.startswith('flat'):
                        n = int(layout[-1])
                        g = ListGrader(answers=['A', 'B', 'C'][:n], subgraders=tg(), ordered=ordered, attempt_based_credit=credit)
                    elif layout.startswith('nested'):
                        # `ordered` is the outer list's option; the inner list is ordered for 1212 and unordered for 2112
                        g = ListGrader(answers=[['A', 'B'], ['C', 'A']],
                                       subgraders=ListGrader(subgraders=tg(), ordered=(layout == 'nested1212')),
                                       grouping=[int(c) for c in layout[-4:]], ordered=ordered, attempt_based_credit=credit)
                    else:
                        # a list of subgraders requires an ordered outer list: `ordered` selects the inner list's option here
                        g = ListGrader(answers=['A', ['B', 'C']], subgraders=[tg(), ListGrader(subgraders=tg(), ordered=ordered)],
                                       grouping=[2, 1, 2], ordered=True, attempt_based_credit=credit)
                    self.g[(layout, ordered, credit is not None)] = g

    def cases(self, tier):
        for layout, n in zip(self.LAYOUTS, (2, 3, 4, 4, 3)):
            for t in itertools.product('pqrs', repeat=n):
                yield (layout, ''.join(t))

    def check(self, case):
        layout, word = case
        inputs = list(word)
        n = len(inputs)
        calls = 0
        for ordered in (False, True):
            for credit in (False, True):
                calls += 1
                try:
                    res = self.g[(layout, ordered, credit)](None, list(inputs), attempt=3)
                except Exception as e:
                    return Result('raised', True, viol('positional:raised', '%r' % e), calls)
                p = result_problem(res, n, False, False)
                if p:
                    return Result(p[0], True, viol('positional:' + p[0], '%s %r: %s' % (layout, inputs, p[1]), None, res), calls)
                for i, e in enumerate(res['input_list']):
                    if not e['msg'].endswith('|' + inputs[i]):
                        return Result('position', True,
                                      viol('positional:entry-not-at-its-input', '%s inputs %r ordered=%s: entry %d has message %r'
                                           % (layout, inputs, ordered, i, e['msg']), inputs[i], e['msg']), calls)
        return Result('ok:' + layout, True, None, calls)


class SharedSubgraderDebug(Family):
    name = 'debug_off_grader_shared_with_debug_parent'
    rule = ('a grader built with debug=False that is also the subgrader of a debug=True ListGrader (flat, nested, list of subgraders): '
            'every sequence of three steps over parent-call / own-call / call of a second debug-off parent / debug-parent call that RAISES '
            '(one input box too few: refused inside the parent\'s check; an input the shared child refuses): every result of the '
            'debug=False grader itself, and of the debug=False parent sharing it, must be free of debug output; kinds String, Formula, '
            'Numerical, SingleList')

    # constructor, an input earning credit, a wrong input, an input the grader refuses with an error (None: it has none)
    KINDS = {
        'String': (lambda: StringGrader(answers='cat', wrong_msg='w'), 'cat', 'dog', None),
        'Formula': (lambda: FormulaGrader(answers='x+1', variables=['x']), '1+x', 'x', 'x+'),
        'Numerical': (lambda: NumericalGrader(answers='2'), '2', '3', '1/0'),
        'SingleList': (lambda: SingleListGrader(answers=['a', 'b'], subgrader=StringGrader()), 'b,a', 'a,z', 'a,,b'),
    }

    def cases(self, tier):
        for kind in self.KINDS:
            # P: debug parent call, S: the grader's own call, Q: debug-off parent, X: debug parent called with one box too few (raises),
            # Y: debug parent called with an input its shared child refuses (raises)
            steps = 'PSQX' + ('Y' if self.KINDS[kind][3] is not None else '')
            for layout in ('flat', 'sublist', 'nested'):
                for seq in itertools.product(steps, repeat=3):
                    yield (kind, layout, ''.join(seq))

    def check(self, case):
        kind, layout, seq = case
        mk, right, wrong, bad = self.KINDS[kind]
        sub = mk()
        ans = list(sub.config['answers'])
        a = ans[0] if ans else None
        a = {'expect': a['expect'][0], 'grade_decimal': a['grade_decimal'], 'msg': a['msg']} if isinstance(a, dict) else a

        def parent(debug):
            if layout == 'flat':
                return ListGrader(answers=[a, a], subgraders=sub, debug=debug), [right, wrong]
            if layout == 'sublist':
                return ListGrader(answers=[a, 'x'], subgraders=[sub, StringGrader()], ordered=True, debug=debug), [right, 'x']
            return (ListGrader(answers=[[a, a], [a, a]], subgraders=ListGrader(subgraders=sub), grouping=[1, 1, 2, 2], debug=debug),
                    [right, wrong, wrong, right])
        P, pin = parent(True)
        Q, qin = parent(False)
        calls = 0
        raised = 0
        for step, c in enumerate(seq):
            calls += 1
            if c == 'P':
                out = call(P, pin, 'absent')
                continue
            if c in 'XY':
                out = call(P, pin[:-1] if c == 'X' else [bad] + pin[1:], 'absent')
                if out[0] == 'ok':
                    raise HarnessError('%s: the step %s was meant to raise, it returned %r' % (case, c, out[1]))
                raised += 1
                continue
            if c == 'S':
                out = call(sub, right if step % 2 else wrong, 'absent')
                n = None
            else:
                out = call(Q, qin, 'absent')
                n = len(qin)
            if out[0] != 'ok':
                continue
            p = result_problem(out[1], n, False, False)
            if p:
                return Result(p[0], True,
                              viol('shared:%s' % p[0], '%s subgrader shared by a debug=True %s ListGrader, call sequence %s (P debug parent, S itself, '
                                   'Q debug-off parent, X / Y debug parent call that raises), step %d: %s'
                                   % (kind, layout, seq, step + 1, p[1]), None, out[1]), calls)
        before = [i for i, c in enumerate(seq) if c in 'PXY']
        after = [i for i, c in enumerate(seq) if c in 'SQ']
        return Result('clean-after-%d-raising' % raised, bool(before) and bool(after) and min(before) < max(after), None, calls)


class InferredAnswers(Family):
    """edX hands every check function the problem's expect attribute; an item grader without configured answers takes its answers from it"""
    name = 'answers_inferred_from_expect'
    rule = ('item graders built WITHOUT answers (String, String accept_any, Formula, Numerical, Matrix, SingleList, nested SingleList, '
            'Interval) and a ListGrader with answers, called the way edX calls them, with the expect attribute: every sequence of two '
            'calls over {expect 1, expect 2, no expect} x {input matching expect 1, input matching expect 2, a wrong input} x debug x '
            'attempt-based credit (none / Geometric at attempt 2): every call that returns has the edX structure, a self-consistent ok, '
            'and no debug output (the inferred answer, ...) unless debug=True; the call without expect on a fresh grader raises and '
            'leaves the state the second call starts from')

    KINDS = {
        'String': (lambda **kw: StringGrader(**kw), ['cat', 'dog'], ['cat', 'dog', 'emu']),
        'StringAcceptAny': (lambda **kw: StringGrader(accept_any=True, **kw), ['cat', 'dog'], ['cat', '', 'emu']),
        'Formula': (lambda **kw: FormulaGrader(variables=['x'], **kw), ['x+1', '2*x'], ['1+x', 'x*2', 'x^2']),
        'Numerical': (lambda **kw: NumericalGrader(**kw), ['2', '3'], ['2', '3.0', '5']),
        'Matrix': (lambda **kw: MatrixGrader(**kw), ['[1,2]', '[3,4]'], ['[1,2]', '[3,4]', '[0,0]']),
        'SingleList': (lambda **kw: SingleListGrader(subgrader=StringGrader(), **kw), ['a,b', 'c,d'], ['b,a', 'c,d', 'a,z']),
        'NestedSingleList': (lambda **kw: SingleListGrader(subgrader=SingleListGrader(subgrader=StringGrader()), delimiter=';', **kw),
                             ['a,b;c,d', 'e;f'], ['c,d;b,a', 'e;f', 'a;f']),
        'Interval': (lambda **kw: IntervalGrader(**kw), ['[1,2]', '(0,infty)'], ['[1,2]', '(0,infty)', '[1,3)']),
        'ListGrader': (lambda **kw: ListGrader(answers=['cat', {'expect': 'dog', 'grade_decimal': 0.5}], subgraders=StringGrader(), **kw),
                       ['cat', 'cat,dog'], [['cat', 'dog'], ['dog', 'cat'], ['emu', '']]),
    }

    def cases(self, tier):
        for kind in self.KINDS:
            for debug in (0, 1):
                for credit in (0, 1):
                    for c1 in range(9):
                        for c2 in range(9):
                            yield (kind, debug, credit, c1, c2)

    def describe(self, case):
        kind, debug, credit, c1, c2 = case
        mk, expects, inputs = self.KINDS[kind]
        pair = lambda c: 'grader(%r, %r)' % ((expects + [None])[c // 3], inputs[c % 3])
        return '%s debug=%s credit=%s: %s then %s' % (kind, bool(debug), bool(credit), pair(c1), pair(c2))

    def check(self, case):
        kind, debug, credit, c1, c2 = case
        mk, expects, inputs = self.KINDS[kind]
        kw = dict(debug=bool(debug))
        if credit:
            kw['attempt_based_credit'] = GeometricCredit(factor=0.5)
        g = mk(**kw)
        calls = 0
        shapes = []
        inferred_and_returned = False
        for c in (c1, c2):
            expect = (expects + [None])[c // 3]
            inp = inputs[c % 3]
            calls += 1

            def body(ch, expect=expect, inp=inp):
                try:
                    return ('ok', g(expect, inp, attempt=2) if credit else g(expect, inp))
                except Exception as e:
                    return ('err', type(e).__name__)
            ch, out = chooser.run_with(body)
            if out[0] != 'ok':
                shapes.append('raised')
                continue
            res = out[1]
            p = result_problem(res, len(inp) if isinstance(inp, list) else None, bool(debug), False)
            if p:
                return Result(p[0], True, viol('inferred:%s' % p[0], '%s: call %d: %s -> %r' % (self.describe(case), calls, p[1], res),
                                               None, res), calls)
            inferred_and_returned = inferred_and_returned or expect is not None
            shapes.append('returned')
        return Result('+'.join(shapes), inferred_and_returned and not debug, None, calls)


def families(tier):
    fams = [ItemGraders(k) for k in ITEM_KINDS if tier == 'thorough' or not ITEM_KINDS[k].get('thorough_only')]
    fams += [ListGraders(), OtherGraders(), PositionalTable(), SharedSubgraderDebug(), InferredAnswers()]
    return fams
