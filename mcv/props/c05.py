"""
C05 -- ListGrader gives the best consistent assignment and reports it per input box.

ENUM: arbitrary credit matrices are realised through the author-level TableGrader; every
message names the (answer, input) pair that produced it, so the oracle can decode which
answer each box was graded against.  Oracle = brute force over all n! assignments.
"""
import itertools
from ..core import Family, Result, viol, HarnessError
from ..fixtures import TableGrader

from mitxgraders import ListGrader, SingleListGrader
from mitxgraders.exceptions import ConfigError

PROPERTY = 'C05'
RULE = ('all n x n credit tables over small palettes, all n! input orders, all pairs of tables for two answer '
        'lists, all valid groupings; a case is non-trivial when not every assignment has the same total (so a '
        'wrong assignment is visible) or, for ordered graders, when the table is not constant')
EXPLANATION = ('states = distinct (configuration, credit table / input order) cases; transitions = calls of the real '
               'ListGrader; the brute-force assignment search is the oracle only')
ASSUMPTIONS = ['TableGrader (mcv/fixtures.py) realises arbitrary credit matrices through the ItemGrader extension point',
               'which of several optimal assignments / tied answer lists is reported is not constrained',
               'totals compared within 1e-9']

EPS = 1e-9


def decode(msg):
    """'A1|I2' -> ('A1', 'I2')"""
    a, _, i = msg.partition('|')
    return a, i


def ok_of(g):
    return {0: False, 1: True}.get(g, 'partial')


def best_total(credit, n):
    """credit[j][k] = credit of input j against answer k; returns (max, min) over all bijections"""
    tots = [sum(credit[j][p[j]] for j in range(n)) for p in itertools.permutations(range(n))]
    return max(tots), min(tots)


def check_flat(result, inputs, answers_lists, table, ordered, partial_credit, tag):
    """
    Common oracle for a flat ListGrader over TableGrader(name_pairs).  answers_lists: list of lists of answer
    names.  Returns (outcome, nontrivial, violation).
    """
    n = len(inputs)
    if sorted(result.keys()) != ['input_list', 'overall_message'] or len(result['input_list']) != n:
        return 'shape', True, viol(tag + ':result-shape', 'wrong result structure', None, result)
    entries = result['input_list']
    # which list was reported?  every message names an answer; they must all belong to one list
    pairs = [decode(e['msg']) for e in entries]
    for p, (a, i) in enumerate(pairs):
        if i != inputs[p]:
            return 'position', True, viol(tag + ':entry-at-wrong-position',
                                          'entry %d grades input %r but box %d holds %r' % (p, i, p, inputs[p]),
                                          inputs[p], i)
    cand = [L for L in answers_lists if all(a in L for a, _ in pairs)]
    if not cand:
        return 'mixed', True, viol(tag + ':answers-mixed-between-lists', 'entries matched answers %r' % (pairs,), None, pairs)
    # per-list optimum
    bests = []
    nontriv = False
    for L in answers_lists:
        credit = [[table.get((L[k], inputs[j]), 0) for k in range(n)] for j in range(n)]
        if ordered:
            tot = sum(credit[j][j] for j in range(n))
            bests.append(tot)
            if len(set(sum(credit, []))) > 1:
                nontriv = True
        else:
            hi, lo = best_total(credit, n)
            bests.append(hi)
            if hi - lo > EPS:
                nontriv = True
    overall = max(bests)
    if len(answers_lists) > 1 and max(bests) - min(bests) > EPS:
        nontriv = True
    L = cand[0]
    used = [a for a, _ in pairs]
    if sorted(used) != sorted(L):
        return 'not-bijection', nontriv, viol(tag + ':assignment-not-one-to-one',
                                              'answers used %r are not a permutation of %r' % (used, L), L, used)
    if ordered and used != list(L):
        return 'order', nontriv, viol(tag + ':ordered-but-not-positional', 'ordered grader matched %r' % (pairs,), L, used)
    raw = [table.get((a, i), 0) for a, i in pairs]
    total = sum(raw)
    if abs(total - overall) > EPS:
        return 'suboptimal', nontriv, viol(tag + ':total-not-maximal',
                                           'reported assignment %r earns %r but %r is attainable' % (pairs, total, overall),
                                           overall, total)
    perfect = all(g == 1 for g in raw)
    for p, e in enumerate(entries):
        exp = raw[p] if (partial_credit or perfect) else 0
        if abs(e['grade_decimal'] - exp) > EPS or e['ok'] != ok_of(exp):
            return 'grade', nontriv, viol(tag + ':entry-grade-wrong',
                                          'entry %d (%s) has grade %r ok %r, expected %r' % (p, e['msg'], e['grade_decimal'], e['ok'], exp),
                                          exp, e)
    return ('perfect' if perfect else ('zeroed' if not partial_credit else 'tot=%.3g' % total)), nontriv, None


class Tables(Family):
    """(a) every n x n credit table"""

    def __init__(self, name, n, palette, tiers, inputs=None):
        self.name = name
        self.n = n
        self.palette = palette
        self.tiers = tiers
        self.given_inputs = inputs
        self.rule = ('every %dx%d credit table over %s x ordered {T,F} x partial_credit {T,F}; unordered results must be a '
                     'one-to-one assignment with brute-force maximal total, each entry at the position of its input%s'
                     % (n, n, palette, '' if inputs is None else '; the submitted boxes are %r (blank boxes are graded by the '
                        'subgrader like any other)' % (inputs,)))

    def setup(self, tier):
        n = self.n
        self.answers = ['A%d' % k for k in range(n)]
        self.inputs = list(self.given_inputs) if self.given_inputs else ['I%d' % j for j in range(n)]
        self.graders = {}
        for ordered in (False, True):
            for pc in (False, True):
                sub = TableGrader(table={}, name_pairs=True)
                g = ListGrader(answers=list(self.answers), subgraders=sub, ordered=ordered, partial_credit=pc)
                self.graders[(ordered, pc)] = (g, sub)

    def cases(self, tier):
        if tier not in self.tiers:
            return
        b = len(self.palette)
        for idx in range(b ** (self.n * self.n)):
            yield idx

    def table_of(self, idx):
        b = len(self.palette)
        t = {}
        for j in range(self.n):
            for k in range(self.n):
                idx, d = divmod(idx, b)
                t[(self.answers[k], self.inputs[j])] = self.palette[d]
        return t

    def describe(self, case):
        t = self.table_of(case)
        return {'credit[input][answer]': [[t[(a, i)] for a in self.answers] for i in self.inputs]}

    def check(self, case):
        table = self.table_of(case)
        nontriv_any = False
        outcome = None
        calls = 0
        for (ordered, pc), (g, sub) in self.graders.items():
            sub.config['table'] = table
            calls += 1
            try:
                res = g(None, list(self.inputs))
            except Exception as e:
                return Result('raised', True, viol('tables:raised', 'ordered=%s partial_credit=%s raised %r' % (ordered, pc, e)), calls)
            o, nt, v = check_flat(res, self.inputs, [self.answers], table, ordered, pc,
                                  'tables:%s%s' % ('ordered' if ordered else 'unordered', '' if pc else ':nopartial'))
            nontriv_any = nontriv_any or nt
            if v:
                v['msg'] = 'ordered=%s partial_credit=%s: %s' % (ordered, pc, v['msg'])
                return Result(o, True, v, calls)
            if not ordered and pc:
                outcome = o
        return Result(outcome, nontriv_any, None, calls)


class TablesTwoFree(Tables):
    """4x4 tables with partial credits: two inputs arbitrary, the other two earning credit from exactly one answer"""

    def __init__(self, name, tiers, transposed=False):
        Tables.__init__(self, name, 4, (0, 0.5, 1), tiers)
        self.transposed = transposed
        who = ('answers A0, A1 arbitrary, answers A2, A3 credit exactly one input' if transposed
               else 'inputs I0, I1 arbitrary, inputs I2, I3 earn credit from exactly one answer')
        self.rule = ('every 4x4 credit table over (0, 0.5, 1) in which %s (81 x 81 x 8 x 8 tables), unordered with partial '
                     'credit: one-to-one assignment with brute-force maximal total' % who)

    def setup(self, tier):
        Tables.setup(self, tier)
        self.graders = {k: v for k, v in self.graders.items() if k == (False, True)}
        self.free = list(itertools.product(self.palette, repeat=4))
        self.single = [r for r in self.free if sum(1 for x in r if x) == 1]

    def cases(self, tier):
        if tier not in self.tiers:
            return iter(())
        return iter(range(81 * 81 * 8 * 8))

    def table_of(self, idx):
        idx, a = divmod(idx, 81)
        idx, b = divmod(idx, 81)
        idx, c = divmod(idx, 8)
        idx, d = divmod(idx, 8)
        rows = [self.free[a], self.free[b], self.single[c], self.single[d]]
        t = {}
        for j in range(4):
            for k in range(4):
                if self.transposed:
                    t[(self.answers[j], self.inputs[k])] = rows[j][k]
                else:
                    t[(self.answers[k], self.inputs[j])] = rows[j][k]
        return t


CREDITS = (1, 0.5, 0.3, 0.7, 0.9, 0.2)


class Orders(Family):
    """(b) all n! input orders for n = 5, 6 (quick: 4, 5)"""
    name = 'input_orders'
    rule = ('n in {5,6} [quick {4,5}]: input j matches answer j with distinct credit g_j and answer j+1 with g_j/4; ALL n! '
            'orders of the inputs x ordered {T,F}; every entry must sit at the position of its input and the total must be '
            'the brute-force optimum')

    def setup(self, tier):
        self.cfg = {}

    def get(self, n):
        if n not in self.cfg:
            answers = ['A%d' % k for k in range(n)]
            inputs = ['I%d' % j for j in range(n)]
            table = {}
            for j in range(n):
                table[(answers[j], inputs[j])] = CREDITS[j]
                table[(answers[(j + 1) % n], inputs[j])] = CREDITS[j] / 4.0
            gs = {}
            for ordered in (False, True):
                sub = TableGrader(table=table, name_pairs=True)
                gs[ordered] = ListGrader(answers=list(answers), subgraders=sub, ordered=ordered)
            self.cfg[n] = (answers, inputs, table, gs)
        return self.cfg[n]

    def cases(self, tier):
        for n in ((4, 5) if tier == 'quick' else (5, 6)):
            for perm in itertools.permutations(range(n)):
                yield (n,) + perm

    def check(self, case):
        n, perm = case[0], list(case[1:])
        answers, inputs, table, gs = self.get(n)
        sub_inputs = [inputs[p] for p in perm]
        calls = 0
        for ordered in (False, True):
            calls += 1
            try:
                res = gs[ordered](None, list(sub_inputs))
            except Exception as e:
                return Result('raised', True, viol('orders:raised', '%r' % e), calls)
            o, nt, v = check_flat(res, sub_inputs, [answers], table, ordered, True,
                                  'orders:%s' % ('ordered' if ordered else 'unordered'))
            if v:
                return Result(o, True, v, calls)
        return Result('ok', True, None, calls)


class TwoLists(Family):
    """(c) alternative answer lists"""

    def __init__(self, name, n, palette, tiers, nlists=2):
        self.name = name
        self.n = n
        self.palette = palette
        self.tiers = tiers
        self.nlists = nlists
        self.rule = ('every %d-tuple of %dx%d credit tables over %s, one per alternative answer list, x ordered {T,F}: the '
                     'reported entries must all come from ONE list, form a valid assignment for it, and total the maximum '
                     'over lists (also with partial_credit=False, where the entries are zeroed but still name the list they were '
                     'graded against)' % (nlists, n, n, palette))

    def setup(self, tier):
        n = self.n
        self.lists = [['%s%d' % ('ABC'[l], k) for k in range(n)] for l in range(self.nlists)]
        self.inputs = ['I%d' % j for j in range(n)]
        self.graders = {}
        for ordered in (False, True):
            for pc in (True, False):
                sub = TableGrader(table={}, name_pairs=True)
                g = ListGrader(answers=tuple(list(L) for L in self.lists), subgraders=sub, ordered=ordered, partial_credit=pc)
                self.graders[(ordered, pc)] = (g, sub)

    def cases(self, tier):
        if tier not in self.tiers:
            return
        b = len(self.palette) ** (self.n * self.n)
        for idxs in itertools.product(range(b), repeat=self.nlists):
            yield idxs

    def table_of(self, idxs):
        b = len(self.palette)
        t = {}
        for L, idx in zip(self.lists, idxs):
            for j in range(self.n):
                for k in range(self.n):
                    idx, d = divmod(idx, b)
                    t[(L[k], self.inputs[j])] = self.palette[d]
        return t

    def describe(self, case):
        t = self.table_of(case)
        return {'lists': [[[t[(a, i)] for a in L] for i in self.inputs] for L in self.lists]}

    def check(self, case):
        table = self.table_of(case)
        calls = 0
        nontriv = False
        for (ordered, pc), (g, sub) in self.graders.items():
            sub.config['table'] = table
            calls += 1
            try:
                res = g(None, list(self.inputs))
            except Exception as e:
                return Result('raised', True, viol('lists:raised', '%r' % e), calls)
            o, nt, v = check_flat(res, self.inputs, self.lists, table, ordered, pc,
                                  'lists:%s%s' % ('ordered' if ordered else 'unordered', '' if pc else ':nopartial'))
            nontriv = nontriv or nt
            if v:
                return Result(o, True, v, calls)
        return Result('ok', nontriv, None, calls)


# ------------------------------------------------------------------------------ groupings

def surjections(length, maxgroups):
    for g in range(1, maxgroups + 1):
        for seq in itertools.product(range(1, g + 1), repeat=length):
            if set(seq) == set(range(1, g + 1)):
                yield seq


class Groupings(Family):
    """(d) every valid grouping"""
    name = 'groupings'
    timeout = 60.0
    rule = ('every grouping (surjection of <=5 [quick 4] positions onto groups 1..g, plus 6 boxes in 2 groups of 3) the documentation allows: unordered '
            'outer => equal group sizes and a nested ListGrader (inner ordered or unordered); ordered outer => list of '
            'subgraders (ListGrader for groups of >1); leaf credits: input j matches answer j with distinct credit and a '
            'neighbour answer with a quarter of it; ALL orders of the inputs inside the flat submission; every entry must sit '
            'at the position of the input it grades and the total must be the brute-force optimum over outer x inner '
            'assignments')

    def cases(self, tier):
        maxlen = 4 if tier == 'quick' else 5
        # 6 boxes in 2 groups of 3 (more boxes per group than groups): block layout in both tiers, every layout in thorough
        six = [(1, 1, 1, 2, 2, 2)] if tier == 'quick' else [g for g in surjections(6, 2) if g.count(1) == 3 and g[0] == 1]
        for grouping in six:
            for inner_ordered in (False, True):
                for perm in itertools.permutations(range(6)):
                    yield (grouping, False, inner_ordered, perm)
        # ordered outer grader with a SINGLE nested ListGrader subgrader (one object grades every group), groups of >= 2 boxes
        for grouping in ((1, 1, 2, 2), (1, 1, 2, 2, 2), (1, 1, 1, 2, 2), (2, 2, 1, 1, 1), (1, 1, 2, 2, 3, 3, 3)):
            if tier == 'quick' and len(grouping) > 5:
                continue
            for inner_ordered in (False, True):
                for perm in itertools.permutations(range(len(grouping))):
                    if len(grouping) > 5 and perm[0] > 1:
                        continue
                    yield (grouping, 'single', inner_ordered, perm)
        for length in range(2, maxlen + 1):
            for grouping in surjections(length, length):
                sizes = [grouping.count(g) for g in range(1, max(grouping) + 1)]
                if max(sizes) == 1 or len(sizes) < 2:
                    continue        # no real grouping / a single answer is not a list problem
                for outer_ordered in (False, True):
                    if not outer_ordered and len(set(sizes)) != 1:
                        continue    # unordered needs equal sizes
                    for inner_ordered in (False, True):
                        for perm in itertools.permutations(range(length)):
                            yield (grouping, outer_ordered, inner_ordered, perm)

    def build(self, grouping, outer_ordered, inner_ordered):
        n = len(grouping)
        ngroups = max(grouping)
        members = [[p for p in range(n) if grouping[p] == g] for g in range(1, ngroups + 1)]
        answers_atoms = ['A%d' % p for p in range(n)]
        inputs_atoms = ['I%d' % p for p in range(n)]
        table = {}
        for p in range(n):
            table[(answers_atoms[p], inputs_atoms[p])] = CREDITS[p]
            table[(answers_atoms[(p + 1) % n], inputs_atoms[p])] = CREDITS[p] / 4.0
        leaf = lambda: TableGrader(table=table, name_pairs=True)
        answers = []
        for m in members:
            answers.append(answers_atoms[m[0]] if len(m) == 1 else [answers_atoms[p] for p in m])
        if outer_ordered == 'single':
            g = ListGrader(answers=answers, subgraders=ListGrader(subgraders=leaf(), ordered=inner_ordered), ordered=True,
                           grouping=list(grouping))
        elif outer_ordered:
            subs = [leaf() if len(m) == 1 else ListGrader(subgraders=leaf(), ordered=inner_ordered) for m in members]
            g = ListGrader(answers=answers, subgraders=subs, ordered=True, grouping=list(grouping))
        else:
            g = ListGrader(answers=answers, subgraders=ListGrader(subgraders=leaf(), ordered=inner_ordered),
                           ordered=False, grouping=list(grouping))
        return g, members, answers_atoms, inputs_atoms, table

    def check(self, case):
        grouping, outer_ordered, inner_ordered, perm = [tuple(x) if isinstance(x, list) else x for x in case]
        try:
            g, members, A, I, table = self.build(grouping, outer_ordered, inner_ordered)
        except ConfigError as e:
            return Result('config-rejected', True, viol('grouping:valid-config-rejected',
                                                        'grouping %r rejected: %s' % (grouping, e)))
        n = len(grouping)
        submitted = [I[p] for p in perm]          # box b holds input atom I[perm[b]]
        try:
            res = g(None, list(submitted))
        except Exception as e:
            return Result('raised', True, viol('grouping:raised', '%r' % e))
        entries = res.get('input_list')
        if not isinstance(entries, list) or len(entries) != n:
            return Result('shape', True, viol('grouping:result-shape', 'expected %d entries' % n, n, res))
        pairs = [decode(e['msg']) for e in entries]
        for b, (a, i) in enumerate(pairs):
            if i != submitted[b]:
                return Result('position', True,
                              viol('grouping:entry-at-wrong-position',
                                   'grouping %r: entry %d grades input %r but that box holds %r' % (grouping, b, i, submitted[b]),
                                   submitted[b], i))
        # brute force: outer assignment of input groups to answer groups, inner assignment inside each pair
        def inner_best(in_boxes, ans_pos):
            if len(in_boxes) != len(ans_pos):
                return None
            k = len(in_boxes)
            if inner_ordered or k == 1:
                return sum(table.get((A[ans_pos[t]], submitted[in_boxes[t]]), 0) for t in range(k))
            return max(sum(table.get((A[ans_pos[q[t]]], submitted[in_boxes[t]]), 0) for t in range(k))
                       for q in itertools.permutations(range(k)))
        G = len(members)
        if outer_ordered:
            outer_perms = [tuple(range(G))]
        else:
            outer_perms = list(itertools.permutations(range(G)))
        best = None
        for sigma in outer_perms:
            tot = 0.0
            okk = True
            for gi in range(G):
                v = inner_best(members[gi], members[sigma[gi]])
                if v is None:
                    okk = False
                    break
                tot += v / len(members[gi])
            if okk and (best is None or tot > best):
                best = tot
        # reported: each entry's grade must be its table credit, and the group-averaged total must be the optimum
        tot = 0.0
        used = []
        for gi in range(G):
            gsum = 0.0
            for b in members[gi]:
                a, i = pairs[b]
                exp = table.get((a, i), 0)
                if abs(entries[b]['grade_decimal'] - exp) > EPS:
                    return Result('grade', True, viol('grouping:entry-grade-wrong',
                                                      'entry %d (%s) grade %r, table says %r' % (b, entries[b]['msg'], entries[b]['grade_decimal'], exp),
                                                      exp, entries[b]))
                gsum += exp
                used.append(a)
            tot += gsum / len(members[gi])
        if sorted(used) != sorted(A):
            return Result('not-bijection', True, viol('grouping:assignment-not-one-to-one', 'answers used: %r' % used, A, used))
        # inputs of one group must have been matched with answers of ONE answer group
        for gi in range(G):
            ans_groups = set()
            for b in members[gi]:
                a = pairs[b][0]
                ans_groups.add([k for k in range(G) if int(a[1:]) in members[k]][0])
            if len(ans_groups) != 1:
                return Result('split', True, viol('grouping:group-split-across-answers',
                                                  'inputs of group %d were graded against answers of groups %r' % (gi + 1, sorted(ans_groups))))
            if outer_ordered and ans_groups != {gi}:
                return Result('order', True, viol('grouping:ordered-but-group-moved', 'group %d graded against group %r' % (gi, ans_groups)))
        if abs(tot - best) > EPS:
            return Result('suboptimal', True, viol('grouping:total-not-maximal',
                                                   'grouping %r outer_ordered=%s inner_ordered=%s submitted %r: reported %r (total %r), attainable %r'
                                                   % (grouping, outer_ordered, inner_ordered, submitted, pairs, tot, best), best, tot))
        return Result('tot=%.3g' % tot, True)


ITEMS = ['a', 'b', 'c', 'd', 'z']


class SingleListSub(Family):
    name = 'singlelist_subgrader'
    rule = ('ListGrader over a SingleListGrader subgrader (answers [[a,b],[c,d]]), every pair of two-item submissions over '
            '{a,b,c,d,z} x outer ordered {T,F}: per-box results must equal a direct call of an identically configured '
            'SingleListGrader for the matched answer, and the outer assignment must be the better of the two')

    def setup(self, tier):
        self.gs = {}
        for ordered in (False, True):
            self.gs[ordered] = ListGrader(answers=[['a', 'b'], ['c', 'd']],
                                          subgraders=SingleListGrader(subgrader=self.leaf()), ordered=ordered)
        self.direct = [SingleListGrader(answers=['a', 'b'], subgrader=self.leaf()),
                       SingleListGrader(answers=['c', 'd'], subgrader=self.leaf())]

    @staticmethod
    def leaf():
        t = {(x, x): 1 for x in 'abcd'}
        t[('a', 'c')] = 0.5
        return TableGrader(table=t)

    def cases(self, tier):
        for w in itertools.product(range(len(ITEMS)), repeat=4):
            yield w

    def describe(self, case):
        return ['%s, %s' % (ITEMS[case[0]], ITEMS[case[1]]), '%s, %s' % (ITEMS[case[2]], ITEMS[case[3]])]

    def check(self, case):
        inputs = self.describe(case)
        direct = [[self.direct[k](None, inputs[j]) for k in range(2)] for j in range(2)]
        calls = 4
        for ordered, g in self.gs.items():
            calls += 1
            try:
                res = g(None, list(inputs))
            except Exception as e:
                return Result('raised', True, viol('slsub:raised', '%r' % e), calls)
            ents = res['input_list']
            opts = [(0, 1)] if ordered else [(0, 1), (1, 0)]
            tots = [direct[0][o[0]]['grade_decimal'] + direct[1][o[1]]['grade_decimal'] for o in opts]
            best = max(tots)
            good = False
            for o, t in zip(opts, tots):
                if abs(t - best) <= EPS and all(abs(ents[j]['grade_decimal'] - direct[j][o[j]]['grade_decimal']) <= EPS
                                               and ents[j]['ok'] == direct[j][o[j]]['ok'] for j in range(2)):
                    good = True
            if not good:
                return Result('wrong', True,
                              viol('slsub:%s:not-an-optimal-assignment' % ('ordered' if ordered else 'unordered'),
                                   'inputs %r: got %r; direct results %r' % (inputs, ents, direct), best, ents), calls)
        return Result('tot=%.3g' % best, True, None, calls)


def families(tier):
    fams = [
        Tables('tables_2x2', 2, (0, 0.5, 1), ('quick', 'thorough')),
        Tables('tables_3x3_bin', 3, (0, 1), ('quick',)),
        Tables('tables_3x3', 3, (0, 0.5, 1), ('quick', 'thorough')),
        Tables('tables_4x4_bin', 4, (0, 1), ('quick', 'thorough')),
        Tables('tables_3x3_blank_boxes', 3, (0, 0.5, 1), ('quick', 'thorough'), inputs=['', 'I1', '  ']),
        TablesTwoFree('tables_4x4_two_free_inputs', ('quick', 'thorough')),
        TablesTwoFree('tables_4x4_two_free_answers', ('thorough',), transposed=True),
        Tables('tables_2x2_fine', 2, (0, 0.1, 0.3, 0.33, 1.0 / 3, 0.5, 0.504, 0.7, 0.996, 1), ('quick', 'thorough')),
        Orders(),
        TwoLists('two_lists_2x2', 2, (0, 0.5, 1), ('quick', 'thorough')),
        TwoLists('two_lists_3x3_bin', 3, (0, 1), ('thorough',)),
        TwoLists('three_lists_2x2_bin', 2, (0, 1), ('quick', 'thorough'), nlists=3),
        Groupings(),
        SingleListSub(),
    ]
    return fams
