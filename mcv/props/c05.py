"""
C05 -- ListGrader gives the best consistent assignment and reports it per input box.

ENUM: arbitrary credit matrices are realised through the author-level TableGrader; every
message names the (answer, input) pair that produced it, so the oracle can decode which
answer each box was graded against.  Oracle = brute force over all n! assignments.

Nested / heterogeneous configurations (subgrader lists, alternative lists combined with groupings, alternatives
at the nested level, three levels of nesting, partial_credit=False at inner levels) are judged by the brute-force
model in refs/c05_model.py, which enumerates every result the statement allows.  Real item graders (StringGrader,
NumericalGrader, SingleListGrader) are covered differentially: entries must equal what an identically configured
stand-alone grader returns for the pairs of a maximal assignment.
"""
import itertools
from ..core import Family, Result, viol, HarnessError
from ..fixtures import TableGrader
from ..refs import c05_model as M

from mitxgraders import ListGrader, SingleListGrader

PROPERTY = 'C05'
RULE = ('all n x n credit tables over small palettes, all n! input orders, all pairs of tables for two answer '
        'lists, all valid groupings; a case is non-trivial when not every assignment has the same total (so a '
        'wrong assignment is visible) or, for ordered graders, when the table is not constant; model-driven families: every '
        'tuple of inputs over a small pool of atoms (or every arrangement of the atoms) for each configuration of a fixed '
        'catalogue, non-trivial when some credit is at stake')
EXPLANATION = ('states = distinct (configuration, credit table / input order) cases; transitions = calls of the real '
               'ListGrader; the brute-force assignment search is the oracle only')
ASSUMPTIONS = ['TableGrader (mcv/fixtures.py) realises arbitrary credit matrices through the ItemGrader extension point',
               'which of several optimal assignments / tied answer lists is reported is not constrained',
               'totals compared within 1e-9',
               'TagGrader (mcv/refs/c05_model.py) is a table-driven ItemGrader whose message names its tag, the matched expect '
               'entry, the input and the siblings it received; refs/c05_model.py never calls ListGrader code',
               'a nested ListGrader with partial_credit=False is zeroed before the outer assignment is chosen; the outer grader '
               'is zeroed after the best answer list has been chosen (messages of zeroed entries are left open)',
               'siblings (grader, input per box, in box order) are handed to the subgraders of an ORDERED grader only; an unordered '
               'grader calls its subgrader without siblings (listgrader.py get_ordered_input_list / find_optimal_order)',
               'differential families trust stand-alone StringGrader / NumericalGrader / SingleListGrader results (other properties)']

EPS = 1e-9


def decode(msg):
    """'A1|I2' -> ('A1', 'I2')"""
    a, _, i = msg.partition('|')
    return a, i


def ok_of(g):
    return {0: False, 1: True}.get(g, 'partial')


def best_total(credit, n):
    """credit[j][k] = credit of input j against answer k; returns (max, min) over all bijections"""
    tots = [sum(credit[j][p[j]] for j in range(n)) for p in itertools.permutations(range(n))]
    return max(tots), min(tots)


def check_flat(result, inputs, answers_lists, table, ordered, partial_credit, tag):
    """
    Common oracle for a flat ListGrader over TableGrader(name_pairs).  answers_lists: list of lists of answer
    names.  Returns (outcome, nontrivial, violation).
    """
    n = len(inputs)
    if sorted(result.keys()) != ['input_list', 'overall_message'] or len(result['input_list']) != n:
        return 'shape', True, viol(tag + ':result-shape', 'wrong result structure', None, result)
    entries = result['input_list']
    # which list was reported?  every message names an answer; they must all belong to one list
    pairs = [decode(e['msg']) for e in entries]
    for p, (a, i) in enumerate(pairs):
        if i != inputs[p]:
            return 'position', True, viol(tag + ':entry-at-wrong-position',
                                          'entry %d grades input %r but box %d holds %r' % (p, i, p, inputs[p]),
                                          inputs[p], i)
    cand = [L for L in answers_lists if all(a in L for a, _ in pairs)]
    if not cand:
        return 'mixed', True, viol(tag + ':answers-mixed-between-lists', 'entries matched answers %r' % (pairs,), None, pairs)
    # per-list optimum
    bests = []
    nontriv = False
    for L in answers_lists:
        credit = [[table.get((L[k], inputs[j]), 0) for k in range(n)] for j in range(n)]
        if ordered:
            tot = sum(credit[j][j] for j in range(n))
            bests.append(tot)
            if len(set(sum(credit, []))) > 1:
                nontriv = True
        else:
            hi, lo = best_total(credit, n)
            bests.append(hi)
            if hi - lo > EPS:
                nontriv = True
    overall = max(bests)
    if len(answers_lists) > 1 and max(bests) - min(bests) > EPS:
        nontriv = True
    L = cand[0]
    used = [a for a, _ in pairs]
    if sorted(used) != sorted(L):
        return 'not-bijection', nontriv, viol(tag + ':assignment-not-one-to-one',
                                              'answers used %r are not a permutation of %r' % (used, L), L, used)
    if ordered and used != list(L):
        return 'order', nontriv, viol(tag + ':ordered-but-not-positional', 'ordered grader matched %r' % (pairs,), L, used)
    raw = [table.get((a, i), 0) for a, i in pairs]
    total = sum(raw)
    if abs(total - overall) > EPS:
        return 'suboptimal', nontriv, viol(tag + ':total-not-maximal',
                                           'reported assignment %r earns %r but %r is attainable' % (pairs, total, overall),
                                           overall, total)
    perfect = all(g == 1 for g in raw)
    for p, e in enumerate(entries):
        exp = raw[p] if (partial_credit or perfect) else 0
        if abs(e['grade_decimal'] - exp) > EPS or e['ok'] != ok_of(exp):
            return 'grade', nontriv, viol(tag + ':entry-grade-wrong',
                                          'entry %d (%s) has grade %r ok %r, expected %r' % (p, e['msg'], e['grade_decimal'], e['ok'], exp),
                                          exp, e)
    return ('perfect' if perfect else ('zeroed' if not partial_credit else 'tot=%.3g' % total)), nontriv, None


class Tables(Family):
    """(a) every n x n credit table"""

    def __init__(self, name, n, palette, tiers, inputs=None, answers=None):
        self.name = name
        self.n = n
        self.palette = palette
        self.tiers = tiers
        self.given_inputs = inputs
        self.given_answers = answers
        self.rule = ('every %dx%d credit table over %s x ordered {T,F} x partial_credit {T,F}; unordered results must be a '
                     'one-to-one assignment with brute-force maximal total, each entry at the position of its input%s'
                     % (n, n, palette, '' if inputs is None else '; the submitted boxes are %r (blank boxes are graded by the '
                        'subgrader like any other; boxes holding the SAME text are still separate boxes)' % (inputs,)))
        if answers is not None:
            self.rule += '; the answers are %r (equal answers are still separate answers)' % (answers,)

    def setup(self, tier):
        n = self.n
        self.names()
        self.graders = {}
        for ordered in (False, True):
            for pc in (False, True):
                sub = TableGrader(table={}, name_pairs=True)
                g = ListGrader(answers=list(self.answers), subgraders=sub, ordered=ordered, partial_credit=pc)
                self.graders[(ordered, pc)] = (g, sub)

    def names(self):
        n = self.n
        self.answers = list(self.given_answers) if self.given_answers else ['A%d' % k for k in range(n)]
        self.inputs = list(self.given_inputs) if self.given_inputs else ['I%d' % j for j in range(n)]
        # the DISTINCT (answer, input) pairs, in row-major order of first occurrence (all n*n pairs when names are distinct)
        self.keys = []
        for j in range(n):
            for k in range(n):
                if (self.answers[k], self.inputs[j]) not in self.keys:
                    self.keys.append((self.answers[k], self.inputs[j]))

    def cases(self, tier):
        if tier not in self.tiers:
            return
        self.names()
        b = len(self.palette)
        for idx in range(b ** len(self.keys)):
            yield idx

    def table_of(self, idx):
        b = len(self.palette)
        t = {}
        for key in self.keys:
            idx, d = divmod(idx, b)
            t[key] = self.palette[d]
        return t

    def describe(self, case):
        t = self.table_of(case)
        return {'credit[input][answer]': [[t[(a, i)] for a in self.answers] for i in self.inputs]}

    def check(self, case):
        table = self.table_of(case)
        nontriv_any = False
        outcome = None
        calls = 0
        for (ordered, pc), (g, sub) in self.graders.items():
            sub.config['table'] = table
            calls += 1
            try:
                res = g(None, list(self.inputs))
            except Exception as e:
                return Result('raised', True, viol('tables:raised', 'ordered=%s partial_credit=%s raised %r' % (ordered, pc, e)), calls)
            o, nt, v = check_flat(res, self.inputs, [self.answers], table, ordered, pc,
                                  'tables:%s%s' % ('ordered' if ordered else 'unordered', '' if pc else ':nopartial'))
            nontriv_any = nontriv_any or nt
            if v:
                v['msg'] = 'ordered=%s partial_credit=%s: %s' % (ordered, pc, v['msg'])
                return Result(o, True, v, calls)
            if not ordered and pc:
                outcome = o
        return Result(outcome, nontriv_any, None, calls)


class TablesTwoFree(Tables):
    """4x4 tables with partial credits: two inputs arbitrary, the other two earning credit from exactly one answer"""

    def __init__(self, name, tiers, transposed=False):
        Tables.__init__(self, name, 4, (0, 0.5, 1), tiers)
        self.transposed = transposed
        who = ('answers A0, A1 arbitrary, answers A2, A3 credit exactly one input' if transposed
               else 'inputs I0, I1 arbitrary, inputs I2, I3 earn credit from exactly one answer')
        self.rule = ('every 4x4 credit table over (0, 0.5, 1) in which %s (81 x 81 x 8 x 8 tables), unordered with partial '
                     'credit: one-to-one assignment with brute-force maximal total' % who)

    def setup(self, tier):
        Tables.setup(self, tier)
        self.graders = {k: v for k, v in self.graders.items() if k == (False, True)}
        self.free = list(itertools.product(self.palette, repeat=4))
        self.single = [r for r in self.free if sum(1 for x in r if x) == 1]

    def cases(self, tier):
        if tier not in self.tiers:
            return iter(())
        return iter(range(81 * 81 * 8 * 8))

    def table_of(self, idx):
        idx, a = divmod(idx, 81)
        idx, b = divmod(idx, 81)
        idx, c = divmod(idx, 8)
        idx, d = divmod(idx, 8)
        rows = [self.free[a], self.free[b], self.single[c], self.single[d]]
        t = {}
        for j in range(4):
            for k in range(4):
                if self.transposed:
                    t[(self.answers[j], self.inputs[k])] = rows[j][k]
                else:
                    t[(self.answers[k], self.inputs[j])] = rows[j][k]
        return t


CREDITS = (1, 0.5, 0.3, 0.7, 0.9, 0.2, 0.6, 0.4)      # one per box, up to 8 boxes


class Orders(Family):
    """(b) all n! input orders for n = 5, 6 (quick: 4, 5)"""
    name = 'input_orders'
    rule = ('n in {5,6} [quick {4,5}]: input j matches answer j with distinct credit g_j and answer j+1 with g_j/4; ALL n! '
            'orders of the inputs x ordered {T,F}; every entry must sit at the position of its input and the total must be '
            'the brute-force optimum')

    def setup(self, tier):
        self.cfg = {}

    def get(self, n):
        if n not in self.cfg:
            answers = ['A%d' % k for k in range(n)]
            inputs = ['I%d' % j for j in range(n)]
            table = {}
            for j in range(n):
                table[(answers[j], inputs[j])] = CREDITS[j]
                table[(answers[(j + 1) % n], inputs[j])] = CREDITS[j] / 4.0
            gs = {}
            for ordered in (False, True):
                sub = TableGrader(table=table, name_pairs=True)
                gs[ordered] = ListGrader(answers=list(answers), subgraders=sub, ordered=ordered)
            self.cfg[n] = (answers, inputs, table, gs)
        return self.cfg[n]

    def cases(self, tier):
        for n in ((4, 5) if tier == 'quick' else (5, 6)):
            for perm in itertools.permutations(range(n)):
                yield (n,) + perm

    def check(self, case):
        n, perm = case[0], list(case[1:])
        answers, inputs, table, gs = self.get(n)
        sub_inputs = [inputs[p] for p in perm]
        calls = 0
        for ordered in (False, True):
            calls += 1
            try:
                res = gs[ordered](None, list(sub_inputs))
            except Exception as e:
                return Result('raised', True, viol('orders:raised', '%r' % e), calls)
            o, nt, v = check_flat(res, sub_inputs, [answers], table, ordered, True,
                                  'orders:%s' % ('ordered' if ordered else 'unordered'))
            if v:
                return Result(o, True, v, calls)
        return Result('ok', True, None, calls)


class TwoLists(Family):
    """(c) alternative answer lists"""

    def __init__(self, name, n, palette, tiers, nlists=2):
        self.name = name
        self.n = n
        self.palette = palette
        self.tiers = tiers
        self.nlists = nlists
        self.rule = ('every %d-tuple of %dx%d credit tables over %s, one per alternative answer list, x ordered {T,F}: the '
                     'reported entries must all come from ONE list, form a valid assignment for it, and total the maximum '
                     'over lists (also with partial_credit=False, where the entries are zeroed but still name the list they were '
                     'graded against)' % (nlists, n, n, palette))

    def setup(self, tier):
        n = self.n
        self.lists = [['%s%d' % ('ABC'[l], k) for k in range(n)] for l in range(self.nlists)]
        self.inputs = ['I%d' % j for j in range(n)]
        self.graders = {}
        for ordered in (False, True):
            for pc in (True, False):
                sub = TableGrader(table={}, name_pairs=True)
                g = ListGrader(answers=tuple(list(L) for L in self.lists), subgraders=sub, ordered=ordered, partial_credit=pc)
                self.graders[(ordered, pc)] = (g, sub)

    def cases(self, tier):
        if tier not in self.tiers:
            return
        b = len(self.palette) ** (self.n * self.n)
        for idxs in itertools.product(range(b), repeat=self.nlists):
            yield idxs

    def table_of(self, idxs):
        b = len(self.palette)
        t = {}
        for L, idx in zip(self.lists, idxs):
            for j in range(self.n):
                for k in range(self.n):
                    idx, d = divmod(idx, b)
                    t[(L[k], self.inputs[j])] = self.palette[d]
        return t

    def describe(self, case):
        t = self.table_of(case)
        return {'lists': [[[t[(a, i)] for a in L] for i in self.inputs] for L in self.lists]}

    def check(self, case):
        table = self.table_of(case)
        calls = 0
        nontriv = False
        for (ordered, pc), (g, sub) in self.graders.items():
            sub.config['table'] = table
            calls += 1
            try:
                res = g(None, list(self.inputs))
            except Exception as e:
                return Result('raised', True, viol('lists:raised', '%r' % e), calls)
            o, nt, v = check_flat(res, self.inputs, self.lists, table, ordered, pc,
                                  'lists:%s%s' % ('ordered' if ordered else 'unordered', '' if pc else ':nopartial'))
            nontriv = nontriv or nt
            if v:
                return Result(o, True, v, calls)
        return Result('ok', nontriv, None, calls)


# ------------------------------------------------------------------------------ groupings

def surjections(length, maxgroups):
    for g in range(1, maxgroups + 1):
        for seq in itertools.product(range(1, g + 1), repeat=length):
            if set(seq) == set(range(1, g + 1)):
                yield seq


class Rejected(Exception):
    """the library refused (or crashed on) a configuration the documentation allows"""


class Groupings(Family):
    """(d) every valid grouping"""
    name = 'groupings'
    timeout = 60.0
    rule = ('every grouping (surjection of <=5 [quick 4] positions onto groups 1..g, plus 6 boxes in 2 groups of 3) the documentation allows: unordered '
            'outer => equal group sizes and a nested ListGrader (inner ordered or unordered); ordered outer => list of '
            'subgraders (ListGrader for groups of >1); leaf credits: input j matches answer j with distinct credit and a '
            'neighbour answer with a quarter of it; ALL orders of the inputs inside the flat submission; every entry must sit '
            'at the position of the input it grades and the total must be the brute-force optimum over outer x inner '
            'assignments')

    def cases(self, tier):
        maxlen = 4 if tier == 'quick' else 5
        # 6 boxes in 2 groups of 3 (more boxes per group than groups): block layout in both tiers, every layout in thorough
        six = [(1, 1, 1, 2, 2, 2)] if tier == 'quick' else [g for g in surjections(6, 2) if g.count(1) == 3 and g[0] == 1]
        for grouping in six:
            for inner_ordered in (False, True):
                for perm in itertools.permutations(range(6)):
                    yield (grouping, False, inner_ordered, perm)
        # ordered outer grader with a SINGLE nested ListGrader subgrader (one object grades every group), groups of >= 2 boxes
        for grouping in ((1, 1, 2, 2), (1, 1, 2, 2, 2), (1, 1, 1, 2, 2), (2, 2, 1, 1, 1), (1, 1, 2, 2, 3, 3, 3)):
            if tier == 'quick' and len(grouping) > 5:
                continue
            for inner_ordered in (False, True):
                for perm in itertools.permutations(range(len(grouping))):
                    if len(grouping) > 5 and perm[0] > 1:
                        continue
                    yield (grouping, 'single', inner_ordered, perm)
        for length in range(2, maxlen + 1):
            for grouping in surjections(length, length):
                sizes = [grouping.count(g) for g in range(1, max(grouping) + 1)]
                if max(sizes) == 1 or len(sizes) < 2:
                    continue        # no real grouping / a single answer is not a list problem
                for outer_ordered in (False, True):
                    if not outer_ordered and len(set(sizes)) != 1:
                        continue    # unordered needs equal sizes
                    for inner_ordered in (False, True):
                        for perm in itertools.permutations(range(length)):
                            yield (grouping, outer_ordered, inner_ordered, perm)

    def build(self, grouping, outer_ordered, inner_ordered):
        n = len(grouping)
        ngroups = max(grouping)
        members = [[p for p in range(n) if grouping[p] == g] for g in range(1, ngroups + 1)]
        answers_atoms = ['A%d' % p for p in range(n)]
        inputs_atoms = ['I%d' % p for p in range(n)]
        table = {}
        for p in range(n):
            table[(answers_atoms[p], inputs_atoms[p])] = CREDITS[p]
            table[(answers_atoms[(p + 1) % n], inputs_atoms[p])] = CREDITS[p] / 4.0
        leaf = lambda: TableGrader(table=table, name_pairs=True)
        answers = []
        for m in members:
            answers.append(answers_atoms[m[0]] if len(m) == 1 else [answers_atoms[p] for p in m])
        try:
            if outer_ordered == 'single':
                g = ListGrader(answers=answers, subgraders=ListGrader(subgraders=leaf(), ordered=inner_ordered), ordered=True,
                               grouping=list(grouping))
            elif outer_ordered:
                subs = [leaf() if len(m) == 1 else ListGrader(subgraders=leaf(), ordered=inner_ordered) for m in members]
                g = ListGrader(answers=answers, subgraders=subs, ordered=True, grouping=list(grouping))
            else:
                g = ListGrader(answers=answers, subgraders=ListGrader(subgraders=leaf(), ordered=inner_ordered),
                               ordered=False, grouping=list(grouping))
        except Exception as e:      # whatever the library raises for a documented-valid configuration is judged, not a harness error
            raise Rejected(e)
        return g, members, answers_atoms, inputs_atoms, table

    def check(self, case):
        grouping, outer_ordered, inner_ordered, perm = [tuple(x) if isinstance(x, list) else x for x in case]
        try:
            g, members, A, I, table = self.build(grouping, outer_ordered, inner_ordered)
        except Rejected as e:
            return Result('config-rejected', True, viol('grouping:valid-config-rejected',
                                                        'grouping %r rejected: %r' % (grouping, e.args[0])))
        n = len(grouping)
        submitted = [I[p] for p in perm]          # box b holds input atom I[perm[b]]
        try:
            res = g(None, list(submitted))
        except Exception as e:
            return Result('raised', True, viol('grouping:raised', '%r' % e))
        entries = res.get('input_list')
        if not isinstance(entries, list) or len(entries) != n:
            return Result('shape', True, viol('grouping:result-shape', 'expected %d entries' % n, n, res))
        pairs = [decode(e['msg']) for e in entries]
        for b, (a, i) in enumerate(pairs):
            if i != submitted[b]:
                return Result('position', True,
                              viol('grouping:entry-at-wrong-position',
                                   'grouping %r: entry %d grades input %r but that box holds %r' % (grouping, b, i, submitted[b]),
                                   submitted[b], i))
        # brute force: outer assignment of input groups to answer groups, inner assignment inside each pair
        def inner_best(in_boxes, ans_pos):
            if len(in_boxes) != len(ans_pos):
                return None
            k = len(in_boxes)
            if inner_ordered or k == 1:
                return sum(table.get((A[ans_pos[t]], submitted[in_boxes[t]]), 0) for t in range(k))
            return max(sum(table.get((A[ans_pos[q[t]]], submitted[in_boxes[t]]), 0) for t in range(k))
                       for q in itertools.permutations(range(k)))
        G = len(members)
        if outer_ordered:
            outer_perms = [tuple(range(G))]
        else:
            outer_perms = list(itertools.permutations(range(G)))
        best = None
        for sigma in outer_perms:
            tot = 0.0
            okk = True
            for gi in range(G):
                v = inner_best(members[gi], members[sigma[gi]])
                if v is None:
                    okk = False
                    break
                tot += v / len(members[gi])
            if okk and (best is None or tot > best):
                best = tot
        # reported: each entry's grade must be its table credit, and the group-averaged total must be the optimum
        tot = 0.0
        used = []
        for gi in range(G):
            gsum = 0.0
            for b in members[gi]:
                a, i = pairs[b]
                exp = table.get((a, i), 0)
                if abs(entries[b]['grade_decimal'] - exp) > EPS:
                    return Result('grade', True, viol('grouping:entry-grade-wrong',
                                                      'entry %d (%s) grade %r, table says %r' % (b, entries[b]['msg'], entries[b]['grade_decimal'], exp),
                                                      exp, entries[b]))
                gsum += exp
                used.append(a)
            tot += gsum / len(members[gi])
        if sorted(used) != sorted(A):
            return Result('not-bijection', True, viol('grouping:assignment-not-one-to-one', 'answers used: %r' % used, A, used))
        # inputs of one group must have been matched with answers of ONE answer group
        for gi in range(G):
            ans_groups = set()
            for b in members[gi]:
                a = pairs[b][0]
                ans_groups.add([k for k in range(G) if int(a[1:]) in members[k]][0])
            if len(ans_groups) != 1:
                return Result('split', True, viol('grouping:group-split-across-answers',
                                                  'inputs of group %d were graded against answers of groups %r' % (gi + 1, sorted(ans_groups))))
            if outer_ordered and ans_groups != {gi}:
                return Result('order', True, viol('grouping:ordered-but-group-moved', 'group %d graded against group %r' % (gi, ans_groups)))
        if abs(tot - best) > EPS:
            return Result('suboptimal', True, viol('grouping:total-not-maximal',
                                                   'grouping %r outer_ordered=%s inner_ordered=%s submitted %r: reported %r (total %r), attainable %r'
                                                   % (grouping, outer_ordered, inner_ordered, submitted, pairs, tot, best), best, tot))
        return Result('tot=%.3g' % tot, True)


ITEMS = ['a', 'b', 'c', 'd', 'z']


class SingleListSub(Family):
    name = 'singlelist_subgrader'
    rule = ('ListGrader over a SingleListGrader subgrader (answers [[a,b],[c,d]]), every pair of two-item submissions over '
            '{a,b,c,d,z} x outer ordered {T,F}: per-box results must equal a direct call of an identically configured '
            'SingleListGrader for the matched answer, and the outer assignment must be the better of the two')

    def setup(self, tier):
        self.gs = {}
        for ordered in (False, True):
            self.gs[ordered] = ListGrader(answers=[['a', 'b'], ['c', 'd']],
                                          subgraders=SingleListGrader(subgrader=self.leaf()), ordered=ordered)
        self.direct = [SingleListGrader(answers=['a', 'b'], subgrader=self.leaf()),
                       SingleListGrader(answers=['c', 'd'], subgrader=self.leaf())]

    @staticmethod
    def leaf():
        t = {(x, x): 1 for x in 'abcd'}
        t[('a', 'c')] = 0.5
        return TableGrader(table=t)

    def cases(self, tier):
        for w in itertools.product(range(len(ITEMS)), repeat=4):
            yield w

    def describe(self, case):
        return ['%s, %s' % (ITEMS[case[0]], ITEMS[case[1]]), '%s, %s' % (ITEMS[case[2]], ITEMS[case[3]])]

    def check(self, case):
        inputs = self.describe(case)
        direct = [[self.direct[k](None, inputs[j]) for k in range(2)] for j in range(2)]
        calls = 4
        for ordered, g in self.gs.items():
            calls += 1
            try:
                res = g(None, list(inputs))
            except Exception as e:
                return Result('raised', True, viol('slsub:raised', '%r' % e), calls)
            ents = res['input_list']
            opts = [(0, 1)] if ordered else [(0, 1), (1, 0)]
            tots = [direct[0][o[0]]['grade_decimal'] + direct[1][o[1]]['grade_decimal'] for o in opts]
            best = max(tots)
            good = False
            for o, t in zip(opts, tots):
                if abs(t - best) <= EPS and all(abs(ents[j]['grade_decimal'] - direct[j][o[j]]['grade_decimal']) <= EPS
                                               and ents[j]['ok'] == direct[j][o[j]]['ok'] for j in range(2)):
                    good = True
            if not good:
                return Result('wrong', True,
                              viol('slsub:%s:not-an-optimal-assignment' % ('ordered' if ordered else 'unordered'),
                                   'inputs %r: got %r; direct results %r' % (inputs, ents, direct), best, ents), calls)
        return Result('tot=%.3g' % best, True, None, calls)


# ------------------------------------------------------------------------------ model-driven families (refs/c05_model.py)

QUART = (0.25, 0.5, 0.3, 0.7, 0.2, 0.6, 0.4, 0.1)


def a_table(n, twist=0):
    """input Ik earns 1 from answer Ak and a partial credit from ONE neighbour answer (which one and how much depends on twist)"""
    t = {}
    for k in range(n):
        nb = (k + 1) % n if twist % 2 == 0 else (k - 1) % n
        t[('A%d' % nb, 'I%d' % k)] = QUART[(k + 3 * twist) % 8]
        t[('A%d' % k, 'I%d' % k)] = 1
    return t


def ab_table(n):
    """a_table plus a second family of answers: Bk is fully matched by I(n-1-k) and earns 0.6 from Ik"""
    t = a_table(n)
    for k in range(n):
        t[('B%d' % k, 'I%d' % k)] = 0.6
    for k in range(n):
        t[('B%d' % k, 'I%d' % (n - 1 - k))] = 1
    return t


def one(*items):
    """a single answer list (no alternatives) in model form"""
    return (list(items),)


def A(k):
    return M.alts('A%d' % k)


def B(k):
    return M.alts('B%d' % k)


class ModelFamily(Family):
    """
    Cases are (configuration index, inputs...).  catalog(tier) lists (label, spec, answers, iterable of input tuples);
    the real graders are built once per worker from the spec, the verdict is refs.c05_model.judge (exhaustive search).
    """
    timeout = 30.0

    def catalog(self, tier):
        raise NotImplementedError

    def _cat(self, tier):
        if getattr(self, '_catalog', None) is None or self._catalog[0] != tier:
            self._catalog = (tier, self.catalog(tier))
        return self._catalog[1]

    def setup(self, tier):
        self.tier = tier
        self.built = {}

    def cases(self, tier):
        for ci, (label, spec, answers, inputs) in enumerate(self._cat(tier)):
            for inp in inputs:
                yield (ci,) + tuple(inp)

    def describe(self, case):
        cat = self._cat(getattr(self, 'tier', 'thorough'))
        return {'configuration': cat[case[0]][0], 'inputs': list(case[1:])}

    def grader(self, ci):
        if ci not in self.built:
            label, spec, answers, _ = self._cat(self.tier)[ci]
            self.built[ci] = M.build(spec, answers)
        return self.built[ci]

    def split(self, case):
        return case[0], list(case[1:]), None

    def precall(self, g, inputs, extra):
        return 0

    def check(self, case):
        ci, inputs, extra = self.split(case)
        label, spec, answers, _ = self._cat(self.tier)[ci]
        try:
            g = self.grader(ci)
        except Exception as e:
            return Result('config-rejected', True, viol(self.name + ':valid-config-rejected', '%s rejected: %r' % (label, e)))
        calls = 1 + self.precall(g, inputs, extra)
        try:
            res = g(None, list(inputs))
        except Exception as e:
            return Result('raised', True, viol(self.name + ':raised', '%s inputs %r raised %r' % (label, inputs, e)), calls)
        o, v = M.judge(spec, answers, inputs, res, self.name, viol)
        if v:
            v['msg'] = '%s: %s' % (label, v['msg'])
            return Result(o, True, v, calls)
        return Result(o, o != 'tot=0', None, calls)


class OrderedSubgraderList(ModelFamily):
    name = 'ordered_subgrader_list'
    rule = ('ordered ListGrader with a LIST of three subgraders whose credit tables differ (also one subgrader object used at two '
            'positions), one answer list / two lists that are permutations of each other / answers with alternatives and partial '
            'credits, partial_credit {T,F}; every 3-tuple of inputs over (I0,I1,I2,Z,blank) x {plain call, call after a call '
            'that raised for a wrong number of inputs, call after a call in which a subgrader raised}: entry i must be what '
            'subgrader i returns for answer i and input i, and every subgrader must be told its siblings (grader, input) in box order')

    def catalog(self, tier):
        pool = ('I0', 'I1', 'I2', 'Z', '')
        inputs = [(h,) + x for h in (0, 1, 2) for x in itertools.product(pool, repeat=3)]
        cat = []
        for pc in (True, False):
            T = [M.Leaf('T%d' % t, a_table(3, t), raise_on=('BOOM',)) for t in range(3)]
            perm2 = ([A(0), A(1), A(2)], [A(1), A(0), A(2)])
            cat.append(('3 distinct subgraders, one list, pc=%s' % pc, M.Lst(list(T), True, pc), one(A(0), A(1), A(2)), inputs))
            cat.append(('3 distinct subgraders, lists (A0,A1,A2)/(A1,A0,A2), pc=%s' % pc, M.Lst(list(T), True, pc), perm2, inputs))
            cat.append(('subgraders [T0,T1,T0] (one object twice), two lists, pc=%s' % pc, M.Lst([T[0], T[1], T[0]], True, pc), perm2, inputs))
            alt = one(M.alts('A0', ('A1', 0.5)), A(1), M.alts(('A2', 0.5), 'A0'))
            cat.append(('3 distinct subgraders, answers with alternatives, pc=%s' % pc, M.Lst(list(T), True, pc), alt, inputs))
        return cat

    def split(self, case):
        return case[0], list(case[2:]), case[1]

    def describe(self, case):
        d = ModelFamily.describe(self, (case[0],) + tuple(case[2:]))
        d['history'] = ('plain', 'after wrong-count call', 'after subgrader exception')[case[1]]
        return d

    def precall(self, g, inputs, h):
        if h == 0:
            return 0
        try:
            g(None, inputs[:-1] if h == 1 else inputs[:-1] + ['BOOM'])
        except Exception:
            pass
        return 1


class GroupedAnswerLists(ModelFamily):
    name = 'grouped_answer_lists'
    rule = ('4 boxes in 2 groups (groupings 1122, 1212, 2211 [thorough also 1221]) x outer ordered {T,F} x inner ordered {T,F} x (outer, inner) '
            'partial_credit in {(T,T),(F,T),(T,F)} [quick: 2211 only with (T,T)], TWO alternative answer lists ([[A0,A1],[A2,A3]] and [[B0,B1],[B2,B3]], the '
            'B answers fully matched by the reversed inputs and partly by the straight ones); every 4-tuple of inputs over '
            '(I0..I3, Z): the reported entries must be one of the results the exhaustive search over lists x group assignments '
            'x inner assignments allows (inner zeroing before the outer assignment, outer zeroing after the list is chosen)')

    def catalog(self, tier):
        pool = ('I0', 'I1', 'I2', 'I3', 'Z')
        inputs = list(itertools.product(pool, repeat=4))
        table = ab_table(4)
        cat = []
        for grouping in ((1, 1, 2, 2), (1, 2, 1, 2), (2, 2, 1, 1)) + (((1, 2, 2, 1),) if tier != 'quick' else ()):
            m = [[i for i in range(4) if grouping[i] == g] for g in (1, 2)]
            # the answer of a group lists the atoms of its boxes in box order, so that straight inputs are fully correct
            la = one(*[one(*[A(i) for i in grp]) for grp in m])[0]
            lb = one(*[one(*[B(i) for i in grp]) for grp in m])[0]
            for outer in (False, True):
                for inner in (False, True):
                    for opc, ipc in ((True, True), (False, True), (True, False)):
                        if tier == 'quick' and grouping == (2, 2, 1, 1) and not (opc and ipc):
                            continue
                        spec = M.Lst(M.Lst(M.Leaf('T', table), inner, ipc), outer, opc, grouping)
                        cat.append(('grouping %r outer_ordered=%s inner_ordered=%s partial_credit outer=%s inner=%s'
                                    % (grouping, outer, inner, opc, ipc), spec, (la, lb), inputs))
        return cat


class NestedVariants(ModelFamily):
    name = 'nested_variants'
    rule = ('nested graders beyond the plain case, every tuple of inputs over the atoms (+Z, or + a BLANK box in (b), (c), (e), (f)): (a) a group answer that is itself a '
            'TUPLE of alternative lists, outer/inner ordered {T,F}^2 x groupings 1122/1212; (b) an author SUBCLASS of ListGrader '
            'as nested grader; (c) unordered outer over an ordered inner grader with a list of two different subgraders; '
            '(d) ordered outer with subgraders [L, L] (ONE nested ListGrader object at two positions) for groups of 2 and 3 boxes (quick: the 5! arrangements of I0..I4, thorough: all 5^5 tuples); '
            '(e) ordered outer with subgraders [item, list] for groupings 122/212/221 and two answer lists; (f) flat unordered grader with three alternative lists that SHARE answers; (g) unordered outer over 3 groups of 2 boxes (112233, 123123; thorough also 331122), all 6! arrangements (thorough: also 4 groups of 2, pair-aligned arrangements and those with boxes 1 and 4 exchanged); verdict by exhaustive search')

    def catalog(self, tier):
        cat = []
        pool4 = ('I0', 'I1', 'I2', 'I3', 'Z')
        in4 = list(itertools.product(pool4, repeat=4))
        in4b = list(itertools.product(('I0', 'I1', 'I2', 'I3', ''), repeat=4))      # blank boxes inside groups
        t4 = ab_table(4)
        for grouping in ((1, 1, 2, 2), (1, 2, 1, 2)):
            m = [[i for i in range(4) if grouping[i] == g] for g in (1, 2)]
            for outer in (False, True):
                for inner in (False, True):
                    # (a) first group: alternatives (A.., B..); second group: one list
                    ans = one(([A(i) for i in m[0]], [B(i) for i in m[0]]), one(*[A(i) for i in m[1]]))
                    spec = M.Lst(M.Lst(M.Leaf('T', t4), inner), outer, True, grouping)
                    cat.append(('(a) group 1 has alternative lists, grouping %r outer_ordered=%s inner_ordered=%s'
                                % (grouping, outer, inner), spec, ans, in4))
            # (b)
            ans = one(*[one(*[A(i) for i in grp]) for grp in m])
            spec = M.Lst(M.Lst(M.Leaf('T', t4), False, True, None, M.SubclassedListGrader), False, True, grouping)
            cat.append(('(b) subclassed nested grader, grouping %r' % (grouping,), spec, ans, in4b))
            # (c)
            spec = M.Lst(M.Lst([M.Leaf('T0', a_table(4, 0)), M.Leaf('T1', a_table(4, 1))], True), False, True, grouping)
            cat.append(('(c) unordered outer, inner ordered with subgraders [T0,T1], grouping %r' % (grouping,), spec, ans, in4b))
        # (d)
        pool5 = ('I0', 'I1', 'I2', 'I3', 'I4')
        in5 = (list(itertools.permutations(pool5)) if tier == 'quick' else list(itertools.product(pool5, repeat=5)))
        t5 = a_table(5)
        for grouping in ((1, 1, 2, 2, 2), (2, 2, 2, 1, 1), (2, 1, 2, 1, 2)):
            m = [[i for i in range(5) if grouping[i] == g] for g in (1, 2)]
            for inner in (False, True):
                L = M.Lst(M.Leaf('T', t5), inner)
                spec = M.Lst([L, L], True, True, grouping)
                ans = one(*[one(*[A(i) for i in grp]) for grp in m])
                cat.append(('(d) ordered outer, subgraders [L, L] same object, grouping %r inner_ordered=%s' % (grouping, inner),
                            spec, ans, in5))
        # (e)
        pool3 = ('I0', 'I1', 'I2', 'Z', '')
        in3 = list(itertools.product(pool3, repeat=3))
        t3 = ab_table(3)
        for grouping in ((1, 2, 2), (2, 1, 2), (2, 2, 1), (2, 1, 1), (1, 2, 1), (1, 1, 2)):
            m = [[i for i in range(3) if grouping[i] == g] for g in (1, 2)]
            for inner in (False, True):
                for pc in (True, False):
                    subs, la, lb = [], [], []
                    for grp in m:
                        if len(grp) == 1:
                            subs.append(M.Leaf('S', t3))
                            la.append(A(grp[0]))
                            lb.append(B(grp[0]))
                        else:
                            subs.append(M.Lst(M.Leaf('T', t3), inner))
                            la.append(one(*[A(i) for i in grp]))
                            lb.append(one(*[B(i) for i in grp]))
                    spec = M.Lst(subs, True, pc, grouping)
                    cat.append(('(e) ordered outer, item + list subgraders, grouping %r inner_ordered=%s partial_credit=%s, two lists'
                                % (grouping, inner, pc), spec, (la, lb), in3))
        # (g) unordered outer over three (thorough: also four) groups of two boxes
        t6 = a_table(6)
        perms6 = [tuple('I%d' % q for q in perm) for perm in itertools.permutations(range(6))]
        def three_groups(grouping):
            m = [[i for i in range(6) if grouping[i] == g] for g in (1, 2, 3)]
            for inner in (False, True):
                spec = M.Lst(M.Lst(M.Leaf('T', t6), inner), False, True, grouping)
                cat.append(('(g) unordered outer, 3 groups of 2, grouping %r inner_ordered=%s' % (grouping, inner), spec,
                            one(*[one(*[A(i) for i in grp]) for grp in m]), perms6))
        three_groups((1, 1, 2, 2, 3, 3))
        three_groups((1, 2, 3, 1, 2, 3))
        # (f) flat unordered, alternative lists that share answers
        for pc in (True, False):
            spec = M.Lst(M.Leaf('T', t3), False, pc)
            cat.append(('(f) flat unordered, lists (A0,A1,A2)/(A0,A1,B0)/(B2,A1,A0), partial_credit=%s' % pc, spec,
                        ([A(0), A(1), A(2)], [A(0), A(1), B(0)], [B(2), A(1), A(0)]), in3))
        # thorough-only configurations last, so that a configuration index means the same in both tiers
        if tier != 'quick':
            three_groups((3, 3, 1, 1, 2, 2))
            t8 = a_table(8)
            al = list(aligned8())
            in8 = al + [x[:1] + x[4:5] + x[2:4] + x[1:2] + x[5:] for x in al]
            for grouping in ((1, 1, 2, 2, 3, 3, 4, 4), (4, 3, 2, 1, 1, 2, 3, 4)):
                m = [[i for i in range(8) if grouping[i] == g] for g in (1, 2, 3, 4)]
                for inner in (False, True):
                    spec = M.Lst(M.Lst(M.Leaf('T', t8), inner), False, True, grouping)
                    cat.append(('(g) unordered outer, 4 groups of 2, grouping %r inner_ordered=%s' % (grouping, inner), spec,
                                one(*[one(*[A(i) for i in grp]) for grp in m]), in8))
        return cat


def aligned8():
    """the 4! x 2^4 arrangements of I0..I7 that keep the pairs (I0,I1),(I2,I3),(I4,I5),(I6,I7) in pair-aligned boxes"""
    for sigma in itertools.permutations(range(4)):
        for flips in itertools.product((0, 1), repeat=4):
            yield tuple('I%d' % (2 * sigma[b // 2] + ((b % 2) ^ flips[b // 2])) for b in range(8))


class ThreeLevels(ModelFamily):
    name = 'three_levels'
    timeout = 60.0
    rule = ('ListGrader > ListGrader > ListGrader > item grader.  5 boxes: ordered outer [nested, item] for groupings 11112/21111/'
            '11211, the nested grader grouping its four boxes 1122 or 1212, middle/inner ordered {T,F}^2, ALL 5! arrangements of '
            'the inputs.  8 boxes: outer grouping 11112222 (thorough also 12121212 with middle 1221), middle grouping 1122, '
            'outer/middle/inner ordered {T,F}^3; quick: the 384 pair-aligned arrangements and the 24 unflipped ones with boxes 1 '
            'and 4 exchanged; thorough: ALL 8! arrangements for the block layout (aligned + exchanged for the other); verdict by exhaustive search over all three levels')

    def catalog(self, tier):
        cat = []
        t5 = a_table(5)
        perms5 = [tuple('I%d' % p for p in perm) for perm in itertools.permutations(range(5))]
        for grouping in ((1, 1, 1, 1, 2), (2, 1, 1, 1, 1), (1, 1, 2, 1, 1)):
            four = [i for i in range(5) if grouping[i] == 1]
            single = [i for i in range(5) if grouping[i] == 2][0]
            for mid_grouping in ((1, 1, 2, 2), (1, 2, 1, 2)):
                mm = [[four[i] for i in range(4) if mid_grouping[i] == g] for g in (1, 2)]
                for mid in (False, True):
                    for inner in (False, True):
                        midspec = M.Lst(M.Lst(M.Leaf('T', t5), inner), mid, True, mid_grouping)
                        spec = M.Lst([midspec, M.Leaf('S', t5)], True, True, grouping)
                        ans = one(one(*[one(*[A(i) for i in grp]) for grp in mm]), A(single))
                        cat.append(('5 boxes: outer %r, nested %r middle_ordered=%s inner_ordered=%s' % (grouping, mid_grouping, mid, inner),
                                    spec, ans, perms5))
        t8 = a_table(8)
        al = list(aligned8())
        swapped = [x[:1] + x[4:5] + x[2:4] + x[1:2] + x[5:] for x in al]
        layouts = [((1, 1, 1, 1, 2, 2, 2, 2), (1, 1, 2, 2))]
        if tier != 'quick':
            layouts.append(((1, 2, 1, 2, 1, 2, 1, 2), (1, 2, 2, 1)))
        for li, (og, mg) in enumerate(layouts):
            halves = [[i for i in range(8) if og[i] == g] for g in (1, 2)]
            ans_groups = []
            for half in halves:
                mm = [[half[i] for i in range(4) if mg[i] == g] for g in (1, 2)]
                ans_groups.append(one(*[one(*[A(i) for i in grp]) for grp in mm]))
            ans = one(*ans_groups)
            # arrangements are given for the block layout; for another layout the same atoms are dealt to the boxes of each group
            def deal(x, og=og, mg=mg):
                if li == 0:
                    return x
                order = []
                for half in halves:
                    mm = [[half[i] for i in range(4) if mg[i] == g] for g in (1, 2)]
                    order += mm[0] + mm[1]
                out = [None] * 8
                for src, box in enumerate(order):
                    out[box] = 'I%d' % order[int(x[src][1:])]
                return tuple(out)
            if tier == 'quick':
                inputs = [deal(x) for x in al + swapped[::16]]
            elif li > 0:
                inputs = [deal(x) for x in al + swapped]
            else:
                inputs = [tuple('I%d' % p for p in perm) for perm in itertools.permutations(range(8))]
            for outer in (False, True):
                for mid in (False, True):
                    for inner in (False, True):
                        spec = M.Lst(M.Lst(M.Lst(M.Leaf('T', t8), inner), mid, True, mg), outer, True, og)
                        cat.append(('8 boxes: outer %r middle %r ordered outer=%s middle=%s inner=%s' % (og, mg, outer, mid, inner),
                                    spec, ans, inputs))
        return cat


# ------------------------------------------------------------------------------ differential with real item graders

def answer_form(code):
    """an author's way of writing one answer; fresh objects on every call (the library validates answers in place)"""
    fi, pi = divmod(code, 2)
    x, y = (('a', 'b'), ('', 'c'))[pi]       # the second pair has the EMPTY string as an answer (matched by blank boxes)
    return [lambda: x,
            lambda: (x, y),
            lambda: {'expect': x, 'grade_decimal': 0.5, 'msg': 'half-' + x},
            lambda: ({'expect': x, 'msg': 'good-' + x}, {'expect': y, 'grade_decimal': 0.5, 'msg': 'meh-' + y}),
            lambda: {'expect': (x, y), 'msg': 'either-' + x + y},
            lambda: {'expect': x, 'grade_decimal': 0, 'msg': 'known-wrong-' + x}][fi]()


NFORMS = 12
FORM_INPUTS = ('a', 'b', 'c', '', 'x')


def differential_verdict(tag, entries, direct, ordered, pc, n):
    """
    entries: the ListGrader's input_list; direct[j][k]: result of an identically configured item grader holding answer k
    for input j.  Allowed: the entries of any bijection (the identity if ordered) of maximal total; all zeroed when
    partial_credit is off and not every entry is fully correct (messages are then left open).
    """
    perms = [tuple(range(n))] if ordered else list(itertools.permutations(range(n)))
    tots = [sum(direct[j][p[j]]['grade_decimal'] for j in range(n)) for p in perms]
    best = max(tots)
    for p, t in zip(perms, tots):
        if t < best - EPS:
            continue
        exp = [direct[j][p[j]] for j in range(n)]
        perfect = all(e['ok'] is True and e['grade_decimal'] == 1 for e in exp)
        if pc or perfect:
            good = all(abs(entries[j]['grade_decimal'] - exp[j]['grade_decimal']) <= EPS and entries[j]['ok'] == exp[j]['ok']
                       and entries[j]['msg'] == exp[j]['msg'] for j in range(n))
        else:
            good = all(entries[j]['grade_decimal'] == 0 and entries[j]['ok'] is False for j in range(n))
        if good:
            return ('perfect' if perfect else ('zeroed' if not pc else 'tot=%.3g' % best)), None
    return 'wrong', viol(tag + ':not-the-subgrader-results-of-a-maximal-assignment',
                         'got %r; subgrader results [input][answer] %r' % (entries, direct), best, entries)


class AnswerForms(Family):
    """answers with alternatives, partial credits and messages, graded by a real StringGrader"""

    def __init__(self, name, n, tiers):
        self.name = name
        self.n = n
        self.tiers = tiers
        self.rule = ('ListGrader over StringGrader(wrong_msg set), %d answers, each written in one of 6 forms (string / tuple of '
                     'strings / dict with partial credit and message / tuple of dicts / dict with a tuple of expects / zero-credit '
                     'dict with message) over the pairs (a,b) and (empty string, c); every %d-tuple of inputs over %r x ordered {T,F} x partial_credit '
                     '{T,F}: the entries (ok, grade, message) must be those an identically configured StringGrader returns for '
                     'each (answer, input) of a maximal assignment' % (n, n, FORM_INPUTS))

    def setup(self, tier):
        from mitxgraders import StringGrader
        self.SG = StringGrader
        self.cache = {}
        self.direct = {}

    def cases(self, tier):
        if tier not in self.tiers:
            return
        # inputs in the outer loop: 12^n is a multiple of 16, so a worker process meets (and builds graders for) only
        # 1/16 of the answer lists
        for inp in itertools.product(range(len(FORM_INPUTS)), repeat=self.n):
            for codes in itertools.product(range(NFORMS), repeat=self.n):
                yield codes + inp

    def describe(self, case):
        return {'answers': [repr(answer_form(c)) for c in case[:self.n]], 'inputs': [FORM_INPUTS[i] for i in case[self.n:]]}

    def check(self, case):
        n = self.n
        codes, inputs = tuple(case[:n]), [FORM_INPUTS[i] for i in case[n:]]
        if codes not in self.cache:
            try:
                self.cache[codes] = dict(((o, pc), ListGrader(answers=[answer_form(c) for c in codes],
                                                              subgraders=self.SG(wrong_msg='wrong!'), ordered=o, partial_credit=pc))
                                         for o in (False, True) for pc in (True, False))
            except Exception as e:
                return Result('config-rejected', True, viol(self.name + ':valid-config-rejected',
                                                            'answers %r rejected: %r' % ([answer_form(c) for c in codes], e)), 0)
        for c in codes:
            if c not in self.direct:
                self.direct[c] = self.SG(answers=answer_form(c), wrong_msg='wrong!')
        direct = [[self.direct[c](None, inp) for c in codes] for inp in inputs]
        calls = n * n
        out = None
        for (o, pc), g in sorted(self.cache[codes].items()):
            calls += 1
            try:
                res = g(None, list(inputs))
            except Exception as e:
                return Result('raised', True, viol(self.name + ':raised', 'ordered=%s partial_credit=%s raised %r' % (o, pc, e)), calls)
            oc, v = differential_verdict('%s:%s%s' % (self.name, 'ordered' if o else 'unordered', '' if pc else ':nopartial'),
                                         res['input_list'], direct, o, pc, n)
            if v:
                return Result(oc, True, v, calls)
            if not o and pc:
                out = oc
        return Result(out, out != 'tot=0', None, calls)


class MixedRealSubgraders(Family):
    name = 'mixed_real_subgraders'
    rule = ('ordered ListGrader with subgraders [StringGrader, NumericalGrader, SingleListGrader] and two alternative answer lists, '
            'every input triple over small pools x partial_credit {T,F}: the answers of position i must have been validated and '
            'graded by subgrader i (entries equal the results of identically configured stand-alone graders), best list reported')
    POOLS = (('cat', 'dog', 'x'), ('3.5', '2', '7/2', '1'), ('a, b', 'b,a', 'c,d', 'a'))
    LISTS = (('cat', '3.5', 'a, b'), ('dog', '2', 'c, d'))

    def setup(self, tier):
        self.gs = None

    def build(self):
        from mitxgraders import StringGrader, NumericalGrader, SingleListGrader
        mk = [lambda **kw: StringGrader(**kw), lambda **kw: NumericalGrader(**kw),
              lambda **kw: SingleListGrader(subgrader=StringGrader(), **kw)]
        self.direct = [[mk[k](answers=L[k]) for k in range(3)] for L in self.LISTS]
        self.gs = dict((pc, ListGrader(answers=tuple(list(L) for L in self.LISTS), subgraders=[m() for m in mk],
                                       ordered=True, partial_credit=pc)) for pc in (True, False))

    def cases(self, tier):
        return itertools.product(*[range(len(p)) for p in self.POOLS])

    def describe(self, case):
        return [self.POOLS[k][case[k]] for k in range(3)]

    def check(self, case):
        inputs = self.describe(case)
        if self.gs is None:
            try:
                self.build()
            except Exception as e:
                self.gs = None
                return Result('config-rejected', True, viol('mixed:valid-config-rejected', 'construction raised %r' % (e,)), 0)
        per_list = [[self.direct[l][k](None, inputs[k]) for k in range(3)] for l in range(2)]
        tots = [sum(e['grade_decimal'] for e in L) for L in per_list]
        calls = 6
        for pc, g in sorted(self.gs.items()):
            calls += 1
            try:
                ents = g(None, list(inputs))['input_list']
            except Exception as e:
                return Result('raised', True, viol('mixed:raised', 'partial_credit=%s raised %r' % (pc, e)), calls)
            good = False
            for L, t in zip(per_list, tots):
                if t < max(tots) - EPS:
                    continue
                perfect = all(e['ok'] is True for e in L)
                if pc or perfect:
                    good = good or all(abs(ents[k]['grade_decimal'] - L[k]['grade_decimal']) <= EPS and ents[k]['ok'] == L[k]['ok']
                                       and ents[k]['msg'] == L[k]['msg'] for k in range(3))
                else:
                    good = good or all(ents[k]['grade_decimal'] == 0 and ents[k]['ok'] is False for k in range(3))
            if not good:
                return Result('wrong', True, viol('mixed:not-the-results-of-subgrader-i-for-the-best-list',
                                                  'inputs %r partial_credit=%s: got %r; stand-alone results per list %r'
                                                  % (inputs, pc, ents, per_list), max(tots), ents), calls)
        return Result('tot=%.3g' % max(tots), max(tots) > 0, None, calls)


class ListsDiagonal(TwoLists):
    """three alternative lists, credits only on the positional pairs, so that finer credits fit"""

    def __init__(self, name, n, palette, tiers, nlists=3):
        TwoLists.__init__(self, name, n, palette, tiers, nlists)
        self.rule = ('%d alternative answer lists, every assignment of credits from %s to the %d positional (answer k, input k) pairs '
                     'of every list (all other pairs earn 0) x ordered {T,F} x partial_credit {T,F}: the entries must come from one '
                     'list whose total is the maximum over the lists' % (nlists, palette, n))

    def cases(self, tier):
        if tier not in self.tiers:
            return
        for idx in range(len(self.palette) ** (self.n * self.nlists)):
            yield (idx,)

    def table_of(self, idxs):
        idx = idxs[0]
        b = len(self.palette)
        t = {}
        for L in self.lists:
            for k in range(self.n):
                idx, d = divmod(idx, b)
                t[(L[k], self.inputs[k])] = self.palette[d]
        return t

    def describe(self, case):
        t = self.table_of(case)
        return {'credit of box k against answer k, per list': [[t[(L[k], self.inputs[k])] for k in range(self.n)] for L in self.lists]}


class NumericalUnordered(Family):
    name = 'numerical_subgrader'
    rule = ("ListGrader over a real NumericalGrader, answers ['1', '2', {'expect': '3', 'grade_decimal': 0.5, 'msg': 'three'}], every "
            "triple of inputs over ('1', '2', '3', '1+1', '0') x ordered {T,F} x partial_credit {T,F}: entries must be the results of "
            'an identically configured stand-alone NumericalGrader for the pairs of a maximal assignment')
    POOL = ('1', '2', '3', '1+1', '0')

    @staticmethod
    def answers():
        return ['1', '2', {'expect': '3', 'grade_decimal': 0.5, 'msg': 'three'}]

    def setup(self, tier):
        self.gs = None
        self.memo = {}

    def build(self):
        from mitxgraders import NumericalGrader
        self.direct = [NumericalGrader(answers=a) for a in self.answers()]
        self.gs = dict(((o, pc), ListGrader(answers=self.answers(), subgraders=NumericalGrader(), ordered=o, partial_credit=pc))
                       for o in (False, True) for pc in (True, False))

    def cases(self, tier):
        return itertools.product(range(len(self.POOL)), repeat=3)

    def describe(self, case):
        return [self.POOL[i] for i in case]

    def check(self, case):
        inputs = self.describe(case)
        calls = 0
        if self.gs is None:
            try:
                self.build()
            except Exception as e:
                self.gs = None
                return Result('config-rejected', True, viol(self.name + ':valid-config-rejected', 'construction raised %r' % (e,)), 0)
        for inp in inputs:
            if inp not in self.memo:
                self.memo[inp] = [d(None, inp) for d in self.direct]
                calls += 3
        direct = [self.memo[inp] for inp in inputs]
        out = None
        for (o, pc), g in sorted(self.gs.items()):
            calls += 1
            try:
                res = g(None, list(inputs))
            except Exception as e:
                return Result('raised', True, viol(self.name + ':raised', 'ordered=%s partial_credit=%s raised %r' % (o, pc, e)), calls)
            oc, v = differential_verdict('%s:%s%s' % (self.name, 'ordered' if o else 'unordered', '' if pc else ':nopartial'),
                                         res['input_list'], direct, o, pc, 3)
            if v:
                return Result(oc, True, v, calls)
            if not o and pc:
                out = oc
        return Result(out, out != 'tot=0', None, calls)


def families(tier):
    fams = [
        Tables('tables_2x2', 2, (0, 0.5, 1), ('quick', 'thorough')),
        Tables('tables_3x3_bin', 3, (0, 1), ('quick',)),
        Tables('tables_3x3', 3, (0, 0.5, 1), ('quick', 'thorough')),
        Tables('tables_4x4_bin', 4, (0, 1), ('quick', 'thorough')),
        Tables('tables_3x3_blank_boxes', 3, (0, 0.5, 1), ('quick', 'thorough'), inputs=['', 'I1', '  ']),
        TablesTwoFree('tables_4x4_two_free_inputs', ('quick', 'thorough')),
        TablesTwoFree('tables_4x4_two_free_answers', ('thorough',), transposed=True),
        Tables('tables_2x2_fine', 2, (0, 0.1, 0.3, 0.33, 1.0 / 3, 0.5, 0.504, 0.7, 0.996, 1), ('quick', 'thorough')),
        Orders(),
        TwoLists('two_lists_2x2', 2, (0, 0.5, 1), ('quick', 'thorough')),
        TwoLists('two_lists_3x3_bin', 3, (0, 1), ('thorough',)),
        TwoLists('three_lists_2x2_bin', 2, (0, 1), ('quick', 'thorough'), nlists=3),
        Groupings(),
        SingleListSub(),
        # boxes holding the same text / answers that are equal
        Tables('tables_3x3_dup_inputs', 3, (0, 0.5, 1), ('quick', 'thorough'), inputs=['I0', 'I0', 'I1']),
        Tables('tables_3x3_dup_answers', 3, (0, 0.5, 1), ('quick', 'thorough'), answers=['A0', 'A1', 'A1']),
        Tables('tables_4x4_dup_both', 4, (0, 0.5, 1), ('quick', 'thorough'), inputs=['I0', 'I1', 'I0', 'I1'],
               answers=['A0', 'A0', 'A1', 'A2']),
        OrderedSubgraderList(),
        GroupedAnswerLists(),
        NestedVariants(),
        ThreeLevels(),
        AnswerForms('answer_forms_2', 2, ('quick', 'thorough')),
        AnswerForms('answer_forms_3', 3, ('thorough',)),
        MixedRealSubgraders(),
        NumericalUnordered(),
        ListsDiagonal('three_lists_2x2_diagonal', 2, (0, 0.5, 1), ('quick',)),
        ListsDiagonal('three_lists_2x2_diagonal_4', 2, (0, 0.3, 0.5, 1), ('thorough',)),
        ListsDiagonal('three_lists_3x3_diagonal', 3, (0, 0.5, 1), ('thorough',)),
        ListsDiagonal('two_lists_2x2_diagonal_fine', 2, (0, 0.1, 0.3, 1.0 / 3, 0.5, 0.504, 0.996, 1), ('quick', 'thorough'), nlists=2),
    ]
    return fams
