"""
C06 -- the assignment solver returns a complete minimum-cost matching for any matrix.

ENUM: every matrix of the stated finite families is handed to a fresh
`Munkres().compute`, and compared with a brute-force minimum over all injections.
BFS: one solver instance is driven through every sequence of solves over a
19-matrix alphabet (four of them raise half-way), to closure of the canonical instance state.

Dimensions enumerated besides shape and value palette: magnitude (scaled_magnitudes: one factor from the smallest
denormal to beyond sys.maxsize), entry type (entry_types: bool, numpy.float64, int/float mixed), the profit -> cost
conversion in front of the solver (profit_to_cost_chain: make_cost_matrix with explicit, omitted and None inversion),
all-distinct entries, float and binary rectangles padded to 4x4 / 5x5, sizes beyond the tier's bound (structured).
"""
import copy
import itertools
from ..core import Family, Result, viol, watchdog, Watchdog
from ..bfs import BFSFamily
from ..canon import canon

PROPERTY = 'C06'
RULE = ('every matrix of each family is enumerated (index -> digits in the value palette); '
        'a matrix is non-trivial when not all complete matchings have the same cost '
        '(brute-force minimum != brute-force maximum), i.e. when a wrong matching is distinguishable')
EXPLANATION = ('states = distinct matrices (ENUM) / distinct canonical solver states (BFS); transitions = '
               'executions of the real Munkres.compute; every execution runs the implementation itself, '
               'so traces_validated_against_impl = number of executions')
ASSUMPTIONS = ['costs finite and non-negative (the property\'s own precondition)',
               'float comparison of totals within 1e-9 (within 1e-9 * scale in the scaled-magnitude family)',
               'brute-force minimum over all injections is the trusted oracle',
               'the caller\'s matrix counts as unmodified when its repr (values AND int/float types) is unchanged',
               'uniform magnitudes far above sys.maxsize (floats 1e40, 1e300, int 10**30) are enumerated too (they exposed a '
               'non-termination that has been repaired)',
               'solver_reuse_bfs also replays solves of matrices with DISALLOWED cells that raise UnsolvableMatrix '
               '(outside the statement, not judged) only to leave half-finished state before an in-scope solve']

THIRD = 1.0 / 3
PHI = (5 ** 0.5 - 1) / 2
SQRT2 = 2 ** 0.5
PALETTES = {
    'int012': [0, 1, 2],
    'bin': [0, 1],
    'grade3': [0.0, 1 - THIRD, 1.0],                 # 1-g for g in {1, 1/3, 0}
    'grade5': [0.0, 1 - 0.1, 1 - THIRD, 1 - 0.3, 1.0],   # 1-g, g in {1, .1, 1/3, .3, 0}  -> {0,.9,2/3,.7,1}
    'grade4': [0.0, 0.9, 2.0 / 3, 0.7],
    'float_ties': [0.1, 0.2, 0.30000000000000004, 0.3],   # 0.1+0.2 != 0.3 : near-ties
    'credit4': [0, 0.1, THIRD, 1],                        # PROFITS (credits) with int 0 and int 1, as ListGrader has them
}


def decode(r, c, pal, idx):
    vals = PALETTES[pal]
    b = len(vals)
    m = []
    for i in range(r):
        row = []
        for j in range(c):
            idx, d = divmod(idx, b)
            row.append(vals[d])
        m.append(row)
    return m


def brute(m):
    r, c = len(m), len(m[0])
    if r <= c:
        costs = [sum(m[i][p[i]] for i in range(r)) for p in itertools.permutations(range(c), r)]
    else:
        costs = [sum(m[p[j]][j] for j in range(c)) for p in itertools.permutations(range(r), c)]
    return min(costs), max(costs)


def dp_minmax(m):
    """minimum and maximum cost of a complete matching, by dynamic programming over column subsets (any shape)"""
    r, c = len(m), len(m[0])
    if r > c:
        m = [[m[i][j] for i in range(r)] for j in range(c)]
        r, c = c, r
    out = []
    for pick, worst in ((min, float('inf')), (max, float('-inf'))):
        cur = {0: 0.0}
        for i in range(r):
            nxt = {}
            for mask, val in cur.items():
                for j in range(c):
                    if not mask & (1 << j):
                        k = mask | (1 << j)
                        v = val + m[i][j]
                        if k not in nxt or pick(v, nxt[k]) == v:
                            nxt[k] = v
            cur = nxt
        out.append(pick(cur.values()))
    return out[0], out[1]


def judge(m, solver, oracle=None, tol=1e-9):
    """Run the real solver on matrix m and compare with the oracle.  Returns Result."""
    before = copy.deepcopy(m)
    before_repr = repr(m)
    r, c = len(m), len(m[0])
    try:
        pairs = solver.compute(m)
    except Exception as e:
        return Result('raised', True, viol('raises', 'compute raised %s: %s' % (type(e).__name__, e),
                                           'a matching', repr(e)))
    lo, hi = (oracle or brute)(before)
    nontriv = abs(hi - lo) > tol
    if m != before or repr(m) != before_repr:
        return Result('mutated', nontriv, viol('input-modified', 'caller matrix modified', before_repr, repr(m)))
    ok_shape = (isinstance(pairs, list) and len(pairs) == min(r, c)
                and all(isinstance(p, tuple) and len(p) == 2 and all(isinstance(x, int) for x in p) for p in pairs))
    if not ok_shape:
        return Result('badshape', nontriv, viol('incomplete-matching',
                                                'expected %d (row, col) pairs' % min(r, c), min(r, c), pairs))
    rows = [p[0] for p in pairs]
    cols = [p[1] for p in pairs]
    if (len(set(rows)) != len(rows) or len(set(cols)) != len(cols)
            or any(not (0 <= i < r) for i in rows) or any(not (0 <= j < c) for j in cols)):
        return Result('invalid', nontriv, viol('invalid-matching', 'rows/cols repeated or out of range',
                                               None, pairs))
    tot = sum(before[i][j] for i, j in pairs)
    if abs(tot - lo) > tol:
        return Result('suboptimal', nontriv, viol('not-minimal', 'total %r but minimum is %r' % (tot, lo),
                                                  lo, {'pairs': pairs, 'total': tot}))
    return Result('opt=%.6g' % lo, nontriv)


class MatrixFamily(Family):
    timeout = 5.0
    timeout_sig = 'non-termination'

    def __init__(self, name, shapes, pal, tiers=('quick', 'thorough'), filt=None, note=''):
        self.name = name
        self.shapes = shapes
        self.pal = pal
        self.tiers = tiers
        self.filt = filt
        self.rule = ('all %s matrices over palette %s %s%s; non-trivial = min != max over complete matchings'
                     % (' / '.join('%dx%d' % s for s in shapes), pal, PALETTES[pal], note))

    def setup(self, tier):
        from mitxgraders.helpers.munkres import Munkres
        self.Munkres = Munkres

    def cases(self, tier):
        if tier not in self.tiers:
            return
        b = len(PALETTES[self.pal])
        for (r, c) in self.shapes:
            for idx in range(b ** (r * c)):
                if self.filt is not None and not self.filt(r, c, idx):
                    continue
                yield (r, c, self.pal, idx)

    def describe(self, case):
        return {'matrix': decode(*case)}

    def check(self, case):
        r, c, pal, idx = case
        m = decode(r, c, pal, idx)
        return judge(m, self.Munkres())


class TwoOnes5(MatrixFamily):
    """every 5x5 0/1 matrix with exactly two ones per row (10^5 matrices)"""
    def cases(self, tier):
        if tier not in self.tiers:
            return
        rows = [sum(1 << j for j in comb) for comb in itertools.combinations(range(5), 2)]
        for combo in itertools.product(rows, repeat=5):
            idx = 0
            for i, rowbits in enumerate(combo):
                idx |= rowbits << (5 * i)
            yield (5, 5, 'bin', idx)


GENERATORS = [
    ('(i+1)*(j+1)', lambda i, j, r, c: (i + 1) * (j + 1)),
    ('(i+1)+(j+1)', lambda i, j, r, c: (i + 1) + (j + 1)),
    ('|i-j|', lambda i, j, r, c: abs(i - j)),
    ('(i-j)^2', lambda i, j, r, c: (i - j) ** 2),
    ('max(i,j)', lambda i, j, r, c: max(i, j)),
    ('min(i,j)', lambda i, j, r, c: min(i, j)),
    ('(i*j) mod r', lambda i, j, r, c: (i * j) % r),
    ('(i+2j) mod 5', lambda i, j, r, c: (i + 2 * j) % 5),
    ('r*c-(i+1)*(j+1)', lambda i, j, r, c: r * c - (i + 1) * (j + 1)),
    ('1-(r-i)*(c-j)/(r*c)', lambda i, j, r, c: 1 - (r - i) * (c - j) / float(r * c)),
    ('0.1*(i+1)*(j+1)', lambda i, j, r, c: 0.1 * (i + 1) * (j + 1)),
    ('(i+1)*(c-j)', lambda i, j, r, c: (i + 1) * (c - j)),
    ('i^2+j', lambda i, j, r, c: i * i + j),
    ('1/(i+j+1)', lambda i, j, r, c: 1.0 / (i + j + 1)),
    ('1-1/(i+j+1)', lambda i, j, r, c: 1 - 1.0 / (i + j + 1)),
    ('(3i+5j) mod 7 / 7', lambda i, j, r, c: ((3 * i + 5 * j) % 7) / 7.0),
    # appended later (indices above are referenced by stored replay cases): equidistributed (Weyl) sequences, the
    # enumerated stand-in for "uniform-float", "grade-like decimal credit" and "random integer" matrices
    ('frac((i*c+j+1)*phi)', lambda i, j, r, c: ((i * c + j + 1) * PHI) % 1.0),
    ('1-round(10*frac((i*c+j+1)*phi))/10', lambda i, j, r, c: 1 - round(10 * (((i * c + j + 1) * PHI) % 1.0)) / 10.0),
    ('floor(100*frac((7i+13j+1)*sqrt2))', lambda i, j, r, c: int(100 * (((7 * i + 13 * j + 1) * SQRT2) % 1.0))),
    ('1-g, g=(1,.7,1/3,.1,0)[(i+2j) mod 5]', lambda i, j, r, c: 1 - (1, 0.7, THIRD, 0.1, 0)[(i + 2 * j) % 5]),
]
BEYOND_QUICK = [(r, c) for r in range(1, 11) for c in range(1, 11) if max(r, c) >= 9]
BEYOND_THOROUGH = [(r, c) for r in range(1, 13) for c in range(1, 13) if max(r, c) >= 11]
TRANSFORMS = ['as is', 'rows reversed', 'columns reversed', 'both reversed']


def structured(gi, r, c, ti):
    f = GENERATORS[gi][1]
    m = [[f(i, j, r, c) for j in range(c)] for i in range(r)]
    if ti in (1, 3):
        m = m[::-1]
    if ti in (2, 3):
        m = [row[::-1] for row in m]
    return m


class Structured(Family):
    """larger matrices with regular structure (rank one, Toeplitz, modular, Hilbert): many dual adjustments per augmentation"""
    name = 'structured_up_to_NxN'
    timeout = 20.0
    timeout_sig = 'non-termination'
    rule = (('%d closed-form cost functions %s x every shape r x c with 1 <= r, c <= N (N = 8 quick, 10 thorough) x %s, plus the '
             'untransformed matrices of %s (quick) / %s (thorough); oracle = exact dynamic programme over column subsets')
            % (len(GENERATORS), [g[0] for g in GENERATORS], TRANSFORMS, 'every shape with 9 <= max(r, c) <= 10', 'every shape with 11 <= max(r, c) <= 12'))

    def setup(self, tier):
        from mitxgraders.helpers.munkres import Munkres
        self.Munkres = Munkres

    def cases(self, tier):
        n = 8 if tier == 'quick' else 10
        for gi in range(len(GENERATORS)):
            for r in range(1, n + 1):
                for c in range(1, n + 1):
                    for ti in range(4):
                        yield (gi, r, c, ti)
        # sizes just beyond the bound of the tier, untransformed only
        beyond = BEYOND_QUICK if tier == 'quick' else BEYOND_THOROUGH
        for gi in range(len(GENERATORS)):
            for (r, c) in beyond:
                yield (gi, r, c, 0)

    def describe(self, case):
        gi, r, c, ti = case
        return {'cost(i,j)': GENERATORS[gi][0], 'shape': [r, c], 'transform': TRANSFORMS[ti], 'matrix': structured(*case)}

    def check(self, case):
        return judge(structured(*case), self.Munkres(), oracle=dp_minmax)


class ProductPermutations(Family):
    """every row and column permutation of the 5x5 product matrix"""
    name = 'product5_permutations'
    timeout = 20.0
    timeout_sig = 'non-termination'
    rule = ('the 5x5 matrix (i+1)*(j+1) (and its grade-like form 1-(5-i)(5-j)/25) under every row permutation x every column '
            'permutation (thorough; quick: every row permutation x 6 column permutations); oracle = dynamic programme')

    def setup(self, tier):
        from mitxgraders.helpers.munkres import Munkres
        self.Munkres = Munkres

    def cases(self, tier):
        perms = list(itertools.permutations(range(5)))
        colperms = perms if tier == 'thorough' else [perms[k] for k in (0, 1, 23, 57, 88, 119)]
        for form in (0, 1):
            for rp in range(len(perms)):
                for cp in colperms:
                    yield (form, rp, perms.index(cp))

    def matrix(self, case):
        form, rp, cp = case
        perms = list(itertools.permutations(range(5)))
        base = structured(0 if form == 0 else 9, 5, 5, 0)
        return [[base[i][j] for j in perms[cp]] for i in perms[rp]]

    def describe(self, case):
        return {'matrix': self.matrix(case)}

    def check(self, case):
        return judge(self.matrix(case), self.Munkres(), oracle=dp_minmax)


class TwoFreeRows4(MatrixFamily):
    """4x4 over {0,1,2}: two arbitrary rows, two rows with a single entry below the maximal cost (81*81*8*8 matrices)"""
    def cases(self, tier):
        if tier not in self.tiers:
            return
        rows = list(itertools.product(range(3), repeat=4))
        single = [r for r in rows if sum(1 for x in r if x < 2) == 1]
        for order in ((0, 1, 2, 3), (2, 3, 0, 1), (0, 2, 1, 3)):
            for r1 in rows:
                for r2 in rows:
                    for r3 in single:
                        for r4 in single:
                            rr = [r1, r2, r3, r4]
                            idx, mul = 0, 1
                            for i in order:
                                for d in rr[i]:
                                    idx += d * mul
                                    mul *= 3
                            yield (4, 4, 'int012', idx)


# ---------------------------------------------------------------------------------------------------------------
# magnitudes: the same small matrices multiplied by one factor
# ---------------------------------------------------------------------------------------------------------------
SCALES = [
    # (label, factor, pending)   entry = digit * factor, digit in {0, 1, 2}; int factor -> int matrix, float -> float
    ('float 5e-324 (smallest denormal)', 5e-324, False),
    ('float 1e-300', 1e-300, False),
    ('float 1e-13 (below any absolute epsilon one would pick for costs in [0,1])', 1e-13, False),
    ('float 1e-5', 1e-5, False),
    ('float 3.0 (integral floats)', 3.0, False),
    ('float 1e9', 1e9, False),
    ('float 2**53 (last exactly-countable float)', float(2 ** 53), False),
    ('float 1e18 (just below sys.maxsize)', 1e18, False),
    ('float 1e19 (just above sys.maxsize)', 1e19, False),
    ('int 10**9', 10 ** 9, False),
    ('int 2**62 (2 * factor exceeds sys.maxsize)', 2 ** 62, False),
    ('int 2**63 (sys.maxsize + 1)', 2 ** 63, False),
    ('int 10**20', 10 ** 20, False),
    # these found a genuine defect (repaired, see KNOWN_FINDINGS.json): __find_smallest started at sys.maxsize, so a smallest
    # uncovered value above it was replaced by sys.maxsize; floats >= ~1e35 absorbed the subtraction (endless loop)
    ('float 1e300', 1e300, False),
    ('float 1e40', 1e40, False),
    ('int 10**30', 10 ** 30, False),
]


FULL_IN_QUICK = (1e-13, 1e19, 2 ** 63)     # factors whose 3x3 matrices over {0,1,2} are all in the quick tier


class ScaledMagnitudes(Family):
    """small {0,1,2} matrices times one factor from tiny denormals to beyond sys.maxsize"""
    name = 'scaled_magnitudes'
    timeout = 5.0
    timeout_sig = 'non-termination'
    rule = ('every r x c matrix, r, c <= 3, over {0, 1, 2} (quick: 3x3 over {0, 1} only, except for the factors 1e-13, 1e19 and '
            '2**63) multiplied by each factor of %s; '
            'totals compared within 1e-9 * factor; non-trivial = min != max over complete matchings; '
            'no factor is skipped (pending: %s)'
            % ([x[0] for x in SCALES if not x[2]], [x[0] for x in SCALES if x[2]]))

    def setup(self, tier):
        from mitxgraders.helpers.munkres import Munkres
        self.Munkres = Munkres

    def cases(self, tier):
        for si, (label, factor, pending) in enumerate(SCALES):
            if pending:
                continue
            for r in (1, 2, 3):
                for c in (1, 2, 3):
                    pal = 'bin' if (tier == 'quick' and r == 3 and c == 3 and factor not in FULL_IN_QUICK) else 'int012'
                    for idx in range(len(PALETTES[pal]) ** (r * c)):
                        yield (si, r, c, pal, idx)

    def matrix(self, case):
        si, r, c, pal, idx = case
        f = SCALES[si][1]
        return [[d * f for d in row] for row in decode(r, c, pal, idx)]

    def describe(self, case):
        return {'factor': SCALES[case[0]][0], 'matrix': self.matrix(case)}

    GIVE_UP_AFTER = 3      # non-terminating solves per factor and worker process
    INNER_TIMEOUT = 2.0

    def check(self, case):
        f = SCALES[case[0]][1]
        hung = self.__dict__.setdefault('_hung', {})
        if hung.get(case[0], 0) >= self.GIVE_UP_AFTER:
            # a tree that loops on this factor would cost INNER_TIMEOUT per remaining case; the verdict is already VIOLATION
            return Result('not run: %d solves with this factor did not terminate in this worker' % self.GIVE_UP_AFTER, False)
        try:
            with watchdog(self.INNER_TIMEOUT):       # (replaces the runner's timer for the rest of this case)
                res = judge(self.matrix(case), self.Munkres(), tol=1e-9 * f)
        except Watchdog:
            hung[case[0]] = hung.get(case[0], 0) + 1
            return Result('TIMEOUT', True, viol(self.timeout_sig, 'compute did not finish within %.0fs' % self.INNER_TIMEOUT))
        if res.violation is None:
            res = Result('%s:%s' % ('int' if isinstance(f, int) else 'float',
                                    'trivial' if not res.nontrivial else 'solved'), res.nontrivial)
        return res


# ---------------------------------------------------------------------------------------------------------------
# profits -> costs -> matching (make_cost_matrix, as mitxgraders.listgrader.find_optimal_order chains them)
# ---------------------------------------------------------------------------------------------------------------
PROFIT_MODES = ['inversion_function = (top - x), top = largest palette value',
                'inversion_function omitted (documented default: max(matrix) - x)',
                'inversion_function=None passed explicitly']


class ProfitToCost(Family):
    name = 'profit_to_cost_chain'
    timeout = 5.0
    timeout_sig = 'non-termination'
    rule = ('profit matrices: every shape r, c <= 3 over {0, 1, 2} (3x3 over {0, 1}) and every 2x2 / 2x3 / 3x2 over the credits '
            '%s, converted by munkres.make_cost_matrix in each of %s, then solved by a fresh Munkres; oracle: every cost '
            'equals the closed formula exactly, the result is a new list of new rows, the profit matrix is unchanged, and '
            'the matching of the cost matrix is minimal by brute force (= maximal profit)' % (PALETTES['credit4'], PROFIT_MODES))

    def setup(self, tier):
        from mitxgraders.helpers import munkres
        self.mod = munkres

    def cases(self, tier):
        for mode in range(len(PROFIT_MODES)):
            for r in (1, 2, 3):
                for c in (1, 2, 3):
                    pal = 'bin' if (r == 3 and c == 3) else 'int012'
                    for idx in range(len(PALETTES[pal]) ** (r * c)):
                        yield (mode, r, c, pal, idx)
            for (r, c) in ((2, 2), (2, 3), (3, 2)):
                for idx in range(4 ** (r * c)):
                    yield (mode, r, c, 'credit4', idx)

    def describe(self, case):
        return {'mode': PROFIT_MODES[case[0]], 'profit matrix': decode(*case[1:])}

    def check(self, case):
        mode, r, c, pal, idx = case
        profit = decode(r, c, pal, idx)
        before = repr(profit)
        rows_before = list(profit)
        top = max(PALETTES[pal]) if mode == 0 else max(max(row) for row in profit)
        expected = [[top - v for v in row] for row in profit]
        try:
            if mode == 0:
                cost = self.mod.make_cost_matrix(profit, lambda x: top - x)
            elif mode == 1:
                cost = self.mod.make_cost_matrix(profit)
            else:
                cost = self.mod.make_cost_matrix(profit, inversion_function=None)
        except Exception as e:
            return Result('raised', True, viol('make_cost_matrix:raises', 'make_cost_matrix raised %s: %s'
                                               % (type(e).__name__, e), expected, repr(e)))
        if repr(profit) != before or any(a is not b for a, b in zip(profit, rows_before)):
            return Result('mutated', True, viol('make_cost_matrix:input-modified', 'profit matrix modified', before,
                                                repr(profit)))
        if not isinstance(cost, list) or repr(cost) != repr(expected):
            return Result('wrongcost', True, viol('make_cost_matrix:wrong-cost', 'cost matrix is not inversion(profit)',
                                                  expected, repr(cost)))
        if cost is profit or any(a is b for a in cost for b in profit) or len(set(map(id, cost))) != len(cost):
            return Result('aliased', True, viol('make_cost_matrix:aliased', 'cost matrix shares row objects', None, None))
        res = judge(cost, self.mod.Munkres())
        if res.violation is None and repr(profit) != before:
            return Result('mutated', True, viol('make_cost_matrix:input-modified', 'profit matrix modified by the solve',
                                                before, repr(profit)))
        return res


class DistinctValues(Family):
    """all entries different: every dual adjustment has a different size"""
    name = 'all_distinct_entries'
    timeout = 5.0
    timeout_sig = 'non-termination'
    rule = ('every arrangement of the integers 0 .. r*c-1 in an r x c matrix for (r, c) = 2x2, 2x3, 3x2 and (thorough only) '
            '3x3 (362 880 matrices); non-trivial = min != max over complete matchings')

    def setup(self, tier):
        from mitxgraders.helpers.munkres import Munkres
        self.Munkres = Munkres

    def cases(self, tier):
        for (r, c) in ((2, 2), (2, 3), (3, 2)):
            for k in range(_fact(r * c)):
                yield (r, c, k)
        if tier == 'thorough':
            for k in range(_fact(9)):
                yield (3, 3, k)

    def matrix(self, case):
        r, c, k = case
        flat = _nth_perm(r * c, k)
        return [flat[i * c:(i + 1) * c] for i in range(r)]

    def describe(self, case):
        return {'matrix': self.matrix(case)}

    def check(self, case):
        return judge(self.matrix(case), self.Munkres())


def _fact(n):
    out = 1
    for i in range(2, n + 1):
        out *= i
    return out


def _nth_perm(n, k):
    """k-th permutation of 0..n-1 in lexicographic order (factorial number system)"""
    items = list(range(n))
    out = []
    for i in range(n, 0, -1):
        f = _fact(i - 1)
        q, k = divmod(k, f)
        out.append(items.pop(q))
    return out


ENTRY_KINDS = ['bool (an int subclass): False / True',
               'numpy.float64 (a float subclass): 0, 2/3, 1',
               'int and float mixed in one matrix: 0, 0.5, 1 (what 1 - grade_decimal gives ListGrader)']


class EntryTypes(Family):
    """subclasses of int / float as entries, and both kinds mixed"""
    name = 'entry_types'
    timeout = 5.0
    timeout_sig = 'non-termination'
    rule = ('every r x c matrix with r, c <= 3 whose entries are %s (3x3 only for bool); same oracle as everywhere; '
            'the caller\'s matrix must keep the types of its entries' % ENTRY_KINDS)

    def setup(self, tier):
        import numpy
        from mitxgraders.helpers.munkres import Munkres
        self.Munkres = Munkres
        self.values = [[False, True],
                       [numpy.float64(0), numpy.float64(2.0 / 3), numpy.float64(1)],
                       [0, 0.5, 1]]

    def cases(self, tier):
        for kind in range(len(ENTRY_KINDS)):
            b = 2 if kind == 0 else 3
            for r in (1, 2, 3):
                for c in (1, 2, 3):
                    if r == 3 and c == 3 and kind != 0:
                        continue
                    for idx in range(b ** (r * c)):
                        yield (kind, r, c, idx)

    def matrix(self, case):
        kind, r, c, idx = case
        vals = self.values[kind]
        m = []
        for i in range(r):
            row = []
            for j in range(c):
                idx, d = divmod(idx, len(vals))
                row.append(vals[d])
            m.append(row)
        return m

    def describe(self, case):
        return {'entries': ENTRY_KINDS[case[0]], 'matrix': repr(self.matrix(case))}

    def check(self, case):
        m = self.matrix(case)
        types_before = [[type(x) for x in row] for row in m]
        res = judge(m, self.Munkres())
        if res.violation is None and [[type(x) for x in row] for row in m] != types_before:
            return Result('mutated', res.nontrivial, viol('input-modified', 'entry types of the caller matrix changed',
                                                         repr(types_before), repr(m)))
        return res


ALPHABET = [
    [[5]],
    [[3, 1, 2]],
    [[3], [1], [2]],
    [[1, 1], [1, 1]],
    [[0.0, 0.9, 2.0 / 3], [0.7, 0.0, 0.9], [2.0 / 3, 0.7, 1.0]],
    [[0, 1, 1, 1], [0, 1, 1, 1], [1, 0, 0, 1], [1, 0, 1, 0]],      # needs steps 4-6
    [[2, 0, 1, 2], [1, 2, 0, 0]],
    [[1, 2, 0], [0, 0, 2], [2, 1, 1], [0, 2, 2], [1, 0, 0]],
    [[7, 7, 7, 7], [7, 7, 7, 7], [7, 7, 7, 7], [7, 7, 7, 7]],
    [[1, 2, 3], [2, 4, 6], [3, 6, 9]],                              # classic step-6 example
    # appended later.  'D' = munkres.DISALLOWED: these four raise UnsolvableMatrix out of step 6 and leave stars, a prime,
    # covered lines (and, for the 5x5, Z0 = (3, 3)) on the instance; the raising solve itself is not judged
    [[0, 'D'], [0, 'D']],
    [[0, 0, 'D'], ['D', 'D', 0], ['D', 'D', 0]],
    [[0, 0, 'D', 'D'], ['D', 'D', 0, 'D'], ['D', 'D', 0, 'D'], ['D', 'D', 'D', 0]],
    [[1, 0, 0, 'D', 'D'], [0, 0, 'D', 'D', 'D'], ['D', 'D', 'D', 0, 0], ['D', 'D', 'D', 0, 1], ['D', 'D', 'D', 0, 1]],
    [[0, 1], [0, 2]],                                               # 2x2 that needs step 6
    [[0.9, 0.7], [2.0 / 3, 0.0], [0.7, 0.9]],                       # float, more rows than columns
    [[1, 2], [0, 2], [2, 0], [1, 1]],                               # 4x2
    [[0.0, 1e-13], [1e-13, 3e-13]],                                 # tiny magnitudes
    [[10 ** 19, 2 * 10 ** 19], [2 * 10 ** 19, 5 * 10 ** 19]],      # ints above sys.maxsize
]


def has_disallowed(m):
    return any(x == 'D' for row in m for x in row)


def solve_expecting_raise(m, solver, mod):
    """a matrix with DISALLOWED cells that cannot be solved: outside the property; only its after-effects matter"""
    real = [[mod.DISALLOWED if x == 'D' else x for x in row] for row in m]
    try:
        solver.compute(real)
    except mod.UnsolvableMatrix:
        return Result('raised UnsolvableMatrix (expected, not judged)', True)
    except Exception as e:
        return Result('raised %s (not judged)' % type(e).__name__, True)
    return Result('returned (not judged)', True)


class ReuseCtx(object):
    pass


class SolverReuse(BFSFamily):
    name = 'solver_reuse_bfs'
    rule = ('explicit-state search over sequences of compute(M) on ONE Munkres instance, M from a %d-matrix '
            'alphabet (1x1, 1x3, 3x1, ties, float 3x3, step-6 4x4, 2x4, 5x3, all-equal, multiplicative 3x3, four unsolvable '
            'DISALLOWED matrices 2x2 .. 5x5 whose solve RAISES half-way, step-6 2x2, float 3x2, 4x2, tiny floats, ints above '
            'sys.maxsize); state = canonical instance __dict__; every transition checked with the brute-force oracle and '
            'against a fresh solver' % len(ALPHABET))
    depth_cap = 4
    workers = 4
    timeout = 5.0

    def setup(self, tier):
        from mitxgraders.helpers import munkres
        self.mod = munkres
        self.Munkres = munkres.Munkres

    GIVE_UP_AFTER = 3      # non-terminating solves per event and worker process
    INNER_TIMEOUT = 2.0

    def solve(self, e, solver):
        m = copy.deepcopy(ALPHABET[e])
        if has_disallowed(m):
            return solve_expecting_raise(m, solver, self.mod)
        tol = 1e-9 * max(1e-13, min(1.0, max(max(row) for row in m)))
        hung = self.__dict__.setdefault('_hung', {})
        if hung.get(e, 0) >= self.GIVE_UP_AFTER:
            # keep a broken tree from costing INNER_TIMEOUT per history: the verdict is already VIOLATION
            return Result('TIMEOUT', True, viol('non-termination', 'not run: event %d did not terminate %d times in this worker'
                                                % (e, self.GIVE_UP_AFTER)))
        try:
            with watchdog(self.INNER_TIMEOUT):       # (replaces the runner's timer for the rest of this history)
                return judge(m, solver, tol=tol)
        except Watchdog:
            hung[e] = hung.get(e, 0) + 1
            return Result('TIMEOUT', True, viol('non-termination', 'compute did not finish within %.0fs' % self.INNER_TIMEOUT))

    def events(self, tier):
        return list(range(len(ALPHABET)))

    def build(self, hist):
        ctx = ReuseCtx()
        ctx.solver = self.Munkres()
        ctx.obs = []
        ctx.last = None
        for e in hist:
            ctx.last = self.solve(e, ctx.solver)
            ctx.obs.append(ctx.last.outcome)
        return ctx

    def state_key(self, ctx):
        return canon(ctx.solver.__dict__)

    def check_transition(self, hist, ev, ctx):
        if ctx.last.violation:
            v = dict(ctx.last.violation)
            v['sig'] = 'reuse:' + v['sig']
            return v
        fresh = self.solve(ev, self.Munkres())
        if fresh.outcome != ctx.last.outcome:
            return viol('reuse:differs-from-fresh', 'reused solver gives a different optimum than a fresh one',
                        fresh.outcome, ctx.last.outcome)
        return None


def families(tier):
    fams = [
        MatrixFamily('rect_le3_int012', [(r, c) for r in (1, 2, 3) for c in (1, 2, 3)], 'int012'),
        MatrixFamily('sq4_bin', [(4, 4)], 'bin'),
        MatrixFamily('sq3_grade3', [(3, 3)], 'grade3', tiers=('quick',)),
        MatrixFamily('rect23_grade5', [(2, 3), (3, 2), (2, 2)], 'grade5'),
        MatrixFamily('sq3_float_ties', [(3, 3)], 'float_ties', note=' (0.1+0.2 vs 0.3: near-tie floats)'),
        TwoFreeRows4('sq4_int012_two_free_rows', [(4, 4)], 'int012',
                     note=' restricted to two arbitrary rows + two rows with a single entry below 2, in three row arrangements'),
        Structured(),
        ProductPermutations(),
        SolverReuse(),
        ScaledMagnitudes(),
        ProfitToCost(),
        DistinctValues(),
        EntryTypes(),
        MatrixFamily('rect24_grade3', [(2, 4), (4, 2)], 'grade3', note=' (float costs, padded to 4x4)'),
        MatrixFamily('rect_pad4_pad5_bin', [(1, 4), (4, 1), (2, 4), (4, 2), (3, 4), (4, 3), (1, 5), (5, 1), (2, 5), (5, 2)], 'bin',
                     note=' (rectangular shapes padded to 4x4 / 5x5)'),
    ]
    if tier == 'thorough':
        fams += [
            MatrixFamily('sq3_grade5', [(3, 3)], 'grade5', tiers=('thorough',)),
            MatrixFamily('rect34_int012', [(3, 4), (4, 3)], 'int012', tiers=('thorough',)),
            MatrixFamily('rect25_int012', [(2, 5), (5, 2)], 'int012', tiers=('thorough',)),
            TwoOnes5('sq5_bin_two_ones', [(5, 5)], 'bin', tiers=('thorough',),
                     note=' restricted to exactly two ones per row'),
            MatrixFamily('rect24_grade4', [(2, 4), (4, 2)], 'grade4', tiers=('thorough',)),
            MatrixFamily('rect35_bin', [(3, 5), (5, 3)], 'bin', tiers=('thorough',)),
            MatrixFamily('rect34_grade3', [(3, 4), (4, 3)], 'grade3', tiers=('thorough',)),
            MatrixFamily('sq4_int012', [(4, 4)], 'int012', tiers=('thorough',),
                         note=' (all 43 046 721 matrices: the smallest exhaustive space with 4x4 partial costs)'),
        ]
    return fams
