"""
C08 -- among alternative answers the student always receives the best-scoring one.

ENUM: every ORDERED tuple of 1..4 distinct alternatives from a pool of 8, x wrong_msg x inputs,
for six grader kinds and the same graders used as subgraders.  Oracle by decomposition: the
result must be the best of the results of identically configured graders that each hold only ONE
of the alternatives.
"""
import itertools
from ..core import Family, Result, viol, HarnessError
from ..fixtures import TableGrader
from .. import chooser

from mitxgraders import (StringGrader, FormulaGrader, NumericalGrader, MatrixGrader, SingleListGrader, ListGrader)
from mitxgraders.exceptions import MITxError

PROPERTY = 'C08'
RULE = ('every ordered tuple of 1..4 [quick 3] distinct alternatives from an 8-entry pool (credits 1, .5, .3, 0; messages of '
        'different and equal lengths; a tuple-valued expect; alternatives matching the same input) x wrong_msg {"", "W", a long one} x '
        'inputs; non-trivial = at least two alternatives in the tuple give different single-alternative results')
EXPLANATION = 'states = distinct (kind, ordered tuple, wrong_msg, input) cases; transitions = real grader calls'
ASSUMPTIONS = ['single-alternative graders (fresh, no wrong_msg) define what an input earns against one alternative',
               'among alternatives tied in grade AND message length either message is accepted',
               'RNG owned by the explorer with default answers (formula kinds), so full and single graders see the same samples']

EPS = 1e-12


def pool_for(e_cat, e_dog, e_emu):
    return [
        e_cat,
        {'expect': e_cat, 'grade_decimal': 0.5, 'msg': 'half'},
        {'expect': e_dog, 'grade_decimal': 0.3, 'msg': 'm'},
        {'expect': e_dog, 'grade_decimal': 0.3, 'msg': 'longer msg'},
        {'expect': (e_cat, e_emu), 'grade_decimal': 0, 'msg': 'zero!'},
        {'expect': e_emu, 'grade_decimal': 0.3, 'msg': 'n'},
        {'expect': e_dog, 'grade_decimal': 0.3, 'msg': 'k'},
        {'expect': (e_dog, e_cat), 'grade_decimal': 1, 'msg': 'tup'},     # tuple-valued, full credit: members may earn partial credit
    ]


KINDS = {
    'string': dict(make=lambda **kw: StringGrader(**kw), expects=('cat', 'dog', 'emu'),
                   inputs=['cat', 'dog', 'emu', 'none', ' Cat']),
    'table': dict(make=lambda **kw: TableGrader(table={('p', 'x'): 1, ('q', 'y'): 1, ('r', 'z'): 1, ('p', 'y'): 0.5,
                                                       ('q', 'x'): (0.25, 'tm')}, **kw),
                  expects=('p', 'q', 'r'), inputs=['x', 'y', 'z', 'w']),
    'formula': dict(make=lambda **kw: FormulaGrader(variables=['x'], **kw), expects=('x+1', '2*x', 'x^2'),
                    inputs=['1+x', 'x*2', 'x*x', 'x+7', 'x+']),
    'numerical': dict(make=lambda **kw: NumericalGrader(**kw), expects=('2', '3', '5'),
                      inputs=['2', '3.0', '5', '7', '1/0']),
    'matrix': dict(make=lambda **kw: MatrixGrader(**kw), expects=('[1,2]', '[3,4]', '[5,6]'),
                   inputs=['[1,2]', '[3,4]', '[5,6]', '[0,0]', '[1,2,3]']),
    'singlelist': dict(make=lambda **kw: SingleListGrader(subgrader=StringGrader(), **kw),
                       expects=('a,b', 'c,d', 'e,f'), inputs=['b,a', 'c,d', 'e,f', 'z,z', 'a,z', 'c']),
    # alternatives that mention different numbered-variable instances (each alternative needs its own samples)
    'formula_numbered': dict(make=lambda **kw: FormulaGrader(variables=['x'], numbered_vars=['a'], **kw),
                             expects=('a_{1}+x', 'a_{1}+a_{2}', 'a_{3}*x'),
                             inputs=['x+a_{1}', 'a_{2}+a_{1}', 'x*a_{3}', 'a_{1}', 'a_{4}', 'a_{1}+']),
    # members of one expect tuple that earn DIFFERENT partial credit for the same input
    'singlelist3': dict(make=lambda **kw: SingleListGrader(subgrader=StringGrader(), **kw),
                        expects=('a,b,c', 'a,b,d', 'x,y,z'), inputs=['a,b,c', 'a,b,d', 'x,y,z', 'a,b,z', 'a,q,q', 'q,q,q']),
    'matrix_entry': dict(make=lambda **kw: MatrixGrader(entry_partial_credit=0.5, **kw),
                         expects=('[1,2]', '[1,3]', '[5,6]'), inputs=['[1,2]', '[1,3]', '[5,6]', '[1,0]', '[0,0]']),
    # suppressed matrix errors come back as zero-grade results: wrong_msg applies to them
    'matrix_suppressed': dict(make=lambda **kw: MatrixGrader(suppress_matrix_messages=True, **kw),
                              expects=('[1,2]', '[3,4]', '[5,6]'), inputs=['[1,2]', '[3,4]', '[1,2,3]', '[1,2]+1', '[0,0]', '[[1,2]]']),
}


def run(g, inp, listform=False, expect=None):
    def body(ch):
        try:
            return ('ok', g(expect, inp))
        except MITxError as e:
            return ('mitx', type(e).__name__, str(e))
        except Exception as e:
            return ('raw', type(e).__name__, str(e))
    ch, out = chooser.run_with(body)
    return out


def judge(full, singles, wrong_msg, where, tag):
    """full: ('ok', result) of the grader with all alternatives; singles: list of single-alternative outcomes"""
    if any(s[0] != 'ok' for s in singles):
        if full[0] == 'ok':
            return 'raise', viol(tag + ':alternative-raises-but-result-returned',
                                 '%s: an alternative alone raises %r but the full grader returned %r'
                                 % (where, [s for s in singles if s[0] != 'ok'][0], full[1]))
        if full[0] == 'raw':
            return 'raise', viol(tag + ':raw-error', '%s: non-library error %r' % (where, full))
        return 'raises', None
    if full[0] != 'ok':
        return 'raise', viol(tag + ':raised', '%s: raised %r although every alternative alone grades' % (where, full))
    res = full[1]
    grades = [s[1]['grade_decimal'] for s in singles]
    best = max(grades)
    if abs(res['grade_decimal'] - best) > EPS:
        return 'grade', viol(tag + ':not-the-maximum', '%s: grade %r but the best single alternative earns %r (singles %r)'
                             % (where, res['grade_decimal'], best, grades), best, res)
    top = [s[1] for s in singles if abs(s[1]['grade_decimal'] - best) <= EPS]
    maxlen = max(len(t['msg']) for t in top)
    allowed = set(t['msg'] for t in top if len(t['msg']) == maxlen)
    if allowed == {''} and best == 0:
        allowed = {wrong_msg}
    if res['msg'] not in allowed:
        return 'msg', viol(tag + ':wrong-message', '%s: message %r, allowed %r' % (where, res['msg'], sorted(allowed)),
                           sorted(allowed), res['msg'])
    exp_ok = {0: False, 1: True}.get(best, 'partial')
    oks = set(t['ok'] for t in top)
    if res['ok'] not in oks:
        return 'ok', viol(tag + ':ok-flag', '%s: ok %r, expected one of %r' % (where, res['ok'], sorted(map(str, oks))))
    return ('g=%g%s' % (best, ':wrong_msg' if (best == 0 and wrong_msg and res['msg'] == wrong_msg) else '')), None


class Alternatives(Family):
    timeout = 60.0

    def __init__(self, kind, wrapper='plain'):
        self.kind = kind
        self.wrapper = wrapper
        self.name = 'alts_%s%s' % (kind, '' if wrapper == 'plain' else '_in_' + wrapper)
        self.rule = ('%s grader%s: every ordered tuple of 1..4 [quick 3] of the 8 pool alternatives x wrong_msg x inputs %r; '
                     'oracle: max over single-alternative graders, longest message among ties, wrong_msg iff best is 0 without message; '
                     'the call also passes an (ignored) expect value as edX does'
                     % (kind, '' if wrapper == 'plain' else ' used as subgrader inside ' + wrapper, KINDS[kind]['inputs']))

    def setup(self, tier):
        k = KINDS[self.kind]
        self.pool = pool_for(*k['expects'])
        self.inputs = k['inputs']
        self.make = k['make']
        self.single = {}
        for a in range(len(self.pool)):
            alt = self.pool[a]
            # a tuple-valued expect stands for one alternative per member: decompose it as well
            if isinstance(alt, dict) and isinstance(alt['expect'], tuple):
                members = [dict(alt, expect=m) for m in alt['expect']]
            else:
                members = [alt]
            graders = [self.make(answers=(m,)) for m in members]
            for i, inp in enumerate(self.inputs):
                self.single[(a, i)] = [run(g, inp) for g in graders]

    def cases(self, tier):
        maxk = 3 if tier == 'quick' else 4
        n = 8
        for k in range(1, maxk + 1):
            for tup in itertools.permutations(range(n), k):
                yield tup

    def describe(self, case):
        tup = case
        pool = pool_for(*KINDS[self.kind]['expects'])
        return {'alternatives': [repr(pool[a]) for a in tup], 'wrong_msg': "'W' then ''"}

    def check(self, case):
        tup = tuple(case)
        calls = 0
        outcome = None
        nontrivial = False
        # both wrong_msg settings inside one case ('W' first): a message leaking from one grader into the next is then
        # visible within the case and replayable
        for wrong_msg in ('W', 'Wrong - please try again', ''):
            o, nt, v, c = self.check_one(tup, wrong_msg)
            calls += c
            nontrivial = nontrivial or nt
            if v:
                return Result(o, True, v, calls)
            outcome = outcome or o
        return Result(outcome or 'skipped', nontrivial, None, calls)

    def check_one(self, tup, wrong_msg):
        answers = tuple(self.pool[a] for a in tup)
        inner = self.make(answers=answers, wrong_msg=wrong_msg) if self.wrapper == 'plain' else self.make(wrong_msg=wrong_msg)
        calls = 0
        outcome = None
        distinct = set()
        for i, inp in enumerate(self.inputs):
            singles = [s for a in tup for s in self.single[(a, i)]]
            distinct.add(len(set(repr(s) for s in singles)) > 1)
            calls += 1
            where = '%s alternatives %r wrong_msg %r input %r' % (self.name, [self.pool[a] for a in tup], wrong_msg, inp)
            if self.wrapper == 'plain':
                # edX hands the problem's expect attribute to every call: a grader with configured answers ignores it
                full = run(inner, inp, expect=(None if wrong_msg == 'W' else KINDS[self.kind]['expects'][2]))
            elif self.wrapper == 'ListGrader':
                lg = ListGrader(answers=[answers, answers], subgraders=inner, ordered=True)
                out = run(lg, [inp, self.inputs[0]])
                if out[0] == 'ok':
                    full = ('ok', out[1]['input_list'][0])
                else:
                    full = out
                    s0 = [s for a in tup for s in self.single[(a, 0)]]
                    if any(s[0] != 'ok' for s in s0):
                        singles = singles + s0
            else:
                sl = SingleListGrader(answers=[answers], subgrader=inner)
                out = run(sl, inp)
                full = out
                if self.kind in ('matrix', 'singlelist', 'singlelist3', 'matrix_entry', 'matrix_suppressed'):
                    continue      # commas inside the item collide with the list delimiter; not a meaningful configuration
                if out[0] == 'ok':
                    # single-item list: grade and message are the item's
                    full = ('ok', {'grade_decimal': out[1]['grade_decimal'], 'msg': out[1]['msg'], 'ok': out[1]['ok']})
            o, v = judge(full, singles, wrong_msg, where, self.name)
            if v:
                return o, True, v, calls
            outcome = outcome or o
        return outcome, True in distinct, None, calls


class CreditScaling(Family):
    """anchors the decomposition oracle: what ONE alternative earns is its own credit times what its bare expect value earns"""
    timeout = 60.0

    def __init__(self, kind):
        self.kind = kind
        self.name = 'single_alternative_credit_%s' % kind
        self.rule = ('%s grader holding ONE alternative {expect, grade_decimal c, msg}: for every pool alternative (tuple-valued '
                     'expects member by member), credits c in {the pool\'s, 0, 0.25, 1, 1/3, 0.99996, 0.00004} and every input, the grade is c times the '
                     'grade of the same grader holding the bare expect value, ok follows the grade, and a zero result never '
                     'carries full marks' % kind)

    def setup(self, tier):
        k = KINDS[self.kind]
        self.pool = pool_for(*k['expects'])
        self.inputs = k['inputs']
        self.make = k['make']
        self.members = []
        for alt in self.pool:
            if not isinstance(alt, dict):
                alt = {'expect': alt, 'grade_decimal': 1, 'msg': ''}
            for m in (alt['expect'] if isinstance(alt['expect'], tuple) else (alt['expect'],)):
                for c in (alt['grade_decimal'], 0, 0.25, 1, 1.0 / 3, 0.99996, 0.00004):
                    cand = (m, c, alt['msg'])
                    if cand not in self.members:
                        self.members.append(cand)

    def cases(self, tier):
        self.setup(tier)
        return iter([(a, i) for a in range(len(self.members)) for i in range(len(self.inputs))])

    def describe(self, case):
        a, i = case
        self.setup('quick')
        m, c, msg = self.members[a]
        return {'alternative': {'expect': m, 'grade_decimal': c, 'msg': msg}, 'input': self.inputs[i]}

    def check(self, case):
        a, i = case
        m, c, msg = self.members[a]
        inp = self.inputs[i]
        base = run(self.make(answers=(m,)), inp)
        got = run(self.make(answers=({'expect': m, 'grade_decimal': c, 'msg': msg},)), inp)
        where = '%s alternative {expect %r, grade_decimal %r, msg %r} input %r' % (self.kind, m, c, msg, inp)
        if base[0] != 'ok' or got[0] != 'ok':
            if (base[0] == 'ok') != (got[0] == 'ok'):
                return Result('raise-mismatch', True,
                              viol(self.name + ':raises-only-with-or-without-credit', '%s: bare expect gives %r, with credit %r'
                                   % (where, base, got)), 2)
            return Result('raises', False, None, 2)
        want = c * base[1]['grade_decimal']
        g = got[1]['grade_decimal']
        if abs(g - want) > EPS:
            return Result('not-scaled', True,
                          viol(self.name + ':credit-not-scaled', '%s: grade %r, but the bare expect value earns %r and the '
                               'alternative is worth %r' % (where, g, base[1]['grade_decimal'], c), want, got[1]), 2)
        exp_ok = True if g == 1 else (False if g == 0 else 'partial')
        if got[1]['ok'] != exp_ok:
            return Result('ok-flag', True, viol(self.name + ':ok-flag', '%s: ok %r for grade %r' % (where, got[1]['ok'], g),
                                                exp_ok, got[1]), 2)
        return Result('g=%g' % g, base[1]['grade_decimal'] > 0, None, 2)


def families(tier):
    fams = [Alternatives(k) for k in ('string', 'table', 'formula', 'numerical', 'matrix', 'singlelist', 'singlelist3',
                                      'matrix_entry', 'matrix_suppressed', 'formula_numbered')]
    fams += [Alternatives(k, 'ListGrader') for k in ('string', 'formula', 'singlelist')]
    fams += [Alternatives(k, 'SingleListGrader') for k in ('string', 'numerical')]
    fams += [CreditScaling(k) for k in KINDS]
    return fams
