"""
C08 -- among alternative answers the student always receives the best-scoring one.

ENUM: every ORDERED tuple of 1..4 distinct alternatives from a pool of 8, x wrong_msg x inputs,
for six grader kinds and the same graders used as subgraders.  Oracle by decomposition: the
result must be the best of the results of identically configured graders that each hold only ONE
of the alternatives.  The decomposition is anchored by absolute (hand-written) match tables and by
the credit-scaling rule, so that a defect common to the full and the single-alternative graders
does not go unseen.
"""
import itertools
from ..core import Family, Result, viol, HarnessError
from ..fixtures import TableGrader
from .. import chooser

from mitxgraders import (StringGrader, FormulaGrader, NumericalGrader, MatrixGrader, SingleListGrader, ListGrader,
                         IntervalGrader)
from mitxgraders.exceptions import MITxError

PROPERTY = 'C08'
RULE = ('every ordered tuple of 1..4 [quick 3] distinct alternatives from an 8-entry pool (credits 1, .5, .3, 0; messages of '
        'different and equal lengths; a tuple-valued expect; alternatives matching the same input) x wrong_msg {"", "W", a long one} x '
        'inputs; non-trivial = at least two alternatives in the tuple give different single-alternative results.  A second pool (B) '
        'holds the alphabet the first lacks: credit or message left at its default, credits 1e-5 apart, a matched zero-credit '
        'alternative without message, a 1e-9 credit, a 3-valued expect, non-ASCII messages, the empty input, wrong_msg not passed.  '
        'Tuples of 5 and 6 alternatives: every rotation of every subset in both directions [thorough: every order].  Absolute '
        'anchors (hand-written match tables), bare (unwrapped) answers, unordered lists / subgrader lists, IntervalGrader and its '
        'bracket alternatives (closed form)')
EXPLANATION = 'states = distinct (kind, ordered tuple, wrong_msg, input) cases; transitions = real grader calls'
ASSUMPTIONS = ['single-alternative graders (fresh, no wrong_msg) define what an input earns against one alternative; for the '
               'string, numerical, formula and matrix kinds hand-written match tables anchor them absolutely',
               'among alternatives tied in grade AND message length either message is accepted',
               'RNG owned by the explorer with default answers (formula kinds), so full and single graders see the same samples',
               'IntervalGrader bracket alternatives: among bracket alternatives tied at the best credit the longest message is '
               'required, as for any item']

EPS = 1e-12
OMIT = None          # wrong_msg not passed to the constructor at all (option left at its default)


def pool_for(e_cat, e_dog, e_emu):
    return [
        e_cat,
        {'expect': e_cat, 'grade_decimal': 0.5, 'msg': 'half'},
        {'expect': e_dog, 'grade_decimal': 0.3, 'msg': 'm'},
        {'expect': e_dog, 'grade_decimal': 0.3, 'msg': 'longer msg'},
        {'expect': (e_cat, e_emu), 'grade_decimal': 0, 'msg': 'zero!'},
        {'expect': e_emu, 'grade_decimal': 0.3, 'msg': 'n'},
        {'expect': e_dog, 'grade_decimal': 0.3, 'msg': 'k'},
        {'expect': (e_dog, e_cat), 'grade_decimal': 1, 'msg': 'tup'},     # tuple-valued, full credit: members may earn partial credit
    ]


def pool_b(e_cat, e_dog, e_emu):
    """the alphabet pool A lacks (defaults, near-ties, falsy values, non-ASCII); pairs (0,1) (2,3) (4,5) (6,7) are the probes"""
    return [
        {'expect': e_cat, 'msg': 'dflt credit'},                                      # grade_decimal left at its default (1)
        {'expect': e_cat, 'grade_decimal': 0.99999, 'msg': 'nearly full, longer'},    # 1e-5 below, LONGER message: must lose
        {'expect': e_dog, 'grade_decimal': 0.3, 'msg': 'three tenths'},
        {'expect': e_dog, 'grade_decimal': 0.30001},                                  # msg left at its default, 1e-5 better: must win
        {'expect': e_emu, 'grade_decimal': 0},                                        # matched, worth nothing, NO message: wrong_msg applies
        {'expect': e_emu, 'grade_decimal': 1e-9},                                     # tiny but positive: wrong_msg must never show
        {'expect': (e_emu, e_dog, e_cat), 'grade_decimal': 0.0, 'msg': u'\xe9\xe9'},  # 3 values, float zero, 2 characters / 4 bytes
        {'expect': e_emu, 'grade_decimal': 0, 'msg': 'abc'},                          # 3 characters / 3 bytes: the longer one
    ]


POOLS = {'A': pool_for, 'B': pool_b}

# the refused (raising) input of a kind comes SECOND: every grader goes on grading after a call that raised
KINDS = {
    'string': dict(make=lambda **kw: StringGrader(**kw), expects=('cat', 'dog', 'emu'),
                   inputs=['cat', 'dog', 'emu', 'none', ' Cat']),
    # ('r','x'): a comparison that itself attaches a message to a ZERO grade -- no wrong_msg on top of it
    'table': dict(make=lambda **kw: TableGrader(table={('p', 'x'): 1, ('q', 'y'): 1, ('r', 'z'): 1, ('p', 'y'): 0.5,
                                                       ('q', 'x'): (0.25, 'tm'), ('r', 'x'): (0, 'zm')}, **kw),
                  expects=('p', 'q', 'r'), inputs=['x', 'y', 'z', 'w']),
    'formula': dict(make=lambda **kw: FormulaGrader(variables=['x'], **kw), expects=('x+1', '2*x', 'x^2'),
                    inputs=['1+x', 'x+', 'x*2', 'x*x', 'x+7']),
    'numerical': dict(make=lambda **kw: NumericalGrader(**kw), expects=('2', '3', '5'),
                      inputs=['2', '1/0', '3.0', '5', '7']),
    'matrix': dict(make=lambda **kw: MatrixGrader(**kw), expects=('[1,2]', '[3,4]', '[5,6]'),
                   inputs=['[1,2]', '[1,2,3]', '[3,4]', '[5,6]', '[0,0]']),
    'singlelist': dict(make=lambda **kw: SingleListGrader(subgrader=StringGrader(), **kw),
                       expects=('a,b', 'c,d', 'e,f'), inputs=['b,a', 'c,d', 'e,f', 'z,z', 'a,z', 'c']),
    # alternatives that mention different numbered-variable instances (each alternative needs its own samples)
    'formula_numbered': dict(make=lambda **kw: FormulaGrader(variables=['x'], numbered_vars=['a'], **kw),
                             expects=('a_{1}+x', 'a_{1}+a_{2}', 'a_{3}*x'),
                             inputs=['x+a_{1}', 'a_{1}+', 'a_{2}+a_{1}', 'x*a_{3}', 'a_{1}', 'a_{4}']),
    # members of one expect tuple that earn DIFFERENT partial credit for the same input
    'singlelist3': dict(make=lambda **kw: SingleListGrader(subgrader=StringGrader(), **kw),
                        expects=('a,b,c', 'a,b,d', 'x,y,z'), inputs=['a,b,c', 'a,b,d', 'x,y,z', 'a,b,z', 'a,q,q', 'q,q,q']),
    'matrix_entry': dict(make=lambda **kw: MatrixGrader(entry_partial_credit=0.5, **kw),
                         expects=('[1,2]', '[1,3]', '[5,6]'), inputs=['[1,2]', '[1,3]', '[5,6]', '[1,0]', '[0,0]']),
    # suppressed matrix errors come back as zero-grade results: wrong_msg applies to them
    'matrix_suppressed': dict(make=lambda **kw: MatrixGrader(suppress_matrix_messages=True, **kw),
                              expects=('[1,2]', '[3,4]', '[5,6]'), inputs=['[1,2]', '[3,4]', '[1,2,3]', '[1,2]+1', '[0,0]', '[[1,2]]']),
    # alternatives of DIFFERENT shapes: a shape mismatch with one alternative must not mask the match with another one.
    # (suppressed: the mismatch is a silent zero; is_raised False: the mismatch is a zero WITH a message made by the comparison,
    # so wrong_msg stays away and the longest of those messages is shown when nothing matches)
    # PENDING-FINDING (not enumerated): with the default configuration the mismatch RAISES, so MatrixGrader(answers=('[1,2]',
    # '[1,2,3]'))(None, '[1,2,3]') is an error although the input equals the second alternative; the decomposition oracle
    # accepts an error whenever one alternative alone gives an error, so that configuration would be silent anyway.
    'matrix_shapes_suppressed': dict(make=lambda **kw: MatrixGrader(suppress_matrix_messages=True, max_array_dim=2, **kw),
                                     expects=('[1,2]', '[1,2,3]', '[[1,2],[3,4]]'),
                                     inputs=['[1,2]', '[1,2,3]', '[[1,2],[3,4]]', '[0,0]', '[1,2,3,4]', '7']),
    'matrix_shapes_msg': dict(make=lambda **kw: MatrixGrader(answer_shape_mismatch={'is_raised': False, 'msg_detail': 'shape'},
                                                             max_array_dim=2, **kw),
                              expects=('[1,2]', '[1,2,3]', '[[1,2],[3,4]]'),
                              inputs=['[1,2]', '[1,2,3]', '[[1,2],[3,4]]', '[0,0]', '[1,2,3,4]', '7']),
    # a falsy-but-valid expect value: the alternative '' is matched by the empty and the blank input
    'string_blank': dict(make=lambda **kw: StringGrader(**kw), expects=('', 'dog', 'emu'),
                         inputs=['', ' ', 'dog', 'emu', 'none']),
    # list-level alternatives whose ITEMS carry alternatives of their own (expect values given as lists, not strings)
    'singlelist_items': dict(make=lambda **kw: SingleListGrader(subgrader=StringGrader(), **kw),
                             expects=(['a', ('b', {'expect': 'B', 'grade_decimal': 0.5, 'msg': 'caps'})], ['c', 'd'],
                                      [('e', 'a'), {'expect': 'f', 'grade_decimal': 0, 'msg': 'no f'}]),
                             inputs=['b,a', 'a,B', 'c,d', 'e,f', 'a,f', 'z,z', 'B']),
    # generic messages at BOTH levels: the items' wrong_msg is a message of the list, so the list's own one stays away
    'singlelist_subwrong': dict(make=lambda **kw: SingleListGrader(subgrader=StringGrader(wrong_msg='S'), **kw),
                                expects=('a,b', 'c,d', 'e,f'), inputs=['b,a', 'c,d', 'z,z', 'a,z', 'c']),
    # all-or-nothing lists: the rule applies to the ITEM matching only; a complete match still earns the alternative's own credit
    'singlelist_allornothing': dict(make=lambda **kw: SingleListGrader(subgrader=StringGrader(), partial_credit=False, **kw),
                                    expects=('a,b', 'c,d', 'e,f'), inputs=['b,a', 'c,d', 'e,f', 'z,z', 'a,z', 'c']),
    # a SUBCLASS of SingleListGrader with its own check_response: list-level alternatives, halves earned separately
    'interval': dict(make=lambda **kw: IntervalGrader(**kw), expects=('[1,2]', '(1,2)', '[3,4)'),
                     inputs=['[1,2]', '{1,2}', '(1,2)', '[3,4)', '[1,2)', '(1,4)', '[0,0]']),
}

# hand-written truth tables (independent of the library): which input is a match for which expect value; which inputs are refused
MATCH = {
    'string': dict(pairs={('cat', 'cat'), ('dog', 'dog'), ('emu', 'emu')}, raises=set()),
    'string_blank': dict(pairs={('', ''), ('', ' '), ('dog', 'dog'), ('emu', 'emu')}, raises=set()),
    'numerical': dict(pairs={('2', '2'), ('3', '3.0'), ('5', '5')}, raises={'1/0'}),
    'formula': dict(pairs={('x+1', '1+x'), ('2*x', 'x*2'), ('x^2', 'x*x')}, raises={'x+'}),
    'matrix': dict(pairs={('[1,2]', '[1,2]'), ('[3,4]', '[3,4]'), ('[5,6]', '[5,6]')}, raises={'[1,2,3]', ''}),
}


def inputs_of(kind, pool):
    # pool B adds the empty input
    return KINDS[kind]['inputs'] + ([''] if pool == 'B' and '' not in KINDS[kind]['inputs'] else [])


def run(g, inp, listform=False, expect=None):
    def body(ch):
        try:
            return ('ok', g(expect, inp))
        except MITxError as e:
            return ('mitx', type(e).__name__, str(e))
        except Exception as e:
            return ('raw', type(e).__name__, str(e))
    ch, out = chooser.run_with(body)
    return out


def rawlen(msg):
    return len(msg.replace('<br/>\n', '\n'))


def judge(full, singles, wrong_msg, where, tag):
    """full: ('ok', result) of the grader with all alternatives; singles: list of single-alternative outcomes"""
    if any(s[0] != 'ok' for s in singles):
        if full[0] == 'ok':
            return 'raise', viol(tag + ':alternative-raises-but-result-returned',
                                 '%s: an alternative alone raises %r but the full grader returned %r'
                                 % (where, [s for s in singles if s[0] != 'ok'][0], full[1]))
        if full[0] == 'raw':
            return 'raise', viol(tag + ':raw-error', '%s: non-library error %r' % (where, full))
        return 'raises', None
    if full[0] != 'ok':
        return 'raise', viol(tag + ':raised', '%s: raised %r although every alternative alone grades' % (where, full))
    res = full[1]
    grades = [s[1]['grade_decimal'] for s in singles]
    best = max(grades)
    if abs(res['grade_decimal'] - best) > EPS:
        return 'grade', viol(tag + ':not-the-maximum', '%s: grade %r but the best single alternative earns %r (singles %r)'
                             % (where, res['grade_decimal'], best, grades), best, res)
    top = [s[1] for s in singles if abs(s[1]['grade_decimal'] - best) <= EPS]
    # lengths are those of the messages as selected, i.e. before the final newline -> '<br/>\n' formatting
    maxlen = max(rawlen(t['msg']) for t in top)
    allowed = set(t['msg'] for t in top if rawlen(t['msg']) == maxlen)
    if allowed == {''} and best == 0:
        allowed = {wrong_msg}
    if res['msg'] not in allowed:
        return 'msg', viol(tag + ':wrong-message', '%s: message %r, allowed %r' % (where, res['msg'], sorted(allowed)),
                           sorted(allowed), res['msg'])
    exp_ok = {0: False, 1: True}.get(best, 'partial')
    oks = set(t['ok'] for t in top)
    if res['ok'] not in oks:
        return 'ok', viol(tag + ':ok-flag', '%s: ok %r, expected one of %r' % (where, res['ok'], sorted(map(str, oks))))
    return ('g=%g%s' % (best, ':wrong_msg' if (best == 0 and wrong_msg and res['msg'] == wrong_msg) else '')), None


COMMA_KINDS = ('matrix', 'singlelist', 'singlelist3', 'matrix_entry', 'matrix_suppressed', 'interval', 'singlelist_items',
               'singlelist_subwrong', 'matrix_shapes_suppressed', 'matrix_shapes_msg', 'singlelist_allornothing')


class Alternatives(Family):
    timeout = 60.0

    def __init__(self, kind, wrapper='plain', pool='A', maxk=(3, 4)):
        self.kind = kind
        self.wrapper = wrapper
        self.poolname = pool
        self.maxk = maxk
        self.name = 'alts_%s%s%s' % (kind, '' if pool == 'A' else '_pool' + pool, '' if wrapper == 'plain' else '_in_' + wrapper)
        self.wrong_msgs = ('W', 'Wrong - please try again', '') if pool == 'A' else ('W', OMIT)
        self.rule = ('%s grader%s: every ordered tuple of 1..%d [quick %d] of the 8 pool-%s alternatives x wrong_msg %r x inputs %r; '
                     'oracle: max over single-alternative graders, longest message among ties, wrong_msg iff best is 0 without message; '
                     'the call also passes an (ignored) expect value as edX does%s'
                     % (kind, '' if wrapper == 'plain' else ' used as subgrader inside ' + wrapper, maxk[1], maxk[0], pool,
                        tuple('<not passed>' if w is OMIT else w for w in self.wrong_msgs), inputs_of(kind, pool),
                        '' if not wrapper.startswith('ListGrader') else '; BOTH boxes of the list are judged'))

    def setup(self, tier):
        k = KINDS[self.kind]
        self.pool = POOLS[self.poolname](*k['expects'])
        self.inputs = inputs_of(self.kind, self.poolname)
        if self.wrapper == 'SingleListGrader':
            self.inputs = [i for i in self.inputs if i != '']      # an empty list entry is refused by the list, not by the item
        self.make = k['make']
        self.single = {}
        for a in range(len(self.pool)):
            alt = self.pool[a]
            # a tuple-valued expect stands for one alternative per member: decompose it as well
            if isinstance(alt, dict) and isinstance(alt['expect'], tuple):
                members = [dict(alt, expect=m) for m in alt['expect']]
            else:
                members = [alt]
            graders = [self.make(answers=(m,)) for m in members]
            for i, inp in enumerate(self.inputs):
                self.single[(a, i)] = [run(g, inp) for g in graders]

    def cases(self, tier):
        maxk = self.maxk[0] if tier == 'quick' else self.maxk[1]
        n = 8
        for k in range(1, maxk + 1):
            for tup in itertools.permutations(range(n), k):
                yield tup

    def describe(self, case):
        tup = case
        pool = POOLS[self.poolname](*KINDS[self.kind]['expects'])
        return {'alternatives': [repr(pool[a]) for a in tup],
                'wrong_msg': ' then '.join('<not passed>' if w is OMIT else repr(w) for w in self.wrong_msgs)}

    def check(self, case):
        tup = tuple(case)
        calls = 0
        outcome = None
        nontrivial = False
        # all wrong_msg settings inside one case ('W' first): a message leaking from one grader into the next is then
        # visible within the case and replayable
        for wrong_msg in self.wrong_msgs:
            o, nt, v, c = self.check_one(tup, wrong_msg)
            calls += c
            nontrivial = nontrivial or nt
            if v:
                return Result(o, True, v, calls)
            outcome = outcome or o
        return Result(outcome or 'skipped', nontrivial, None, calls)

    def expect_arg(self, wrong_msg):
        # edX hands the problem's expect attribute to every call: a grader with configured answers ignores it
        e = KINDS[self.kind]['expects']
        if self.poolname == 'A':
            return None if wrong_msg == 'W' else e[2]
        return e[0] if wrong_msg == 'W' else None

    def check_one(self, tup, wrong_msg):
        answers = tuple(self.pool[a] for a in tup)
        kw = {} if wrong_msg is OMIT else {'wrong_msg': wrong_msg}
        if wrong_msg is OMIT:
            wrong_msg = ''
        inner = self.make(answers=answers, **kw) if self.wrapper == 'plain' else self.make(**kw)
        other_msg = 'the other box'
        inner2 = self.make(wrong_msg=other_msg) if self.wrapper == 'ListGraderSubList' else None
        calls = 0
        outcome = None
        distinct = set()
        for i, inp in enumerate(self.inputs):
            singles = [s for a in tup for s in self.single[(a, i)]]
            distinct.add(len(set(repr(s) for s in singles)) > 1)
            calls += 1
            where = '%s alternatives %r wrong_msg %r input %r' % (self.name, [self.pool[a] for a in tup], wrong_msg, inp)
            second = None
            if self.wrapper == 'plain':
                full = run(inner, inp, expect=self.expect_arg(wrong_msg))
            elif self.wrapper.startswith('ListGrader'):
                if self.wrapper == 'ListGraderUnordered':
                    # both boxes accept the same alternatives: whichever way the boxes are matched, each gets its own best
                    lg = ListGrader(answers=[answers, answers], subgraders=inner, ordered=False)
                elif self.wrapper == 'ListGraderSubList':
                    lg = ListGrader(answers=[answers, answers], subgraders=[inner, inner2], ordered=True)
                else:
                    lg = ListGrader(answers=[answers, answers], subgraders=inner, ordered=True)
                out = run(lg, [inp, self.inputs[0]])
                s0 = [s for a in tup for s in self.single[(a, 0)]]
                if out[0] == 'ok':
                    full = ('ok', out[1]['input_list'][0])
                    second = ('ok', out[1]['input_list'][1])
                else:
                    full = out
                    if any(s[0] != 'ok' for s in s0):
                        singles = singles + s0
            else:
                sl = SingleListGrader(answers=[answers], subgrader=inner)
                out = run(sl, inp)
                full = out
                if self.kind in COMMA_KINDS:
                    continue      # commas inside the item collide with the list delimiter; not a meaningful configuration
                if out[0] == 'ok':
                    # single-item list: grade and message are the item's
                    full = ('ok', {'grade_decimal': out[1]['grade_decimal'], 'msg': out[1]['msg'], 'ok': out[1]['ok']})
            o, v = judge(full, singles, wrong_msg, where, self.name)
            if v:
                return o, True, v, calls
            if second is not None:
                # the second box (always the first input) is graded by the same alternatives: first-vs-later boxes
                o2, v = judge(second, s0, other_msg if inner2 is not None else wrong_msg,
                              where + ' [second box, input %r]' % (self.inputs[0],), self.name + ':box2')
                if v:
                    return o2, True, v, calls
            outcome = outcome or o
        return outcome, True in distinct, None, calls


class LongAlternatives(Alternatives):
    """tuples of 5 and 6 alternatives (the statement's bound is 6)"""

    def __init__(self, kind, all_orders_in_thorough=False, both_directions=True):
        Alternatives.__init__(self, kind)
        self.all_orders = all_orders_in_thorough
        self.both = both_directions
        self.name = 'alts_%s_5to6' % kind
        self.rule = ('%s grader holding 5 or 6 of the 8 pool-A alternatives: every subset, listed in every rotation of the '
                     'ascending %sorder (each alternative at each position)%s x wrong_msg x inputs; same '
                     'decomposition oracle' % (kind, 'and of the descending ' if both_directions else '',
                                               ' [thorough: EVERY order]' if all_orders_in_thorough else ''))

    def cases(self, tier):
        for n in (5, 6):
            if tier != 'quick' and self.all_orders:
                for tup in itertools.permutations(range(8), n):
                    yield tup
                continue
            for comb in itertools.combinations(range(8), n):
                for seq in ((comb, comb[::-1]) if (self.both or tier != 'quick') else (comb,)):
                    for r in range(n):
                        yield seq[r:] + seq[:r]


def all_alternatives(kind):
    e = KINDS[kind]['expects']
    return [('A', a, alt) for a, alt in enumerate(pool_for(*e))] + [('B', a, alt) for a, alt in enumerate(pool_b(*e))]


def same_outcome(x, y):
    if x[0] != y[0]:
        return False
    if x[0] != 'ok':
        return x[1:] == y[1:]
    return (abs(x[1]['grade_decimal'] - y[1]['grade_decimal']) <= EPS and x[1]['msg'] == y[1]['msg'] and x[1]['ok'] == y[1]['ok'])


class BareAnswers(Family):
    """`answers` may be ONE alternative that is not wrapped in a tuple; an expect value may be a 1-tuple"""
    timeout = 60.0

    def __init__(self, kind):
        self.kind = kind
        self.name = 'bare_answers_%s' % kind
        self.rule = ('%s grader: for each of the 16 alternatives of pools A and B and every input, answers=alt (bare string or bare '
                     'dictionary, also one with a tuple-valued expect), answers=(alt,) and -- for a single-valued expect -- the same '
                     'alternative with expect=(value,) must give the same result; wrong_msg "W"' % kind)

    def setup(self, tier):
        self.alts = all_alternatives(self.kind)
        self.inputs = inputs_of(self.kind, 'B')
        self.make = KINDS[self.kind]['make']

    def cases(self, tier):
        self.setup(tier)
        return iter([(a, i) for a in range(len(self.alts)) for i in range(len(self.inputs))])

    def describe(self, case):
        self.setup('quick')
        a, i = case
        return {'alternative': repr(self.alts[a][2]), 'input': self.inputs[i]}

    def check(self, case):
        a, i = case
        alt = self.alts[a][2]
        inp = self.inputs[i]
        forms = [('tuple', (alt,)), ('bare', alt)]
        if isinstance(alt, dict) and not isinstance(alt['expect'], tuple):
            forms.append(('expect-1-tuple', (dict(alt, expect=(alt['expect'],)),)))
        elif not isinstance(alt, dict):
            forms.append(('expect-1-tuple', ({'expect': (alt,)},)))
        outs = []
        for name, answers in forms:
            try:
                g = self.make(answers=answers, wrong_msg='W')
            except Exception as e:
                outs.append((name, ('config-error', type(e).__name__, str(e))))
                continue
            outs.append((name, run(g, inp)))
        ref = outs[0][1]
        where = '%s alternative %r input %r' % (self.kind, alt, inp)
        for name, o in outs[1:]:
            if not same_outcome(ref, o):
                return Result('differs', True, viol(self.name + ':%s-form-differs' % name,
                                                    '%s: answers=(alt,) gives %r but the %s form gives %r' % (where, ref, name, o),
                                                    ref, o), len(outs))
        if ref[0] != 'ok':
            return Result('raises', False, None, len(outs))
        return Result('g=%g' % ref[1]['grade_decimal'], ref[1]['grade_decimal'] > 0 or ref[1]['msg'] != 'W', None, len(outs))


class Anchor(Family):
    """absolute anchor of the decomposition oracle: what ONE alternative earns, from a hand-written match table"""
    timeout = 60.0

    def __init__(self, kind):
        self.kind = kind
        self.name = 'single_alternative_anchor_%s' % kind
        self.rule = ('%s grader holding ONE alternative of pools A and B (tuple-valued expects whole), every input incl. the empty '
                     'one, wrong_msg "W": a hand-written table says which input matches which expect value %r and which inputs are '
                     'refused %r (error or zero, never credit); a match earns exactly the alternative\'s credit and message, anything else 0 and "W" (also a match '
                     'worth 0 without message)' % (kind, sorted(MATCH[kind]['pairs']), sorted(MATCH[kind]['raises'])))

    def setup(self, tier):
        self.alts = all_alternatives(self.kind)
        self.inputs = inputs_of(self.kind, 'B')
        self.make = KINDS[self.kind]['make']

    def cases(self, tier):
        self.setup(tier)
        return iter([(a, i) for a in range(len(self.alts)) for i in range(len(self.inputs))])

    def describe(self, case):
        self.setup('quick')
        a, i = case
        return {'alternative': repr(self.alts[a][2]), 'input': self.inputs[i]}

    def check(self, case):
        a, i = case
        alt = self.alts[a][2]
        inp = self.inputs[i]
        d = alt if isinstance(alt, dict) else {'expect': alt}
        values = d['expect'] if isinstance(d['expect'], tuple) else (d['expect'],)
        credit = d.get('grade_decimal', 1)
        msg = d.get('msg', '')
        tab = MATCH[self.kind]
        got = run(self.make(answers=(alt,), wrong_msg='W'), inp)
        where = '%s alternative %r input %r' % (self.kind, alt, inp)
        if inp in tab['raises']:
            # whether such an input is answered by an error or by a zero result is not this property's business
            if got[0] == 'ok' and (got[1]['grade_decimal'] != 0 or got[1]['ok'] is not False):
                return Result('accepted', True, viol(self.name + ':refused-input-earns-credit', '%s: expected an error or zero, got %r'
                                                     % (where, got[1])), 1)
            if got[0] == 'raw':
                return Result('raw', True, viol(self.name + ':raw-error', '%s: non-library error %r' % (where, got)), 1)
            return Result('raises' if got[0] != 'ok' else 'zero-for-refused', False, None, 1)
        if got[0] != 'ok':
            return Result('raised', True, viol(self.name + ':raised', '%s: raised %r' % (where, got)), 1)
        matched = any((v, inp) in tab['pairs'] for v in values)
        want_g = credit if matched else 0
        want_m = msg if matched else ''
        if want_g == 0 and want_m == '':
            want_m = 'W'
        want_ok = True if want_g == 1 else (False if want_g == 0 else 'partial')
        r = got[1]
        if abs(r['grade_decimal'] - want_g) > EPS or r['msg'] != want_m or r['ok'] != want_ok:
            return Result('wrong', True, viol(self.name + ':not-the-table-result', '%s: got %r, the match table gives grade %r msg %r ok %r'
                                              % (where, r, want_g, want_m, want_ok), [want_g, want_m, want_ok], r), 1)
        return Result('match g=%g' % want_g if matched else 'no-match', matched, None, 1)


BRACKET_POOL = [
    '[',
    {'expect': '(', 'grade_decimal': 0.5, 'msg': 'm'},
    {'expect': '(', 'grade_decimal': 0.5, 'msg': 'longer msg'},
    {'expect': '(', 'grade_decimal': 0.25, 'msg': 'quarter, the longest message'},
    {'expect': ('(', '['), 'grade_decimal': 0, 'msg': 'zero!'},
    {'expect': '[', 'grade_decimal': 0.5, 'msg': 'half'},
]
BRACKET_INPUTS = ['[1,2]', '(1,2]', '{1,2]', '[1,3]', '(0,2]', '(1,2)', '[0,0)']


class IntervalBrackets(Family):
    """IntervalGrader grades a bracket against ALTERNATIVES with its own best-of loop (not ItemGrader.check)"""
    timeout = 60.0
    name = 'interval_bracket_alternatives'
    rule = ('IntervalGrader(answers=[alts, "1", "2", "]"], opening_brackets="[({", wrong_msg "W"/""): every ordered tuple of 1..3 of '
            '6 bracket alternatives (credits 1, .5, .5, .25, 0, .5; a tuple-valued one; equal credits with different messages) x 7 '
            'inputs.  Closed form: a half whose number is right earns the best credit among the bracket alternatives containing the '
            'student\'s bracket (0 if none), the grade is the mean of the halves, the message is one of the best alternatives\' '
            'messages, wrong_msg iff the grade is 0 without message')

    def cases(self, tier):
        for k in range(1, 4):
            for tup in itertools.permutations(range(len(BRACKET_POOL)), k):
                yield tup

    def describe(self, case):
        return {'opening bracket alternatives': [repr(BRACKET_POOL[a]) for a in case]}

    def check(self, case):
        tup = tuple(case)
        alts = tuple(BRACKET_POOL[a] for a in tup)
        calls = 0
        outcomes = set()
        nontrivial = False
        for wrong_msg in ('W', ''):
            g = IntervalGrader(answers=[alts, '1', '2', ']'], opening_brackets='[({', wrong_msg=wrong_msg)
            for inp in BRACKET_INPUTS:
                got = run(g, inp)
                calls += 1
                where = 'IntervalGrader opening-bracket alternatives %r wrong_msg %r input %r' % (list(alts), wrong_msg, inp)
                if got[0] != 'ok':
                    return Result('raised', True, viol(self.name + ':raised', '%s: raised %r' % (where, got)), calls)
                opening, closing = inp[0], inp[-1]
                lower, upper = inp[1:-1].split(',')
                cands = []
                for alt in alts:
                    d = alt if isinstance(alt, dict) else {'expect': alt}
                    vals = d['expect'] if isinstance(d['expect'], tuple) else (d['expect'],)
                    if opening in vals:
                        cands.append((d.get('grade_decimal', 1), d.get('msg', '')))
                low, msgs = 0, {''}
                if lower == '1' and cands:
                    low = max(c for c, m in cands)
                    tied = [m for c, m in cands if c == low]
                    # the LONGEST message among alternatives tied at the best credit (as ItemGrader.check does); this case found
                    # a genuine defect (IntervalGrader.grade_bracket reported the first listed one; repaired)
                    msgs = set(m for m in tied if len(m) == max(len(t) for t in tied))
                    if len(set(tied)) > 1:
                        nontrivial = True
                up = 1 if (upper == '2' and closing == ']') else 0
                want = (low + up) / 2.0
                if want == 0 and msgs == {''}:
                    msgs = {wrong_msg}
                r = got[1]
                want_ok = True if want == 1 else (False if want == 0 else 'partial')
                if abs(r['grade_decimal'] - want) > EPS:
                    return Result('grade', True, viol(self.name + ':not-the-best-bracket-credit', '%s: grade %r, closed form %r'
                                                      % (where, r['grade_decimal'], want), want, r), calls)
                if r['msg'] not in msgs or r['ok'] != want_ok:
                    return Result('msg', True, viol(self.name + ':wrong-message', '%s: result %r, allowed messages %r, ok %r'
                                                    % (where, r, sorted(msgs), want_ok), sorted(msgs), r), calls)
                if len(cands) > 1:
                    nontrivial = True
                outcomes.add('g=%g' % want)
        return Result('+'.join(sorted(outcomes)), nontrivial, None, calls)


class CreditScaling(Family):
    """anchors the decomposition oracle: what ONE alternative earns is its own credit times what its bare expect value earns"""
    timeout = 60.0

    CREDITS = (0, 0.25, 1, 1.0 / 3, 0.99996, 0.00004)

    def __init__(self, kind, credits=None):
        self.kind = kind
        self.credits = self.CREDITS if credits is None else credits
        self.name = 'single_alternative_credit_%s' % kind
        self.rule = ('%s grader holding ONE alternative {expect, grade_decimal c, msg}: for every pool alternative (tuple-valued '
                     'expects member by member), credits c in {the pool\'s, %s} and every input, the grade is c times the '
                     'grade of the same grader holding the bare expect value, ok follows the grade, and a zero result never '
                     'carries full marks' % (kind, ', '.join('%g' % c for c in self.credits)))

    def setup(self, tier):
        k = KINDS[self.kind]
        self.pool = pool_for(*k['expects'])
        self.inputs = k['inputs']
        self.make = k['make']
        self.members = []
        for alt in self.pool:
            if not isinstance(alt, dict):
                alt = {'expect': alt, 'grade_decimal': 1, 'msg': ''}
            for m in (alt['expect'] if isinstance(alt['expect'], tuple) else (alt['expect'],)):
                for c in (alt['grade_decimal'],) + tuple(self.credits):
                    cand = (m, c, alt['msg'])
                    if cand not in self.members:
                        self.members.append(cand)

    def cases(self, tier):
        self.setup(tier)
        return iter([(a, i) for a in range(len(self.members)) for i in range(len(self.inputs))])

    def describe(self, case):
        a, i = case
        self.setup('quick')
        m, c, msg = self.members[a]
        return {'alternative': {'expect': m, 'grade_decimal': c, 'msg': msg}, 'input': self.inputs[i]}

    def check(self, case):
        a, i = case
        m, c, msg = self.members[a]
        inp = self.inputs[i]
        base = run(self.make(answers=(m,)), inp)
        got = run(self.make(answers=({'expect': m, 'grade_decimal': c, 'msg': msg},)), inp)
        where = '%s alternative {expect %r, grade_decimal %r, msg %r} input %r' % (self.kind, m, c, msg, inp)
        if base[0] != 'ok' or got[0] != 'ok':
            if (base[0] == 'ok') != (got[0] == 'ok'):
                return Result('raise-mismatch', True,
                              viol(self.name + ':raises-only-with-or-without-credit', '%s: bare expect gives %r, with credit %r'
                                   % (where, base, got)), 2)
            return Result('raises', False, None, 2)
        want = c * base[1]['grade_decimal']
        g = got[1]['grade_decimal']
        if abs(g - want) > EPS:
            return Result('not-scaled', True,
                          viol(self.name + ':credit-not-scaled', '%s: grade %r, but the bare expect value earns %r and the '
                               'alternative is worth %r' % (where, g, base[1]['grade_decimal'], c), want, got[1]), 2)
        exp_ok = True if g == 1 else (False if g == 0 else 'partial')
        if got[1]['ok'] != exp_ok:
            return Result('ok-flag', True, viol(self.name + ':ok-flag', '%s: ok %r for grade %r' % (where, got[1]['ok'], g),
                                                exp_ok, got[1]), 2)
        return Result('g=%g' % g, base[1]['grade_decimal'] > 0, None, 2)


def families(tier):
    fams = [Alternatives(k) for k in ('string', 'table', 'formula', 'numerical', 'matrix', 'singlelist', 'singlelist3',
                                      'matrix_entry', 'matrix_suppressed', 'formula_numbered')]
    fams += [Alternatives(k, 'ListGrader') for k in ('string', 'formula', 'singlelist')]
    fams += [Alternatives(k, 'SingleListGrader') for k in ('string', 'numerical')]
    fams += [CreditScaling(k) for k in ('string', 'table', 'formula', 'numerical', 'matrix', 'singlelist', 'formula_numbered',
                                        'singlelist3', 'matrix_entry', 'matrix_suppressed', 'string_blank')]
    fams += [CreditScaling(k, credits=(0, 0.25) if tier == 'quick' else None) for k in ('interval', 'singlelist_items')]
    # ---- partial_credit=False: all-or-nothing item matching, the alternative's own credit still counts
    fams += [CreditScaling('singlelist_allornothing'), Alternatives('singlelist_allornothing', maxk=(2, 3)),
             Alternatives('singlelist_allornothing', 'ListGrader', maxk=(2, 3))]
    # ---- falsy expect value; a subclass of SingleListGrader
    fams += [Alternatives('string_blank', maxk=(2, 4)), Alternatives('interval', maxk=(2, 3))]
    # ---- alternatives at two levels of one list grader; generic messages at two levels
    fams += [Alternatives('singlelist_items', maxk=(2, 3)), Alternatives('singlelist_subwrong', maxk=(2, 3))]
    # ---- alternatives of different shapes
    fams += [Alternatives('matrix_shapes_suppressed', maxk=(2, 3)), Alternatives('matrix_shapes_msg', maxk=(2, 3))]
    # ---- pool B (defaults, near-equal credits, matched zero without message, tiny credit, 3-tuple, non-ASCII, '' input, no wrong_msg)
    fams += [Alternatives(k, pool='B') for k in ('string', 'table')]
    fams += [Alternatives(k, pool='B', maxk=(2, 3)) for k in ('numerical', 'formula', 'matrix', 'singlelist3', 'string_blank')]
    fams += [Alternatives('string', 'ListGrader', pool='B', maxk=(2, 3)),
             Alternatives('string', 'SingleListGrader', pool='B', maxk=(2, 3)),
             Alternatives('numerical', 'SingleListGrader', pool='B', maxk=(2, 3))]
    # ---- other ways of nesting the item grader in a list
    fams += [Alternatives(k, w, maxk=(2, 3)) for k in ('string', 'table') for w in ('ListGraderUnordered', 'ListGraderSubList')]
    if tier != 'quick':
        fams += [Alternatives(k, pool='B', maxk=(2, 3)) for k in ('matrix_suppressed', 'formula_numbered', 'interval', 'singlelist',
                                                                 'matrix_entry')]
        fams += [Alternatives('numerical', 'ListGrader', maxk=(2, 3)), Alternatives('matrix', 'ListGrader', maxk=(2, 3)),
                 Alternatives('singlelist', 'ListGrader', pool='B', maxk=(2, 3)),
                 Alternatives('formula', 'ListGrader', pool='B', maxk=(2, 3))]
    # ---- 5 and 6 alternatives
    fams += [LongAlternatives('string', all_orders_in_thorough=True, both_directions=False),
             LongAlternatives('table', all_orders_in_thorough=True)]
    if tier != 'quick':
        fams += [LongAlternatives(k) for k in ('numerical', 'singlelist3', 'formula')]
    # ---- absolute anchors, unwrapped answers, bracket alternatives
    fams += [Anchor(k) for k in sorted(MATCH)]
    fams += [BareAnswers(k) for k in ('string', 'table', 'numerical', 'formula', 'matrix', 'singlelist', 'interval')]
    fams += [IntervalBrackets()]
    return fams
