"""
C11 -- a grader's verdict depends only on its configuration and the current call.

BFS: for each grader kind a small *system* (main grader g1, a second instance g2 of the same
class, and a menu of foreign operations) is driven through every event sequence up to length 4
with canonical-state de-duplication.  Every call's observation is compared with what a FRESH
grader with the same configuration and the effective expect value returns for the same input
under the same RNG schedule (computed once, in a pristine process state).  Invariants in every
state: author's configuration objects, process-wide defaults, the matrix negative-power switch,
numpy error handling and class default_values all equal their pristine snapshots; so does every other
module-level / class-level container of the library (generic scan), and everything the process-wide parser
remembers about an expression still equals what a parser used for nothing else says about it.

Calls may carry keyword arguments (the attempt number for attempt-based credit) and an expect value that is
present but empty.  A separate family drives the evaluator's shared parser through all ordered pairs of a
small set of look-alike expressions in two scopes (later evaluation = evaluation with nothing remembered).
"""
import copy
import itertools
import numpy as np
from ..core import Family, Result, viol, HarnessError
from ..bfs import BFSFamily
from ..canon import canon
from .. import chooser
from .. import libstate

import mitxgraders
from mitxgraders import (StringGrader, FormulaGrader, NumericalGrader, MatrixGrader, SingleListGrader, ListGrader,
                         IntervalGrader, SumGrader)
from mitxgraders.attemptcredit import ReciprocalCredit, GeometricCredit
from mitxgraders.baseclasses import ObjectWithSchema, AbstractGrader, ItemGrader
from mitxgraders.helpers.calc import mathfuncs as MF
from mitxgraders.helpers.calc import expressions as X
from mitxgraders.helpers.calc.math_array import MathArray
from mitxgraders.helpers.math_helpers import MathMixin
from mitxgraders.exceptions import MITxError

PROPERTY = 'C11'
RULE = ('all event sequences up to length 4 (canonical-state de-duplicated) over call events (expect x input [x attempt number '
        'where the kind uses attempt-based credit], on the main and on a second instance) and foreign events, per grader kind, '
        'with/without configured answers, debug off/on; every transition is non-trivial (it is compared with a fresh grader); '
        'plus all ordered pairs of evaluations over a set of look-alike expressions x 2 scopes through the shared parser')
EXPLANATION = ('states = distinct canonical states of (g1, g2, process-wide settings); transitions = events executed on '
               'the real objects; the reference for "which expect is in force" is a set-valued state machine kept beside it')
ASSUMPTIONS = ['an expect value is in force after a call that returned; after a call that raised, either the old or the new '
               'expect may be in force (the statement says "last successfully supplied")',
               'an expect value that the grader class itself rejects at validation never comes into force',
               'RNG owned by the explorer with default answers, so a fresh grader sees the same samples',
               'debug=True: lines "Expect value inferred to be ..." are removed before comparing with the fresh grader',
               'an expect value that is present but empty ("") counts as supplied (the statement distinguishes only "given" from '
               '"none is given")',
               'a dictionary returned by an author-supplied comparer object belongs to the author (it is part of what the '
               'configuration object holds) and must come back unchanged',
               'library-level tables holding voluptuous validator objects are exempt from the generic container scan (the '
               'validators compile themselves on first use)',
               'the reference for what the shared parser may remember about a text is a private parser instance of the same class '
               'that has parsed nothing else (differential: remembered-and-shared vs. never shared)']

NOEXPECT = '<none>'
PARTIAL_ONLY = '<configured answers without a full-credit alternative>'


# ------------------------------------------------------------------ kinds

def author_config(kind, answers, debug, which='g1'):
    """builds the AUTHOR's configuration object (a plain dict with nested containers)"""
    cfg = dict(KINDS[kind]['extra']())
    if which == 'g2' and 'extra_g2' in KINDS[kind]:
        cfg.update(KINDS[kind]['extra_g2']())       # the second instance may be configured differently
    if answers is not None:
        if isinstance(answers, str) and answers == PARTIAL_ONLY:
            # configured answers none of which is worth full credit
            answers = ({'expect': KINDS[kind]['A'], 'grade_decimal': 0.5, 'msg': 'half'},
                       {'expect': KINDS[kind]['B'], 'grade_decimal': 0, 'msg': 'known mistake'})
        cfg['answers'] = answers
    cfg['debug'] = debug
    return cfg


KINDS = {
    'String': dict(cls=StringGrader, extra=lambda: dict(validation_pattern='[a-z]+', explain_validation='err',
                                                        wrong_msg='nope'),
                   A='cat', B='dog', INV='DOG1',
                   inputs=dict(rightA='cat', rightB='dog', wrong='emu', malformed='C4T', nontext=5)),
    'Formula': dict(cls=FormulaGrader, extra=lambda: dict(variables=['x'], user_constants={'c': 3.0},
                                                          sample_from={'x': [1, 3]}),
                    A='x+c', B='2*x', INV='x+',
                    inputs=dict(rightA='c+x', rightB='x*2', wrong='x+7', malformed='x+', nontext=5)),
    'Numerical': dict(cls=NumericalGrader, extra=lambda: dict(user_constants={'c': 3.0}),
                      A='2*c', B='3', INV='2+',
                      inputs=dict(rightA='6', rightB='3.0', wrong='7', malformed='1/0', nontext=None)),
    'Matrix': dict(cls=MatrixGrader, extra=lambda: dict(), A='[1,2]', B='[3,4]', INV='[1,',
                   inputs=dict(rightA='[1,2]', rightB='[3,4]', wrong='[0,0]', malformed='[1,2,3]', nontext=['[1,2]'])),
    'MatrixNoNegPow': dict(cls=MatrixGrader, extra=lambda: dict(negative_powers=False),
                           A='[[1,0],[0,2]]', B='[[2,0],[0,2]]', INV='[[1,0],[0',
                           inputs=dict(rightA='[[1,0],[0,2]]', rightB='2*[[1,0],[0,1]]', wrong='[[0,0],[0,0]]',
                                       malformed='[[1,0],[0,0.5]]^-1', nontext=5)),
    # suppressed matrix errors come back as zero-grade results that carry the grader's own wrong_msg (g2 has another one)
    'MatrixSuppressed': dict(cls=MatrixGrader, extra=lambda: dict(suppress_matrix_messages=True, wrong_msg='nope (g1)'),
                             extra_g2=lambda: dict(wrong_msg=''),
                             A='[1,2]', B='[3,4]', INV='[1,',
                             inputs=dict(rightA='[1,2]', rightB='[3,4]', wrong='[0,0]', malformed='[1,2,3]', nontext=5)),
    'SingleList': dict(cls=SingleListGrader, extra=lambda: dict(subgrader=StringGrader()),
                       A='a,b', B='c,d', INV='a,,b',
                       inputs=dict(rightA='b,a', rightB='c,d', wrong='z,z', malformed='a,,b', nontext=5)),
    'Interval': dict(cls=IntervalGrader, extra=lambda: dict(), A='[1,2]', B='(0,1]', INV='[1',
                     inputs=dict(rightA='[1,2]', rightB='(0,1]', wrong='[5,6]', malformed='[1,2', nontext=5)),
    # numbered variables: every call may name other members of the family (a_{1}, a_{2}, a_{3}); the names met in one call
    # must not stay behind in the grader's list of variables / sampling sets
    'FormulaNumbered': dict(cls=FormulaGrader, extra=lambda: dict(variables=['x'], numbered_vars=['a'],
                                                                  sample_from={'x': [1, 3], 'a': [2, 4]}),
                            A='x+a_{1}', B='a_{2}*x', INV='a_{1}+',
                            inputs=dict(rightA='a_{1}+x', rightB='x*a_{2}', wrong='x+a_{3}', malformed='a_{+', nontext=5)),
    # the call carries a keyword argument (the attempt number): reduced credit with a message, full credit, attempt 0, and a
    # call WITHOUT the attempt number, which raises only after the grading itself is complete (a late raise)
    'StringAttempt': dict(cls=StringGrader, extra=lambda: dict(attempt_based_credit=ReciprocalCredit(), wrong_msg='nope'),
                          A='cat', B='dog', INV=5,
                          inputs=dict(rightA='cat', rightB='dog', wrong='emu', malformed='cat', nontext=5),
                          kwargs=dict(rightA={'attempt': 3}, rightB={'attempt': 1}, wrong={'attempt': 0}, malformed={},
                                      nontext={'attempt': 2})),
}
# the kinds that get the empty-expect events (non-debug histories): the classes with their own __call__ / infer_from_expect
# and the plain math grader; '' is accepted as an answer by some of them and rejected at validation by the others
EMPTY_EXPECT = {'quick': ('String', 'SingleList'), 'thorough': ('String', 'Formula', 'SingleList', 'Interval')}
# kinds that run in the thorough tier only (as histories with inferred answers; see families())
THOROUGH_ONLY_INFERRED = ('FormulaNumbered',)
# kinds whose histories run with configured answers only (the keyword argument of the call is independent of inference)
NEVER_INFERRED = ('StringAttempt',)


class VerdictTableComparer(object):
    """
    An AUTHOR's comparer object that answers with dictionaries it keeps itself (the same objects every time it is
    asked): what the library does with a verdict afterwards (scaling by the answer's credit, adding messages) must not
    be done on the author's own dictionaries.
    """
    def __init__(self):
        self.verdicts = {True: {'grade_decimal': 1, 'msg': 'exact'}, False: {'grade_decimal': 0.5, 'msg': 'near miss'}}

    def __call__(self, comparer_params_eval, student_eval, utils):
        return self.verdicts[bool(utils.within_tolerance(comparer_params_eval[0], student_eval))]


def _siblings_cfg(debug):
    fg = FormulaGrader(variables=['x'])
    # ONE subgrader object in both positions; the second answer refers to the first box
    return dict(ordered=True, answers=['x+1', 'sibling_1^2'], subgraders=[fg, fg], debug=debug)


CONFIGURED_ONLY = {
    'List': dict(cls=ListGrader, cfg=lambda debug: dict(answers=['cat', 'dog'], subgraders=StringGrader(), debug=debug),
                 inputs=dict(rightA=['cat', 'dog'], rightB=['dog', 'cat'], wrong=['x', 'y'], malformed=['cat'], nontext='cat')),
    # answers given as a TUPLE of lists / of dicts holding lists: the nested lists are the author's own objects
    'ListTupleAnswers': dict(cls=ListGrader,
                             cfg=lambda debug: dict(answers=(['cat', 'dog'], ['emu', {'expect': 'cat', 'grade_decimal': 0.5}]),
                                                    subgraders=StringGrader(), debug=debug),
                             inputs=dict(rightA=['cat', 'dog'], rightB=['cat', 'emu'], wrong=['x', 'y'], malformed=['cat'], nontext='cat')),
    'SingleListTupleAnswers': dict(cls=SingleListGrader,
                                   cfg=lambda debug: dict(answers=(['a', 'b'], {'expect': ['c', 'd'], 'grade_decimal': 0.5}),
                                                          subgrader=StringGrader(), debug=debug),
                                   inputs=dict(rightA='b,a', rightB='c,d', wrong='z,z', malformed='a,,b', nontext=5)),
    # a debugging math subgrader below a parent that is not debugging (its log must not depend on earlier use of the child)
    'ListDebugChild': dict(cls=ListGrader,
                           cfg=lambda debug: dict(answers=['x+1', '2*x'],
                                                  subgraders=FormulaGrader(variables=['x'], debug=True), debug=debug),
                           inputs=dict(rightA=['x+1', '2*x'], rightB=['2*x', '1+x'], wrong=['x', 'x'], malformed=['x+', 'x'],
                                       nontext='x')),
    'Sum': dict(cls=SumGrader, cfg=lambda debug: dict(answers=dict(lower='1', upper='3', summand='n', summation_variable='n'),
                                                     debug=debug),
                # (rightB: limits exchanged, another dummy variable, and a different function in every field, so that the sets
                # of names which the shared parser remembers for the fields are neither empty nor equal)
                inputs=dict(rightA=['1', '3', 'n', 'n'], rightB=['3*cos(0)', 'sin(0)+1', 'm*exp(0)', 'm'], wrong=['1', '4', 'n', 'n'],
                            malformed=['1', '3', 'n+', 'n'], nontext='n')),
    # an ordered list whose second answer is written in terms of the FIRST box ('sibling_1'); both positions are graded by
    # one and the same FormulaGrader object; an empty first box makes the second one ungradable (raises)
    'ListSiblings': dict(cls=ListGrader, cfg=_siblings_cfg,
                         inputs=dict(rightA=['x+1', '(x+1)^2'], rightB=['2*x', '4*x^2'], wrong=['x+1', 'x'],
                                     malformed=['', 'x^2'], nontext='x')),
    # an author's comparer OBJECT that hands out its own verdict dictionaries, on an answer worth half credit
    'FormulaComparerObject': dict(cls=FormulaGrader,
                                  cfg=lambda debug: dict(variables=['x'], samples=2,
                                                         answers=({'expect': {'comparer': VerdictTableComparer(),
                                                                              'comparer_params': ['x+1']},
                                                                   'grade_decimal': 0.5, 'msg': 'listed'},),
                                                         debug=debug),
                                  inputs=dict(rightA='1+x', rightB='x+1.0', wrong='x', malformed='x+', nontext=5)),
    # a debugging math grader TWO levels down (grouped inputs, nested ListGrader), below parents that may not be debugging
    'NestedListDebugGrandchild': dict(cls=ListGrader,
                                      cfg=lambda debug: dict(answers=[['x+1', '2*x'], ['3*x', 'x^2']],
                                                             subgraders=ListGrader(subgraders=FormulaGrader(variables=['x'],
                                                                                                            debug=True)),
                                                             grouping=[1, 1, 2, 2], debug=debug),
                                      inputs=dict(rightA=['x+1', '2*x', '3*x', 'x^2'], rightB=['x^2', '3*x', '2*x', '1+x'],
                                                  wrong=['x', 'x', 'x', 'x'], malformed=['x+', 'x', 'x', 'x'], nontext='x')),
    # attempt-based credit on a list (the per-box results are scaled)
    'ListAttempt': dict(cls=ListGrader,
                        cfg=lambda debug: dict(answers=['cat', 'dog'], subgraders=StringGrader(),
                                               attempt_based_credit=GeometricCredit(), debug=debug),
                        inputs=dict(rightA=['cat', 'dog'], rightB=['dog', 'cat'], wrong=['cat', 'y'], malformed=['cat', 'dog'],
                                    nontext='cat'),
                        kwargs=dict(rightA={'attempt': 1}, rightB={'attempt': 2}, wrong={'attempt': 3}, malformed={},
                                    nontext={'attempt': 1})),
}
# configured-only kinds kept out of the quick tier
THOROUGH_ONLY_CONFIGURED = ('ListAttempt',)


def canon_author(x):
    """
    canonical form of the AUTHOR's configuration object: plain containers are compared deeply; library objects
    placed in it (subgraders, sampling sets) by class and by their own configuration (transient attributes such as
    the debug log that a parent grader hands to its subgraders are not part of the author's configuration)
    """
    if isinstance(x, dict):
        return ('d', tuple(sorted(((canon_author(k), canon_author(v)) for k, v in x.items()), key=repr)))
    if isinstance(x, (list, tuple)):
        return (type(x).__name__, tuple(canon_author(v) for v in x))
    if isinstance(x, ObjectWithSchema):
        return ('obj', type(x).__qualname__, canon_author(x.config))
    return canon(x)


def strip_inferred(msg):
    """removes the lines 'Expect value inferred to be ...' (keeping a closing </pre> that shares the line)"""
    if not isinstance(msg, str):
        return msg
    out = []
    for l in msg.replace('<br/>\n', '\n').split('\n'):
        if l.startswith('Expect value inferred to be'):
            if l.endswith('</pre>') and out:
                out[-1] = out[-1] + '</pre>'
            continue
        out.append(l)
    return '\n'.join(out)


def normalise(obs):
    """observation -> comparable form (debug 'expect inferred' lines removed)"""
    if obs[0] == 'ok':
        res = obs[1]
        if 'input_list' in res:
            return ('ok', ('list', strip_inferred(res.get('overall_message', '')),
                           tuple((e['ok'], e['grade_decimal'], strip_inferred(e['msg'])) for e in res['input_list'])))
        return ('ok', (res['ok'], res['grade_decimal'], strip_inferred(res['msg'])))
    return obs


def do_call(g, expect, inp, kw=None):
    def body(ch):
        try:
            return ('ok', g(expect, copy.deepcopy(inp), **dict(kw or {})))
        except Exception as e:
            return ('err', type(e).__name__, str(e))
    ch, out = chooser.run_with(body)
    return out


# ------------------------------------------------------------------ process-wide snapshot

def _negpow_works():
    """the matrix negative-power switch, observed behaviourally"""
    try:
        MathArray([[2.0, 0.0], [0.0, 4.0]]) ** -1
        return True
    except Exception:
        return False


def global_snapshot():
    classes = [ObjectWithSchema]
    seen = set()
    stack = [ObjectWithSchema]
    dv = []
    while stack:
        c = stack.pop()
        if c in seen:
            continue
        seen.add(c)
        if c.__module__.startswith('mitxgraders'):
            dv.append((c.__module__ + '.' + c.__qualname__, canon(c.default_values)))
        stack.extend(c.__subclasses__())
    graders = [StringGrader, FormulaGrader, NumericalGrader, MatrixGrader, SingleListGrader, ListGrader, IntervalGrader, SumGrader]
    per_class = []
    for c in graders:
        per_class.append((c.__name__, canon(getattr(c, 'default_variables', None)), canon(sorted(getattr(c, 'default_functions', {}) or {})),
                          canon(getattr(c, 'default_suffixes', None)), canon(getattr(c, 'default_comparer', None)),
                          c.log_created if hasattr(c, 'log_created') else None,
                          getattr(c, 'inferring_answers', None)))
    return {
        'DEFAULT_VARIABLES': canon(MF.DEFAULT_VARIABLES),
        'DEFAULT_FUNCTIONS': canon(sorted(MF.DEFAULT_FUNCTIONS)),
        'DEFAULT_FUNCTIONS_ids': tuple(sorted((k, id(v)) for k, v in MF.DEFAULT_FUNCTIONS.items())),
        'ARRAY_FUNCTIONS': canon(sorted(getattr(MF, 'ARRAY_FUNCTIONS', {}))),
        'DEFAULT_SUFFIXES': canon(MF.DEFAULT_SUFFIXES),
        'METRIC_SUFFIXES': canon(MF.METRIC_SUFFIXES),
        'MathMixin': (canon(MathMixin.default_variables), canon(sorted(MathMixin.default_functions)), canon(MathMixin.default_suffixes)),
        'class_scalars': canon(sorted((k, repr(v)) for k, v in libstate.class_scalars().items()
                                     if isinstance(v, (bool, str, type(None))))),      # switch-like class attributes
        'negative_powers_work': _negpow_works(),
        'np.geterr': canon(np.geterr()),
        'np.geterrcall': getattr(np.geterrcall(), '__qualname__', repr(np.geterrcall())),
        'default_values': tuple(sorted(dv)),
        'per_class': tuple(per_class),
    }


_GRADER_CLASSES = [ObjectWithSchema, AbstractGrader, ItemGrader, StringGrader, FormulaGrader, NumericalGrader, MatrixGrader,
                   SingleListGrader, ListGrader, IntervalGrader, SumGrader]


def save_globals():
    """the real objects behind global_snapshot(), so that a detected leak can be undone before the next history"""
    saved = {
        'class_scalars': libstate.class_scalars(),
        'geterr': dict(np.geterr()),
        'errcall': np.geterrcall(),
        'dicts': [(d, copy.copy(d)) for d in (MF.DEFAULT_VARIABLES, MF.DEFAULT_FUNCTIONS, MF.DEFAULT_SUFFIXES, MF.METRIC_SUFFIXES,
                                              MathMixin.default_variables, MathMixin.default_functions, MathMixin.default_suffixes)],
        'classattrs': [(c, {k: v for k, v in vars(c).items()
                            if k in ('default_values', 'log_created', 'inferring_answers', 'default_variables', 'default_functions',
                                     'default_suffixes', 'default_comparer')}) for c in _GRADER_CLASSES],
    }
    return saved


def restore_globals(saved):
    libstate.restore_class_scalars(saved['class_scalars'])
    np.seterr(**saved['geterr'])
    np.seterrcall(saved['errcall'])
    for d, cp in saved['dicts']:
        d.clear()
        d.update(cp)
    for c, attrs in saved['classattrs']:
        for k in ('default_values', 'log_created', 'inferring_answers', 'default_variables', 'default_functions',
                  'default_suffixes', 'default_comparer'):
            if k in attrs:
                setattr(c, k, attrs[k])
            elif k in vars(c):
                delattr(c, k)


library_containers = libstate.library_containers
snapshot_library_state = libstate.snapshot_library_state
restore_library_state = libstate.restore_library_state
pristine_library = libstate.pristine_library


PRISTINE = None
SAVED = None
PRISTINE_LIBDIFF = None


def pristine():
    """taken once per worker process, when this module is first used (before any history has run)"""
    global PRISTINE, SAVED, PRISTINE_LIBDIFF
    if PRISTINE is None:
        SAVED = save_globals()
        snapshot_library_state()
        PRISTINE = global_snapshot()
        # what the generic scan of module-level / class-level containers reports in the pristine state (containers that
        # cannot be compared with == are always listed); any OTHER entry later on is a changed process-wide container
        PRISTINE_LIBDIFF = libstate.library_state_diff(canon)
    return PRISTINE


def changed_library_containers(libdiff):
    """
    names of the library-level containers whose entry in the generic scan differs from the pristine scan (tables holding
    voluptuous validator objects are left out: those objects compile themselves on first use, which is not a change of
    any setting)
    """
    names = {str(e[0]) for e in set(libdiff) ^ set(PRISTINE_LIBDIFF or ())}
    lazy = {str(e[0]) for e in (PRISTINE_LIBDIFF or ()) if "'voluptuous." in repr(e)}
    # a container that is EMPTY when the library is imported is a cache / memo, not a table of settings: its growth only
    # distinguishes search states (what it remembers is judged through the results of later calls), it is not a
    # violation in itself -- a maintainer may add such a memo without breaking the property
    memo = {str(name) for name, obj, saved in (libstate.LIB_STATE or ()) if not saved}
    # the fill level of function caches (functools.lru_cache on a library function) is memo state as well
    return sorted(n for n in names - lazy - memo if not n.endswith('#cache'))


# ------------------------------------------------------------------ the shared parser's memory

_PARSE_MEMO = {}
_PRIVATE_PARSER = []


def _tree_text(tree):
    f = getattr(tree, 'as_list', None) or getattr(tree, 'asList', None)
    return repr(f()) if f else repr(tree)


def _describe_parsed(parsed):
    return (tuple(sorted(parsed.variables_used)), tuple(sorted(parsed.functions_used)), tuple(sorted(parsed.suffixes_used)),
            _tree_text(parsed.tree))


def parser_cache_findings():
    """
    The library keeps every expression it has parsed in one process-wide parser object and hands the SAME parsed object
    to every later call of every grader.  Each remembered entry must still say about its expression what a parser that
    has never been used for anything else says (names of variables / functions / suffixes, and the tree).
    Returns [(key, expected, found)] for the entries that do not.
    """
    cache = getattr(getattr(X, 'PARSER', None), 'cache', None)
    if not isinstance(cache, dict):
        return []
    bad = []
    for key, parsed in list(cache.items()):
        if key not in _PARSE_MEMO:
            if not _PRIVATE_PARSER:
                _PRIVATE_PARSER.append(X.MathParser())
            try:
                _PARSE_MEMO[key] = _describe_parsed(_PRIVATE_PARSER[0].raw_parse(key))
            except Exception as e:
                _PARSE_MEMO[key] = ('<does not parse>', type(e).__name__)
        try:
            found = _describe_parsed(parsed)
        except Exception as e:
            found = ('<entry unusable>', type(e).__name__)
        if found != _PARSE_MEMO[key]:
            bad.append((key, _PARSE_MEMO[key], found))
    return bad


def forget_bad_parses(bad):
    """drops the damaged entries, so that later histories of this worker are judged on their own"""
    cache = getattr(getattr(X, 'PARSER', None), 'cache', None)
    for key, _, _ in bad:
        cache.pop(key, None)


def diff_snapshot(a, b):
    return [k for k in a if a[k] != b[k]]


# ------------------------------------------------------------------ foreign events

def foreign(name, sysm):
    """operations that must not interfere with g1/g2"""
    try:
        if name == 'other_grader_deletes_pi':
            g = FormulaGrader(answers='1', user_constants={'pi': None, 'e': None})
            do_call(g, None, '1')
        elif name == 'other_grader_allow_inf':
            do_call(FormulaGrader(answers='infty', allow_inf=True), None, 'infty')
        elif name == 'other_grader_identity_dim':
            do_call(MatrixGrader(answers='[[1,0],[0,1]]', identity_dim=2), None, 'I')
        elif name == 'other_matrix_negpow_off_raises':
            do_call(MatrixGrader(answers='[[1,0],[0,2]]', negative_powers=False), None, '[[1,0],[0,2]]^-1')
        elif name == 'other_matrix_negpow_off_ok':
            do_call(MatrixGrader(answers='[[1,0],[0,2]]', negative_powers=False), None, '[[1,0],[0,2]]')
        elif name == 'failing_parse':
            try:
                X.parse('x+')
            except Exception:
                pass
            try:
                X.evaluator('1/0', {}, {}, {})
            except Exception:
                pass
        elif name == 'third_grader_from_same_author_config':
            g3 = sysm.cls(sysm.author_cfg)
            k = sysm.spec
            do_call(g3, k.get('B'), k['inputs']['rightB'], k.get('kwargs', {}).get('rightB'))
            # ... and a fourth one rebuilt from the VALIDATED configuration held by g1 (as authors do to derive a variant of
            # a grader): whatever g4 does with the nested containers of that configuration must not reach g1
            try:
                g4 = sysm.cls(dict(sysm.g['g1'].config))
            except MITxError:
                g4 = None       # whether every validated configuration can be fed back is not this property's business
            if g4 is not None:
                do_call(g4, k.get('B'), k['inputs']['rightB'], k.get('kwargs', {}).get('rightB'))
                do_call(g4, None, k['inputs']['malformed'], k.get('kwargs', {}).get('malformed'))
        elif name == 'other_graders_with_options':
            # unrelated graders that switch on the options which extend the default scope of names for themselves only
            do_call(FormulaGrader(answers='2k*f(q)', metric_suffixes=True, user_functions={'f': np.tan, 'sin': np.cos},
                                  user_constants={'q': 2.0, 'e': 5.0}, suppress_warnings=True), None, '2000*f(q)')
            do_call(NumericalGrader(answers='3M', metric_suffixes=True, user_functions={'h': np.exp}), None, '3000k')
            do_call(MatrixGrader(answers='1m*[1,2]', metric_suffixes=True, max_array_dim=1, identity_dim=3,
                                 user_constants={'v0': MathArray([1.0, 2.0])}), None, '[1,2]/1000')
            do_call(SumGrader(answers=dict(lower='1', upper='3', summand='2k*n', summation_variable='n'), metric_suffixes=True,
                              user_constants={'w': 1.5}), None, ['1', '3', '2000*n', 'n'])
            # entry-by-entry partial credit replaces the default comparer of THAT grader only
            do_call(MatrixGrader(answers='[1,2]', entry_partial_credit='proportional', entry_partial_msg='some entries'),
                    None, '[1,3]')
            do_call(MatrixGrader(entry_partial_credit=0.5), '[[1,2],[3,4]]', '[[1,2],[3,5]]')
            # attempt-based credit with ANOTHER credit rule than any grader under test uses, for the same attempt numbers
            for att in (1, 2, 3):
                do_call(StringGrader(answers='cat', attempt_based_credit=GeometricCredit(factor=0.5)), None, 'cat', {'attempt': att})
            do_call(StringGrader(answers='Cat', case_sensitive=False, strip_all=True, accept_any=False), None, 'c a t')
            do_call(SingleListGrader(answers=['1k', '2'], subgrader=NumericalGrader(metric_suffixes=True), delimiter=';',
                                     partial_credit=False), None, '2;1000')
        elif name == 'other_graders_hit_errors':
            # unrelated graders running into every kind of evaluation error (each is reported to that student only)
            mg = MatrixGrader(answers='[[1,0],[0,1]]', max_array_dim=2)
            for bad in ('[[2,1],[6,3]]^-1', '[[1,2],[3,4]]^-1*[[0,0],[0,0]]^-1', '[1,2]+[1,2,3]', '[[1,2],[3,4]]^0.5', '[1,2]^2',
                        '[[1,2],[3', 'det([1,2])', 'norm(1,2)', '1/0', 'exp(1000)*[[1,0],[0,1]]', 'arccosh(0)'):
                do_call(mg, None, bad)
            fg = FormulaGrader(answers='x', variables=['x'])
            for bad in ('1/0', 'x/(x-x)', 'exp(1000)', '10^400', 'arccosh(0)', 'arcsin(7)*0', 'cot(0)', 'ln(0)', 'fact(-1)', 'fact(0.5)',
                        'sqrt(-1)', 'y', 'f(x)', 'sin(x', 'x+', '2x', 'sin(1,2)', '0^-1', '(0+0*i)^i'):
                do_call(fg, None, bad)
            do_call(NumericalGrader(answers='1'), None, 'x')
        elif name == 'subgrader_used_standalone':
            # the author's subgrader object is also used inside another, debugging, parent
            g1 = sysm.g['g1']

            def leaves(g):
                # the item graders below g, through any depth of nested list graders (each object once)
                sub = g.config.get('subgraders', g.config.get('subgrader'))
                out = []
                for sg in (sub if isinstance(sub, list) else [sub]):
                    if isinstance(sg, ListGrader):
                        out += leaves(sg)
                    elif sg is not None and all(sg is not o for o in out):
                        out.append(sg)
                return out
            for sg in leaves(g1):
                if isinstance(sg, ItemGrader):
                    if isinstance(sg, (FormulaGrader, StringGrader)):
                        do_call(ListGrader(answers=['x+1', 'x+1'] if isinstance(sg, FormulaGrader) else ['cat', 'cat'],
                                           subgraders=sg, debug=True), None, ['x+1', 'x'] if isinstance(sg, FormulaGrader) else ['cat', 'x'])
        elif name == 'other_graders_battery':
            # quick tier: the unrelated-grader events rolled into one
            for sub in ('other_matrix_negpow_off_raises', 'other_grader_deletes_pi', 'other_graders_with_options',
                        'other_graders_hit_errors'):
                foreign(sub, sysm)
        elif name == 'register_clear_defaults_on_sibling':
            sib = NumericalGrader if sysm.cls is not NumericalGrader else StringGrader
            sib.register_defaults({'debug': True})
            sib.clear_registered_defaults()
        else:
            raise HarnessError('unknown foreign event ' + name)
    except HarnessError:
        raise
    except Exception as e:
        raise HarnessError('foreign event %s failed: %r' % (name, e))


FOREIGN_ALL = ['other_matrix_negpow_off_raises', 'third_grader_from_same_author_config', 'other_grader_deletes_pi',
               'other_graders_with_options', 'other_graders_hit_errors']
FOREIGN_Q = ['third_grader_from_same_author_config', 'other_graders_battery', 'subgrader_used_standalone']
FOREIGN_T = FOREIGN_ALL + ['subgrader_used_standalone', 'failing_parse', 'other_grader_allow_inf', 'other_grader_identity_dim',
                         'other_matrix_negpow_off_ok', 'register_clear_defaults_on_sibling']


class System(object):
    pass


class GraderHistory(BFSFamily):
    depth_cap = 4
    level_sync = True
    timeout = 120.0
    max_states = 60000

    def depth_cap_for(self, tier):
        # the property's own bound (4) in the thorough tier; 3 in the quick tier
        return 4 if tier == 'thorough' else 3

    def __init__(self, kind, configured, debug):
        self.kindname = kind
        self.configured = configured
        self.debug = debug
        self.name = 'hist_%s_%s%s' % (kind, ('configured_partial_only' if configured == 'partial' else 'configured') if configured
                                      else 'inferred', '_debug' if debug else '')
        self.rule = ('%s, answers %s, debug=%s: events = call(target in {g1,g2}, expect in {absent, A, B, invalid}, input in '
                     '{right for A, right for B, wrong, malformed, non-text}) + foreign events; depth <= 4 with canonical-state '
                     'de-duplication; each call compared with a fresh grader (pristine process) holding the effective expect'
                     % (kind, 'configured' if configured else 'inferred from expect', debug))

    # -- pristine reference observations, computed before anything else happens in this worker
    def setup(self, tier):
        self.tier = tier
        self.simple = self.kindname in CONFIGURED_ONLY
        if self.simple:
            self.spec = CONFIGURED_ONLY[self.kindname]
            self.cls = self.spec['cls']
        else:
            self.spec = KINDS[self.kindname]
            self.cls = self.spec['cls']
        self.pristine = pristine()
        self.fresh = {}
        self.valid = {}

    def make_author_cfg(self, answers, which='g1'):
        if self.simple:
            return self.spec['cfg'](self.debug)
        return author_config(self.kindname, answers, self.debug, which)

    def fresh_obs(self, eff, inkey, which='g1'):
        """observation of a fresh grader whose answers are `eff` (NOEXPECT: none configured) for input inkey"""
        if which == 'g2' and (self.simple or 'extra_g2' not in self.spec):
            which = 'g1'
        key = (eff, inkey, which)
        if key not in self.fresh:
            with pristine_library():        # the reference must not see what the history under test left behind
                try:
                    g = self.cls(self.make_author_cfg(None if eff == NOEXPECT else eff, which))
                except Exception as e:
                    self.fresh[key] = ('construct-failed', type(e).__name__, str(e))
                    return self.fresh[key]
                self.fresh[key] = normalise(do_call(g, None, self.spec['inputs'][inkey], self.call_kwargs(inkey)))
        return self.fresh[key]

    def call_kwargs(self, inkey):
        """keyword arguments that belong to the call with this input (the attempt number), if the kind has any"""
        return self.spec.get('kwargs', {}).get(inkey)

    def expect_valid(self, e):
        if e not in self.valid:
            try:
                self.cls(self.make_author_cfg(e))
                self.valid[e] = True
            except Exception:
                self.valid[e] = False
        return self.valid[e]

    def events(self, tier):
        evs = []
        if self.simple or self.configured:
            exps = ['none', 'B'] if not self.simple else ['none', 'X']
        else:
            exps = ['none', 'A', 'B', 'INV'] if tier == 'thorough' else ['none', 'A', 'INV']
        inputs = ['rightA', 'rightB', 'wrong', 'malformed', 'nontext'] if tier == 'thorough' else ['rightA', 'wrong', 'malformed', 'nontext']
        for e in exps:
            for i in inputs:
                evs.append(('call', 'g1', e, i))
        if not (self.simple or self.configured or self.debug) and self.kindname in EMPTY_EXPECT[tier]:
            # an expect value that is given but EMPTY (falsy, yet not absent): it is the expect of that call like any other
            for i in (('rightA', 'malformed') if tier == 'thorough' else ('rightA',)):
                evs.append(('call', 'g1', 'EMPTY', i))
        for e, i in (('B', 'rightB'), ('none', 'rightA'), ('INV', 'malformed'), ('B', 'malformed')):
            if self.simple or self.configured:
                e = 'none' if e != 'B' else ('B' if not self.simple else 'X')
            evs.append(('call', 'g2', e, i))
        for f in (FOREIGN_T if tier == 'thorough' else FOREIGN_Q):
            evs.append(('foreign', f))
        # de-duplicate while keeping order
        out = []
        for e in evs:
            if e not in out:
                out.append(e)
        return out

    def expect_value(self, ekey):
        if ekey == 'none':
            return None
        if ekey == 'X':
            return 'anything'
        if ekey == 'EMPTY':
            return ''
        return self.spec[ekey]

    def build(self, hist):
        # every history starts from the pristine library-level state (whatever an earlier history of this worker left in
        # module-level or class-level containers is undone), so that a violation is attributed to the history causing it
        restore_library_state()
        s = System()
        s.cls = self.cls
        s.spec = self.spec
        s.fam = self
        configured_answers = None
        if not self.simple and self.configured:
            configured_answers = PARTIAL_ONLY if self.configured == 'partial' else self.spec['A']
        s.author_cfg = self.make_author_cfg(configured_answers)
        s.author_snapshot = canon_author(s.author_cfg)
        # the second instance is built as authors do it: from a copy of the first configuration dictionary, so that nested
        # author objects (subgraders, sampling sets, constant / function dictionaries) are SHARED between the two graders
        cfg2 = self.make_author_cfg(configured_answers, 'g2')
        if not self.simple:
            for k, v in s.author_cfg.items():
                if k in cfg2 and k not in ('answers', 'debug') and 'extra_g2' not in self.spec:
                    cfg2[k] = v
        s.g = {'g1': self.cls(s.author_cfg), 'g2': self.cls(cfg2)}
        s.author_after_construct = canon_author(s.author_cfg)
        # reference: which expect values may be in force
        init = configured_answers if configured_answers is not None else NOEXPECT
        s.possible = {'g1': {init}, 'g2': {init}}
        s.obs = []
        s.verdicts = []
        for ev in hist:
            if ev[0] == 'foreign':
                foreign(ev[1], s)
                s.obs.append(('foreign', ev[1]))
                s.verdicts.append(None)
                continue
            _, tgt, ekey, inkey = ev
            expect = self.expect_value(ekey)
            raw = do_call(s.g[tgt], expect, self.spec['inputs'][inkey], self.call_kwargs(inkey))
            obs = normalise(raw)
            s.obs.append(obs)
            s.verdicts.append(self.judge_call(s, tgt, ekey, expect, inkey, obs, raw))
        return s

    def judge_call(self, s, tgt, ekey, expect, inkey, obs, raw):
        """compares with the fresh grader(s) and updates the set of expects possibly in force"""
        poss = s.possible[tgt]
        inference = (not self.simple) and (not self.configured) and expect is not None
        if inference and not self.expect_valid(expect):
            # the class rejects this expect value: the call must raise, and nothing changes
            if obs[0] == 'ok':
                return viol('invalid-expect-accepted', 'call with invalid expect %r returned %r' % (expect, obs))
            return None
        if inference:
            candidates = {expect}
        else:
            candidates = set(poss)
        matches = [c for c in candidates if self.fresh_obs(c, inkey, tgt) == obs]
        if inference:
            if obs[0] == 'ok':
                s.possible[tgt] = {expect}
            else:
                s.possible[tgt] = poss | {expect}
        if not matches:
            exp = {c: self.fresh_obs(c, inkey, tgt) for c in candidates}
            kind = 'differs-from-fresh-grader'
            if obs[0] == 'err' and all(v[0] == 'ok' for v in exp.values()):
                kind = 'raises-but-fresh-grader-grades'
            elif obs[0] == 'ok' and all(v[0] != 'ok' for v in exp.values()):
                kind = 'grades-but-fresh-grader-raises'
            elif obs[0] == 'ok' and any(v[0] == 'ok' and v[1][:2] == obs[1][:2] for v in exp.values() if isinstance(v[1], tuple)):
                kind = 'message-differs-from-fresh-grader'
            return viol(kind, '%s call(expect=%r, input=%r): observed %r; a fresh grader with the expect in force (%s) gives %r'
                        % (tgt, expect, self.spec['inputs'][inkey], _short(obs), sorted(map(str, candidates)),
                           {k: _short(v) for k, v in exp.items()}),
                        {str(k): _short(v) for k, v in exp.items()}, _short(obs))
        # debug mode: the inferred-expect line must be present iff inference happened in this call
        if self.debug and raw[0] == 'ok' and not self.simple:
            msg = raw[1].get('msg', '') if 'msg' in raw[1] else raw[1].get('overall_message', '')
            n = msg.count('Expect value inferred to be')
            want = 1 if inference else 0
            if n != want:
                return viol('debug-log-inferred-lines', '%s call(expect=%r): %d "Expect value inferred" line(s) in the debug output, expected %d'
                            % (tgt, expect, n, want), want, n)
        return None

    def state_key(self, s):
        snap = global_snapshot()
        snap = dict(snap)
        snap.pop('DEFAULT_FUNCTIONS_ids', None)      # object identities are only meaningful inside one process
        libdiff = getattr(s, 'libdiff', None)
        if libdiff is None:
            libdiff = libstate.library_state_diff(canon)
        return (canon(s.g['g1'].__dict__), canon(s.g['g2'].__dict__), canon(snap), libdiff,
                tuple(sorted(map(str, s.possible['g1']))), tuple(sorted(map(str, s.possible['g2']))))

    def check_transition(self, hist, ev, s):
        v = s.verdicts[-1] if s.verdicts else None
        if v is not None:
            v = dict(v)
            v['sig'] = '%s:%s' % (self.kindname + ('-configured' if self.configured else '-inferred'), v['sig'])
            return v
        return None

    def invariant(self, s):
        if s.author_after_construct != s.author_snapshot:
            return viol('%s:author-config-mutated-by-constructor' % self.kindname,
                        'the author configuration object changed when the grader was built from it')
        if canon_author(s.author_cfg) != s.author_snapshot:
            return viol('%s:author-config-mutated-by-grading' % self.kindname, 'the author configuration object changed during grading')
        snap = global_snapshot()
        d = diff_snapshot(self.pristine, snap)
        if d:
            # undo the leak so that later histories in this worker start clean
            restore_globals(SAVED)
            return viol('process-wide-setting-changed:' + ','.join(d), 'process-wide settings changed: %r' % d,
                        {k: repr(self.pristine[k])[:200] for k in d}, {k: repr(snap[k])[:200] for k in d})
        # any other module-level / class-level container of the library (function tables of the matrix grader, suffix
        # tables, schema option tables, ...), found by the generic scan: content must equal the pristine content
        s.libdiff = libstate.library_state_diff(canon)
        names = changed_library_containers(s.libdiff)
        if names:
            restore_library_state()
            return viol('process-wide-setting-changed:library-container:' + ','.join(names),
                        'module-level or class-level containers of the library changed: %r' % names,
                        'content as in the pristine process', _short([e for e in s.libdiff if str(e[0]) in names]))
        # the process-wide parser memory: what it remembers about an expression is shared by all later calls
        bad = parser_cache_findings()
        if bad:
            forget_bad_parses(bad)
            key, want, found = bad[0]
            return viol('parser-memory-altered', 'the shared parser now remembers %r as %s; a parser used for nothing else '
                        'gives %s (%d entr%s affected)' % (key, _short(found), _short(want), len(bad), 'y' if len(bad) == 1 else 'ies'),
                        _short(want), _short(found))
        return None


def _short(o):
    r = repr(o)
    return r if len(r) < 300 else r[:300] + '...'


# ------------------------------------------------------------------ scopes are not mutated

SCOPE_EXPRS = ['x+1', 'x*A', 'A*A', 'A^2', '-A', 'A+A', 'A-A', 'A*v', 'v*A', 'v*v', 'A/2', '2*A', 'A^-1', 'f(x)', 'f(A)', 'g(A)',
               'trans(A)', 'abs(v)', '[x,x]+v', 'A+0', 'A*x', 'x^2', 'A^0', 'A*A*A', 'v/x', 'x*v*2', 'h(v)', 'cross(w,w)', 'w*2',
               'srt(v)', 'poke(A)', 'poke(v)+srt(w)', 'wipe(w)', 'srt(v)*v', 'poke(A)*A']


class Scopes(Family):
    name = 'evaluator_scopes'
    rule = ('%d expressions over scalar, vector and matrix variables and user functions (some of which try in-place '
            'arithmetic on their argument) evaluated with fixed scope dictionaries, singly and in every ordered pair; the scope '
            'dictionaries (variables, functions, suffixes) must equal their deep snapshots afterwards' % len(SCOPE_EXPRS))

    def cases(self, tier):
        n = len(SCOPE_EXPRS)
        for i in range(n):
            yield (i,)
        for i in range(n):
            for j in range(n):
                yield (i, j)

    def describe(self, case):
        return [SCOPE_EXPRS[i] for i in case]

    def check(self, case):
        def g_inplace(M):
            M += 1
            return 1.0

        def h_inplace(u):
            u *= 2
            return 2.0
        def srt(u):           # author helpers that write into their argument by other means than arithmetic operators
            u.sort()
            return 1.0

        def poke(u):
            u[0] = 99.0
            return 2.0

        def wipe(u):
            u.fill(0.0)
            return 3.0
        V = {'x': 2.0, 'A': MathArray([[1.0, 2.0], [3.0, 5.0]]), 'v': MathArray([1.0, -1.0]), 'w': MathArray([3.0, 2.0, 1.0])}
        F = dict(MF.ARRAY_FUNCTIONS) if hasattr(MF, 'ARRAY_FUNCTIONS') else {}
        F.update({'f': lambda t: t * 2, 'g': g_inplace, 'h': h_inplace, 'srt': srt, 'poke': poke, 'wipe': wipe})
        F.update({k: MF.DEFAULT_FUNCTIONS[k] for k in ('abs',) if k in MF.DEFAULT_FUNCTIONS and k not in F})
        S = {'k': 1000.0}
        before = (canon(V), sorted(F), canon(S))
        ids = {k: id(v) for k, v in F.items()}
        for i in case:
            try:
                X.evaluator(SCOPE_EXPRS[i], V, F, S, max_array_dim=2)
            except MITxError:
                pass
            except Exception:
                pass
        after = (canon(V), sorted(F), canon(S))
        if before != after or ids != {k: id(v) for k, v in F.items()}:
            return Result('mutated', True, viol('scope-mutated', 'evaluating %r changed the scope dictionaries' % (self.describe(case),),
                                                repr(before)[:300], repr(after)[:300]), len(case))
        return Result('unchanged', True, None, len(case))


# ------------------------------------------------------------------ the shared parser remembers nothing but the parse

PC_EXPRS = ['x+1', 'X+1', 'x + 1', '1+x', 'f(x)', 'F(x)', 'f(x)+sin(x)', 'sin(x)', '2k', '2K', '2*k', 'x+', '(x', 'x_{1}', "x'",
            '[x,1]', '[x,1]*[x,1]', '1', '1.0', '1e3', '1E3', '', 'x^-1', 'sin(x', 'f(x)+f(x', 'x+1)',
            # bracket-balanced, names a variable, nested far beyond what the parser can handle: the call fails inside the
            # parser with an error that is neither a parse error nor a library error
            'q+(' * 200 + '1' + ')' * 200]


def _pc_scope(which):
    if which == 0:
        return ({'x': 2.0, 'X': 5.0, 'k': 7.0, "x'": 11.0, 'x_{1}': 13.0},
                {'f': lambda t: t * 2, 'F': lambda t: t * 3, 'sin': np.sin}, {'k': 1000.0, 'K': 0.5, '%': 0.01})
    # other values for the same names, another function under the same name, fewer names
    return ({'x': 3.0, 'k': -1.0}, {'f': lambda t: t * 5, 'sin': np.cos}, {'%': 0.01})


class ParserCache(Family):
    name = 'parser_memory_pairs'
    rule = ('%d expressions (same text in other case / spacing / number spelling, texts that do not parse, the same names as '
            'variable, function and suffix) evaluated through the library evaluator in every ordered pair, each of the two in '
            'either of two scopes (other values and another function under the same names; fewer names): the SECOND evaluation '
            '(value, names reported as used, or the error) must equal the evaluation of the same text in the same scope with '
            'nothing remembered, and afterwards every remembered expression must still describe itself as a parser used for '
            'nothing else describes it; non-trivial = the two evaluations differ in text or in scope' % len(PC_EXPRS))

    def setup(self, tier):
        pristine()
        self.ref = {}

    def cases(self, tier):
        n = len(PC_EXPRS)
        for i in range(n):
            for a in (0, 1):
                yield (i, a)
        for i in range(n):
            for j in range(n):
                for a in (0, 1):
                    for b in (0, 1):
                        yield (i, a, j, b)

    def describe(self, case):
        return [(PC_EXPRS[case[k]], 'scope%d' % case[k + 1]) for k in range(0, len(case), 2)]

    @staticmethod
    def _eval(i, a):
        V, F, S = _pc_scope(a)
        try:
            val, meta = X.evaluator(PC_EXPRS[i], V, F, S, max_array_dim=1)
            return ('ok', canon(val), tuple(sorted(meta.variables_used)), tuple(sorted(meta.functions_used)),
                    tuple(sorted(meta.suffixes_used)), meta.max_array_dim_used)
        except RecursionError as e:
            return ('err', type(e).__name__, '')         # the wording depends on where the interpreter gave up
        except Exception as e:
            return ('err', type(e).__name__, str(e))

    def check(self, case):
        case = tuple(case)
        steps = [(case[k], case[k + 1]) for k in range(0, len(case), 2)]
        cache = X.PARSER.cache
        last = steps[-1]
        if last not in self.ref:
            cache.clear()
            self.ref[last] = self._eval(*last)           # nothing remembered
        cache.clear()
        obs = None
        for st in steps:
            obs = self._eval(*st)
        calls = len(steps) + 1
        nontrivial = len(steps) == 1 or steps[0] != steps[1]
        if obs != self.ref[last]:
            return Result('differs', nontrivial,
                          viol('parser-memory:later-evaluation-differs', 'after %r the evaluation of %r gives %s; with nothing '
                               'remembered it gives %s' % (self.describe(case)[:-1], self.describe(case)[-1], _short(obs),
                                                           _short(self.ref[last])), _short(self.ref[last]), _short(obs)), calls)
        bad = parser_cache_findings()
        if bad:
            forget_bad_parses(bad)
            key, want, found = bad[0]
            return Result('memory-altered', nontrivial,
                          viol('parser-memory:entry-altered', 'after %r the shared parser remembers %r as %s; a parser used for '
                               'nothing else gives %s' % (self.describe(case), key, _short(found), _short(want)),
                               _short(want), _short(found)), calls)
        return Result(obs[0] if obs[0] == 'ok' else obs[1], nontrivial, None, calls)


class RegisteredDefaults(Family):
    name = 'registered_defaults_histories'
    rule = ('every sequence of <= 4 [quick 3] operations over {register {debug: True} on AbstractGrader, register {case_sensitive: False} on '
            'StringGrader, register {wrong_msg: "reg"} on ItemGrader, construct StringGrader with explicit options, construct a plain '
            'StringGrader, construct a NumericalGrader, clear everything}: every constructed grader must have exactly the configuration '
            'predicted by an independent model (library defaults < registered defaults along the class chain < explicit options), the '
            'registered dictionaries must contain only what was registered, and after clearing everything is pristine')

    OPS = ['regA', 'regS', 'regI', 'newX', 'newP', 'newN', 'clear']

    def setup(self, tier):
        self.base_string = dict(StringGrader(answers='dog').config)
        self.base_num = dict(NumericalGrader(answers='2').config)

    def cases(self, tier):
        n = 4 if tier == 'thorough' else 3
        for L in range(1, n + 1):
            for seq in itertools.product(range(len(self.OPS)), repeat=L):
                yield seq

    def describe(self, case):
        return [self.OPS[i] for i in case]

    def check(self, case):
        model = {AbstractGrader: {}, ItemGrader: {}, StringGrader: {}}
        classes = (AbstractGrader, ItemGrader, StringGrader, NumericalGrader, FormulaGrader, ObjectWithSchema)
        calls = 0
        try:
            for step, i in enumerate(case):
                op = self.OPS[i]
                calls += 1
                if op == 'regA':
                    AbstractGrader.register_defaults({'debug': True})
                    model[AbstractGrader]['debug'] = True
                elif op == 'regS':
                    StringGrader.register_defaults({'case_sensitive': False})
                    model[StringGrader]['case_sensitive'] = False
                elif op == 'regI':
                    ItemGrader.register_defaults({'wrong_msg': 'reg'})
                    model[ItemGrader]['wrong_msg'] = 'reg'
                elif op == 'clear':
                    for c in classes:
                        c.clear_registered_defaults()
                    model = {AbstractGrader: {}, ItemGrader: {}, StringGrader: {}}
                else:
                    if op == 'newX':
                        g = StringGrader(answers='cat', wrong_msg='nope', strip=False)
                        exp = dict(self.base_string)
                        for c in (AbstractGrader, ItemGrader, StringGrader):
                            exp.update(model[c])
                        exp.update({'wrong_msg': 'nope', 'strip': False})
                        exp['answers'] = StringGrader(answers='cat', **{k: v for k, v in exp.items() if k != 'answers'}).config['answers']
                    elif op == 'newP':
                        g = StringGrader(answers='dog')
                        exp = dict(self.base_string)
                        for c in (AbstractGrader, ItemGrader, StringGrader):
                            exp.update(model[c])
                    else:
                        g = NumericalGrader(answers='2')
                        exp = dict(self.base_num)
                        for c in (AbstractGrader, ItemGrader):
                            exp.update(model[c])
                    got = dict(g.config)
                    if canon_author(got) != canon_author(exp):
                        diff = sorted(k for k in set(got) | set(exp) if canon_author(got.get(k, '<absent>')) != canon_author(exp.get(k, '<absent>')))
                        return Result('config-differs', True,
                                      viol('registered-defaults:constructed-config-differs-from-model',
                                           'after %r the %s has options %r differing from defaults+registered+explicit: got %r, expected %r'
                                           % ([self.OPS[j] for j in case[:step + 1]], type(g).__name__, diff,
                                              {k: got.get(k) for k in diff}, {k: exp.get(k) for k in diff}),
                                           {k: repr(exp.get(k)) for k in diff}, {k: repr(got.get(k)) for k in diff}), calls)
                for c in (AbstractGrader, ItemGrader, StringGrader):
                    have = c.default_values or {}
                    if have != model[c]:
                        return Result('registered-polluted', True,
                                      viol('registered-defaults:class-defaults-changed-by-construction',
                                           'after %r %s.default_values is %r, registered was %r'
                                           % ([self.OPS[j] for j in case[:step + 1]], c.__name__, have, model[c]), model[c], have), calls)
                for c in (NumericalGrader, FormulaGrader, ObjectWithSchema):
                    if c.default_values:
                        return Result('registered-leaked', True,
                                      viol('registered-defaults:leaked-to-other-class', '%s.default_values = %r' % (c.__name__, c.default_values)), calls)
        except Exception as e:
            return Result('raised', True, viol('registered-defaults:raised', 'sequence %r raised %r' % (self.describe(case), e)), calls)
        finally:
            for c in classes:
                c.clear_registered_defaults()
        return Result('ok', len(set(case)) > 1, None, calls)


def families(tier):
    pristine()
    fams = []
    debug_opts = (False,) if tier == 'quick' else (False, True)
    for kind in KINDS:
        for configured in (False, True):
            for debug in debug_opts:
                if tier == 'quick' and configured and kind in ('Numerical', 'MatrixNoNegPow', 'Interval'):
                    continue
                if kind in THOROUGH_ONLY_INFERRED and not configured and (tier == 'quick' or debug):
                    continue        # (their debug logs are exercised by the configured variants)
                if kind in NEVER_INFERRED and not configured:
                    continue
                fams.append(GraderHistory(kind, configured, debug))
    for kind in CONFIGURED_ONLY:
        if tier == 'quick' and kind in THOROUGH_ONLY_CONFIGURED:
            continue
        for debug in debug_opts:
            fams.append(GraderHistory(kind, True, debug))
    # configured answers none of which earns full credit (the expect argument is still ignored)
    for kind in (('String', 'Formula') if tier == 'quick' else [k for k in KINDS if k not in THOROUGH_ONLY_INFERRED + NEVER_INFERRED]):
        fams.append(GraderHistory(kind, 'partial', False))
    if tier == 'quick':
        # debug mode: a few kinds in the quick tier too (the log of one call must not reach the next one)
        for kind, configured in (('Formula', False), ('String', True), ('SingleList', False), ('List', True)):
            fams.append(GraderHistory(kind, configured, True))
    fams.append(Scopes())
    fams.append(ParserCache())
    fams.append(RegisteredDefaults())
    return fams
